//! C02 — concurrent clients on one node see a linearizable per-key history.
//! 2..8 concurrent tokio tasks on a MULTI-thread runtime drive a REAL `ShardedActorState`
//! (`execute`, `fast_get/fast_set`, `pooled_fast_get/pooled_fast_set`; 1, 2, 4 shards) with seeded
//! random yields; invocations and responses are stamped with a global atomic counter; the history
//! goes to the model driver, which runs the VERIFIED checker (`C02.checkLin`) on it.
//! Oracle: an independent per-key linearizability checker in Rust (own sequential spec of the
//! string commands, WGL search with memoisation).
//! The schedules are SAMPLED: the seed fixes the programs of the clients and their yield
//! patterns, not the interleaving the runtime picks.
use crate::c03::{apply, h_bytes, h_str, new_state, new_state_ctx, new_state_perf, r1, Op, State};
use crate::enc::hex;
use crate::out::Out;
use crate::rng::Rng;
use crate::Args;
use serde_json::json;
use std::collections::{BTreeMap, HashSet};
use std::sync::atomic::{AtomicU64, Ordering};
use std::sync::Arc;

#[path = "c02sched.rs"]
mod sched;
#[path = "c02conn.rs"]
mod conn;

/// how long all clients of one sampled case may take (normally milliseconds)
const CASE_DEADLINE: std::time::Duration = std::time::Duration::from_secs(45);

#[derive(Clone, Debug)]
struct Event {
    stamp: u64,
    /// id of the operation = stamp of its invocation
    id: u64,
    inv: Option<Op>,
    res: Option<String>,
}

/// independent sequential specification (strings only), replies in the harness' canonical text
fn spec(state: &Option<Vec<u8>>, op: &Op) -> (Option<Vec<u8>>, String) {
    let bulk = |v: &Vec<u8>| format!("b:{}", hex(v));
    match op.name {
        // (E… / ES… = the same command as a Lua script through EVAL / SCRIPT LOAD + EVALSHA)
        "GET" | "FGET" | "PGET" | "EGET" | "ESGET" | "XSGET" => (state.clone(), state.as_ref().map(bulk).unwrap_or("nil".into())),
        "SET" | "FSET" | "PSET" | "ESET" | "ESSET" => (Some(op.vals[0].clone()), "ok".into()),
        // one item of a batched call
        "BGET" | "MGET" => (state.clone(), format!("m:[{}]", state.as_ref().map(bulk).unwrap_or("nil".into()))),
        "BSET" => (Some(op.vals[0].clone()), "m:[ok]".into()),
        // one item of a generic fan-out
        "MSET" => (Some(op.vals[0].clone()), "ok".into()),
        "DEL" => (None, format!("i:{}", state.is_some() as u8)),
        "SETNX" => match state {
            Some(_) => (state.clone(), "i:0".into()),
            None => (Some(op.vals[0].clone()), "i:1".into()),
        },
        "APPEND" => {
            let mut v = state.clone().unwrap_or_default();
            v.extend_from_slice(&op.vals[0]);
            let n = v.len();
            (Some(v), format!("i:{}", n))
        }
        "STRLEN" => (state.clone(), format!("i:{}", state.as_ref().map(|v| v.len()).unwrap_or(0))),
        "INCR" | "EINCR" | "ESINCR" | "XINCR" => match state {
            None => (Some(b"1".to_vec()), "i:1".into()),
            Some(v) => match std::str::from_utf8(v).ok().and_then(|s| s.parse::<i64>().ok()) {
                None => (state.clone(), "e:2".into()),
                Some(i) => match i.checked_add(1) {
                    None => (state.clone(), "e:3".into()),
                    Some(j) => (Some(j.to_string().into_bytes()), format!("i:{}", j)),
                },
            },
        },
        "GETDEL" => (None, state.as_ref().map(bulk).unwrap_or("nil".into())),
        "GETSET" => (Some(op.vals[0].clone()), state.as_ref().map(bulk).unwrap_or("nil".into())),
        x => panic!("spec {}", x),
    }
}

struct KOp {
    op: Op,
    inv: usize,
    res: Option<(usize, String)>,
}

/// WGL search with memoisation over one key's operations
fn linearizable(ops: &[KOp]) -> bool {
    fn go(ops: &[KOp], done: u64, state: &Option<Vec<u8>>, memo: &mut HashSet<(u64, Option<Vec<u8>>)>) -> bool {
        if ops.iter().enumerate().all(|(i, o)| done >> i & 1 == 1 || o.res.is_none()) {
            return true;
        }
        if !memo.insert((done, state.clone())) {
            return false;
        }
        // an operation may go next iff no other outstanding operation has responded before it was invoked
        let first_res = ops
            .iter()
            .enumerate()
            .filter(|(i, _)| done >> i & 1 == 0)
            .filter_map(|(_, o)| o.res.as_ref().map(|r| r.0))
            .min()
            .unwrap_or(usize::MAX);
        for (i, o) in ops.iter().enumerate() {
            if done >> i & 1 == 1 || o.inv > first_res {
                continue;
            }
            let (s2, r) = spec(state, &o.op);
            if let Some((_, obs)) = &o.res {
                if *obs != r {
                    continue;
                }
            }
            if go(ops, done | 1 << i, &s2, memo) {
                return true;
            }
        }
        false
    }
    assert!(ops.len() <= 60);
    go(ops, 0, &None, &mut HashSet::new())
}

fn per_key(events: &[Event]) -> BTreeMap<Vec<u8>, Vec<KOp>> {
    let mut m: BTreeMap<Vec<u8>, Vec<KOp>> = BTreeMap::new();
    let mut where_: BTreeMap<u64, (Vec<u8>, usize)> = BTreeMap::new();
    for (pos, e) in events.iter().enumerate() {
        if let Some(op) = &e.inv {
            let k = op.keys[0].clone();
            let v = m.entry(k.clone()).or_default();
            v.push(KOp { op: op.clone(), inv: pos, res: None });
            where_.insert(e.id, (k, v.len() - 1));
        } else if let Some(r) = &e.res {
            let (k, i) = where_.get(&e.id).unwrap().clone();
            m.get_mut(&k).unwrap()[i].res = Some((pos, r.clone()));
        }
    }
    m
}

struct Case {
    n: usize,
    class: &'static str,
    /// one program per client
    programs: Vec<Vec<(Op, u8)>>,
}

fn val(rng: &mut Rng) -> Vec<u8> {
    match rng.below(6) {
        0 => b"10".to_vec(),
        1 => b"x".to_vec(),
        _ => format!("v{}", rng.below(20)).into_bytes(),
    }
}

fn gen_op(rng: &mut Rng, class: &str, k: &[u8]) -> Op {
    if class == "counter" {
        // one counter hammered through every way of incrementing / reading it
        return match rng.below(12) {
            0 | 1 => Op::k("INCR", k),
            2 | 3 => Op::k("EINCR", k),
            4 | 5 => Op::k("ESINCR", k),
            // a read-modify-write script of TWO redis.call's (atomic iff the script is one step)
            9..=11 => Op::k("XINCR", k),
            6 => Op::k(*rng.pick(&["GET", "EGET", "ESGET"]), k),
            7 => Op::k("FGET", k),
            _ => Op::new("BGET", vec![k.to_vec()], vec![]),
        };
    }
    let fast = match class {
        "generic" => false,
        "fast" => true,
        _ => rng.chance(1, 2),
    };
    if fast {
        match rng.below(6) {
            0 | 1 => Op::k("FGET", k),
            2 => Op::k("PGET", k),
            3 | 4 => Op::kv("FSET", k, &val(rng)),
            _ => Op::kv("PSET", k, &val(rng)),
        }
    } else {
        match rng.below(11) {
            0 | 1 => Op::k("GET", k),
            2 => Op::k(*rng.pick(&["EGET", "ESGET"]), k),
            3 => Op::kv("SET", k, &val(rng)),
            4 => Op::kv(*rng.pick(&["SET", "ESET", "ESSET"]), k, &val(rng)),
            5 => Op::kv("APPEND", k, &val(rng)),
            6 => Op::k("STRLEN", k),
            7 => Op::k("INCR", k),
            8 => Op::k("GETDEL", k),
            9 => Op::kv("SETNX", k, &val(rng)),
            _ => Op::kv("GETSET", k, &val(rng)),
        }
    }
}

fn pool() -> Vec<Vec<u8>> {
    (0..40).map(|i| format!("k{}", i).into_bytes()).collect()
}

/// plain keys plus the structured alphabet of C03 (tags, punctuation, high bytes, empty, long)
fn wide_pool() -> Vec<Vec<u8>> {
    let mut p = pool();
    p.extend(crate::c03::special_keys().into_iter().map(|(_, k)| k));
    p
}

fn mismatched(k: &[u8], n: usize, fixed: bool) -> bool {
    !fixed && h_str(std::str::from_utf8(k).unwrap(), n) != h_bytes(k, n)
}

fn random_case(rng: &mut Rng, fixed: bool) -> Case {
    let n = *rng.pick(&[1usize, 2, 4, 4, 8, 16]);
    let class = *rng.pick(&["generic", "generic", "fast", "mixed", "mixed", "mixed-consistent", "counter"]);
    // (≤ 8 clients and ≤ 10 operations on a counter: the verified checker has no memoisation and a
    // non-linearizable history must be searched exhaustively)
    let clients = if class == "counter" { rng.range(4, 8) as usize } else { rng.range(2, 8) as usize };
    let nkeys = if class == "counter" { 1 } else { rng.range(1, 3) as usize };
    let base = if rng.chance(1, 3) { wide_pool() } else { pool() };
    let mut cand: Vec<Vec<u8>> = match class {
        "mixed-consistent" => base.into_iter().filter(|k| !mismatched(k, n, fixed)).collect(),
        _ => base,
    };
    rng.shuffle(&mut cand);
    let keys: Vec<Vec<u8>> = cand.into_iter().take(nkeys).collect();
    // ≤ 12 operations per key in total
    let total = if class == "counter" { rng.range(6, 10) as usize } else { nkeys * rng.range(6, 12) as usize };
    let mut programs: Vec<Vec<(Op, u8)>> = vec![Vec::new(); clients];
    let mut per_key_count: BTreeMap<Vec<u8>, usize> = BTreeMap::new();
    for i in 0..total {
        let k = keys[rng.below(keys.len() as u64) as usize].clone();
        let c = per_key_count.entry(k.clone()).or_insert(0);
        if *c >= 12 {
            continue;
        }
        *c += 1;
        // the batched path: small batches (1..4 distinct keys: gaps between the touched shards are
        // the norm) on the SAME keys as the other paths, padded with keys nobody else touches
        if class != "generic" && class != "counter" && rng.chance(1, 4) {
            let mut bk = vec![k.clone()];
            for _ in 0..rng.below(4) {
                let extra = if rng.chance(1, 2) { keys[rng.below(keys.len() as u64) as usize].clone() } else { format!("pad{}", rng.below(30)).into_bytes() };
                if !bk.contains(&extra) && (class != "mixed-consistent" || !mismatched(&extra, n, fixed)) {
                    bk.push(extra);
                }
            }
            rng.shuffle(&mut bk);
            for x in &bk {
                if x != &k {
                    *per_key_count.entry(x.clone()).or_insert(0) += 1;
                }
            }
            let op = if rng.chance(1, 2) { Op::new("BGET", bk, vec![]) } else {
                let vs = bk.iter().map(|_| val(rng)).collect();
                Op::new("BSET", bk, vs)
            };
            programs[i % clients].push((op, rng.below(4) as u8));
            continue;
        }
        if class != "counter" && class != "fast" && rng.chance(1, 7) {
            // a generic fan-out over the keys of the case (all of them for FLUSHALL)
            let mut fk = vec![k.clone()];
            for x in &keys {
                if !fk.contains(x) && rng.chance(1, 2) {
                    fk.push(x.clone());
                }
            }
            let op = match rng.below(8) {
                0 | 1 => Op::new("MGET", fk, vec![]),
                2 | 3 => {
                    let vs = fk.iter().map(|_| val(rng)).collect();
                    Op::new("MSET", fk, vs)
                }
                4 => {
                    if fk.len() < 2 {
                        fk.push(format!("pad{}", rng.below(30)).into_bytes());
                    }
                    Op::new("DEL", fk, vec![])
                }
                5 => Op::new("FLUSH", keys.clone(), vec![]),
                6 => Op::new("DBSIZE", vec![], vec![]),
                _ => Op::new("KEYS", vec![], vec![]),
            };
            for x in &op.keys {
                if x != &k {
                    *per_key_count.entry(x.clone()).or_insert(0) += 1;
                }
            }
            programs[i % clients].push((op, rng.below(4) as u8));
            continue;
        }
        let op = gen_op(rng, class, &k);
        programs[i % clients].push((op, rng.below(4) as u8));
    }
    // FLUSHALL deletes EVERY key any client of the case touches (pad keys of batches included)
    let mut universe: Vec<Vec<u8>> = Vec::new();
    for p in &programs {
        for (o, _) in p {
            for x in &o.keys {
                if !universe.contains(x) {
                    universe.push(x.clone());
                }
            }
        }
    }
    for p in programs.iter_mut() {
        for (o, _) in p.iter_mut() {
            if o.name == "FLUSH" {
                o.keys = universe.clone();
            }
        }
    }
    Case { n, class, programs }
}

/// the deterministic witness: ONE client, fast_set then generic GET on keys whose hashes differ
fn corpus(fixed: bool) -> Case {
    let mut prog = Vec::new();
    for k in pool().into_iter().filter(|k| mismatched(k, 4, fixed) || fixed).take(12) {
        prog.push((Op::kv("FSET", &k, b"hello"), 0));
        prog.push((Op::k("GET", &k), 0));
        prog.push((Op::kv("APPEND", &k, b"!"), 0));
        prog.push((Op::k("PGET", &k), 0));
    }
    Case { n: 4, class: "mixed", programs: vec![prog] }
}

/// scripts and structured keys, sequentially (ONE client): a value written through the fast path
/// must be seen by EVAL and by EVALSHA of the same key (every Lua script is routed by KEYS[1]), and a
/// key with a `{tag}` / punctuation / high bytes has one home whichever path carries the command
fn corpus_scripts() -> Vec<Case> {
    let mut cs = Vec::new();
    for n in [4usize, 8] {
        let mut prog = Vec::new();
        for k in pool().into_iter().take(10).chain(crate::c03::special_keys().into_iter().map(|(_, k)| k)) {
            prog.push((Op::kv("FSET", &k, b"v1"), 0));
            prog.push((Op::k("ESGET", &k), 0));
            prog.push((Op::k("EGET", &k), 0));
            prog.push((Op::k("STRLEN", &k), 0));
            prog.push((Op::kv("ESSET", &k, b"7"), 0));
            prog.push((Op::k("FGET", &k), 0));
            prog.push((Op::k("ESINCR", &k), 0));
            prog.push((Op::k("EINCR", &k), 0));
            prog.push((Op::k("XINCR", &k), 0));
            prog.push((Op::k("INCR", &k), 0));
            prog.push((Op::new("BGET", vec![k.clone()], vec![]), 0));
        }
        cs.push(Case { n, class: "scripts", programs: vec![prog] });
    }
    // a script introduced by EVAL through ONE shard is then used by EVALSHA through the others
    // (the script cache is node-global state)
    {
        let n = 4;
        let p = pool();
        let mut prog = vec![(Op::k("EGET", &p[0]), 0)];
        for k in p.iter().skip(1).take(12) {
            prog.push((Op::kv("FSET", k, b"v1"), 0));
            prog.push((Op::k("XSGET", k), 0));
        }
        cs.push(Case { n, class: "scripts", programs: vec![prog] });
    }
    cs
}

/// the batched path, sequentially (ONE client): an acknowledged batched SET must be seen by the
/// generic path, and a batched GET must see a later fast SET — with keys whose home shard is not
/// the first one and batches that leave gaps between the touched shards
fn corpus_batch() -> Vec<Case> {
    let mut cs = Vec::new();
    for n in [4usize, 8, 16] {
        let mut prog = Vec::new();
        for k in pool().into_iter().take(14) {
            prog.push((Op::new("BSET", vec![k.clone()], vec![b"old".to_vec()]), 0));
            prog.push((Op::k("GET", &k), 0));
            prog.push((Op::kv("FSET", &k, b"new"), 0));
            prog.push((Op::new("BGET", vec![k.clone()], vec![]), 0));
        }
        // two- and three-key batches
        let p = pool();
        for w in p[14..26].chunks(3) {
            prog.push((Op::new("BSET", w.to_vec(), w.iter().map(|_| b"b3".to_vec()).collect()), 0));
            for k in w {
                prog.push((Op::k("FGET", k), 0));
            }
            prog.push((Op::new("BGET", w.iter().rev().cloned().collect(), vec![]), 0));
        }
        cs.push(Case { n, class: "batch", programs: vec![prog] });
    }
    cs
}

async fn client(st: Arc<State>, clock: Arc<AtomicU64>, prog: Vec<(Op, u8)>) -> Vec<Event> {
    let mut evs = Vec::with_capacity(prog.len() * 2);
    for (op, yields) in prog {
        for _ in 0..yields {
            tokio::task::yield_now().await;
        }
        if matches!(op.name, "BGET" | "BSET") {
            // a batched call: every item is one single-key operation with the call's interval
            let n = op.keys.len() as u64;
            let id0 = clock.fetch_add(n, Ordering::SeqCst);
            let bytes = |v: &Vec<u8>| bytes::Bytes::copy_from_slice(v);
            let replies = if op.name == "BGET" {
                st.fast_batch_get_pipeline(op.keys.iter().map(bytes).collect()).await
            } else {
                st.fast_batch_set_pipeline(op.keys.iter().zip(&op.vals).map(|(k, v)| (bytes(k), bytes(v))).collect()).await
            };
            let d0 = clock.fetch_add(n, Ordering::SeqCst);
            for j in 0..op.keys.len() {
                let item = if op.name == "BGET" { Op::new("BGET", vec![op.keys[j].clone()], vec![]) } else { Op::new("BSET", vec![op.keys[j].clone()], vec![op.vals[j].clone()]) };
                let r = replies.get(j).map(|v| format!("m:[{}]", r1(v))).unwrap_or("m:[e:?missing]".into());
                let id = id0 + j as u64;
                evs.push(Event { stamp: id, id, inv: Some(item), res: None });
                evs.push(Event { stamp: d0 + j as u64, id, inv: None, res: Some(r) });
            }
            continue;
        }
        if matches!(op.name, "MGET" | "MSET" | "DEL" | "FLUSH" | "DBSIZE" | "KEYS") {
            // a generic fan-out racing the single-key operations.  No atomicity across keys is
            // claimed; what is checked: every ITEM of MGET / MSET is one single-key operation inside
            // the call's interval; every key of a multi-key DEL / of FLUSHALL is a delete whose own
            // reply is not observable (only the sum is): it is recorded as an operation WITHOUT a
            // response (it may take effect at any point after the invocation).  DBSIZE / KEYS are
            // issued to race, their replies are not judged.
            use redis_sim::redis::{Command, RespValue, SDS};
            let n = op.keys.len().max(1) as u64;
            let id0 = clock.fetch_add(n, Ordering::SeqCst);
            let skeys: Vec<String> = op.keys.iter().map(|k| String::from_utf8(k.clone()).unwrap()).collect();
            let reply = match op.name {
                "MGET" => st.execute(&Command::MGet(skeys.clone())).await,
                "MSET" => st.execute(&Command::MSet(skeys.iter().cloned().zip(op.vals.iter().map(|v| SDS::new(v.clone()))).collect())).await,
                "DEL" => st.execute(&Command::Del(skeys.clone())).await,
                "FLUSH" => st.execute(&Command::FlushAll).await,
                "DBSIZE" => st.execute(&Command::DbSize).await,
                _ => st.execute(&Command::Keys("*".into())).await,
            };
            let d0 = clock.fetch_add(n, Ordering::SeqCst);
            for j in 0..op.keys.len() {
                let id = id0 + j as u64;
                match op.name {
                    "MGET" => {
                        let r = match &reply {
                            RespValue::Array(Some(v)) => v.get(j).map(|x| format!("m:[{}]", r1(x))).unwrap_or("m:[e:?missing]".into()),
                            o => r1(o),
                        };
                        evs.push(Event { stamp: id, id, inv: Some(Op::new("MGET", vec![op.keys[j].clone()], vec![])), res: None });
                        evs.push(Event { stamp: d0 + j as u64, id, inv: None, res: Some(r) });
                    }
                    "MSET" => {
                        evs.push(Event { stamp: id, id, inv: Some(Op::new("MSET", vec![op.keys[j].clone()], vec![op.vals[j].clone()])), res: None });
                        evs.push(Event { stamp: d0 + j as u64, id, inv: None, res: Some(r1(&reply)) });
                    }
                    // DEL (several keys) and FLUSHALL: a delete of every key, reply not observable
                    "DEL" | "FLUSH" => evs.push(Event { stamp: id, id, inv: Some(Op::new("DEL", vec![op.keys[j].clone()], vec![])), res: None }),
                    _ => {}
                }
            }
            continue;
        }
        let id = clock.fetch_add(1, Ordering::SeqCst);
        let r = apply(&st, &op).await;
        let done = clock.fetch_add(1, Ordering::SeqCst);
        evs.push(Event { stamp: id, id, inv: Some(op), res: None });
        evs.push(Event { stamp: done, id, inv: None, res: Some(r) });
    }
    evs
}

async fn run_case(out: &mut Out, case: Case, fixed: bool) {
    let st = Arc::new(new_state(case.n));
    let clock = Arc::new(AtomicU64::new(1));
    let mut handles = Vec::new();
    for p in case.programs.iter().cloned() {
        handles.push(tokio::spawn(client(st.clone(), clock.clone(), p)));
    }
    let mut events: Vec<Event> = Vec::new();
    // a request that is never answered (a lost wake-up, a reply written into another request's slot) must
    // end the case, not the run: the clients get `CASE_DEADLINE` in all
    let all = async {
        let mut evs: Vec<Event> = Vec::new();
        for h in handles.iter_mut() {
            evs.extend(h.await.expect("client task"));
        }
        evs
    };
    match tokio::time::timeout(CASE_DEADLINE, all).await {
        Ok(evs) => events.extend(evs),
        Err(_) => {
            for h in &handles {
                h.abort();
            }
            out.violation(
                &format!("C02:request-never-answered:{}:shards={}", case.class, case.n),
                &format!("{} shards, {} clients: after {} s at least one request has still not been answered — a reply was lost (the clients' programs are the replay; operations are single-key string commands through the generic / fast / pooled / batch / script paths)", case.n, case.programs.len(), CASE_DEADLINE.as_secs()),
                json!({"shards": case.n, "class": case.class, "programs": case.programs.iter().map(|p| p.iter().map(|(o, y)| format!("{} (yields {})", o.line(), y)).collect::<Vec<_>>()).collect::<Vec<_>>()}),
            );
            return;
        }
    }
    events.sort_by_key(|e| e.stamp);
    judge(out, events, case.class, case.n, case.programs.len(), fixed, None);
}

/// hand one stamped history to the verified checker (op lines) and to the independent oracle.
/// `wrong` = a direct "reply does not match the request" observation of the caller, if any.
fn judge(out: &mut Out, events: Vec<Event>, class: &'static str, n: usize, clients: usize, fixed: bool, wrong: Option<String>) {
    // lines for the verified checker
    out.op("NEW".into(), "ok".into());
    let mut text = Vec::new();
    for e in &events {
        let l = match (&e.inv, &e.res) {
            (Some(op), _) => format!("I {} {}", e.id, op.line()),
            (_, Some(r)) => format!("R {} {}", e.id, r),
            _ => unreachable!(),
        };
        text.push(l.clone());
        out.op(l, "ok".into());
    }
    // independent oracle
    let pk = per_key(&events);
    let mut bad_keys: Vec<Vec<u8>> = Vec::new();
    let mut overlap = false;
    let mut writes = false;
    for (k, ops) in &pk {
        if !linearizable(ops) {
            bad_keys.push(k.clone());
        }
        for (i, a) in ops.iter().enumerate() {
            writes |= !matches!(a.op.name, "GET" | "FGET" | "PGET" | "BGET" | "MGET" | "EGET" | "ESGET" | "STRLEN");
            for b in ops.iter().skip(i + 1) {
                let a_end = a.res.as_ref().map(|r| r.0).unwrap_or(usize::MAX);
                let b_end = b.res.as_ref().map(|r| r.0).unwrap_or(usize::MAX);
                overlap |= a.inv < b_end && b.inv < a_end;
            }
        }
    }
    let lin = bad_keys.is_empty();
    out.op("CHECK".into(), if lin { "lin".into() } else { "not-lin".into() });
    out.count(&format!("class:{}", class));
    out.count(&format!("shards:{}", n));
    out.count(&format!("clients:{}", clients));
    out.count(if overlap { "history:with-overlapping-ops" } else { "history:sequential" });
    out.count(if lin { "verdict:lin" } else { "verdict:not-lin" });
    out.count_n("ops", events.iter().filter(|e| e.inv.is_some()).count() as u64);
    let pending = events.iter().filter(|e| e.inv.is_some()).count() - events.iter().filter(|e| e.res.is_some()).count();
    out.count_n("ops:pending(abandoned)", pending as u64);
    if let Some(w) = &wrong {
        out.violation(
            "C02:reply-to-wrong-requester",
            &format!("{} shards, {} clients: {}", n, clients, w),
            json!({"shards": n, "class": class, "history": text, "not_linearizable_keys": bad_keys.iter().map(|k| String::from_utf8_lossy(k).to_string()).collect::<Vec<_>>()}),
        );
    } else if !lin {
        let explained = class == "mixed" && n > 1 && bad_keys.iter().all(|k| mismatched(k, n, fixed));
        let sig = if explained { "C02:route-hash-mismatch".to_string() } else { format!("C02:not-linearizable:{}:shards={}", class, n) };
        out.violation(
            &sig,
            &format!(
                "{} shards, {} clients: the history of key(s) {} admits no linearization",
                n,
                clients,
                bad_keys.iter().map(|k| { let t = String::from_utf8_lossy(k).to_string(); if t.chars().count() > 24 { format!("{}…({} bytes)", t.chars().take(24).collect::<String>(), k.len()) } else { format!("{:?}", t) } }).collect::<Vec<_>>().join(",")
            ),
            json!({"shards": n, "class": class, "history": text}),
        );
    }
    out.case(&text.join(";"), (overlap && writes) || pending > 0);
    out.sample(json!({"shards": n, "class": class, "clients": clients, "history": text.iter().take(16).collect::<Vec<_>>()}));
}

/// Cancellation: a shard is kept busy by a slow script; pooled requests to that shard are
/// ABANDONED while queued (their futures are dropped by a timeout); then several clients, each the
/// single writer of a private key, run `pooled_fast_set k v; pooled_fast_get k` rounds — more
/// pooled acquisitions than the shared pool has slots, during and after the stall.  Every reply
/// must be the reply of ITS request; the abandoned operations stay pending in the history.
async fn cancel_case(out: &mut Out, rng: &mut Rng, fixed: bool, corpus: bool) {
    use redis_sim::redis::Command;
    let n = 4usize;
    // the response pool is generated configuration (through the real validate()): the default
    // (256 / 64 pre-warmed) in the fixed case, else capacity 1 … 256 and prewarm 0 … capacity
    let (cap, pre) = if corpus { (256usize, 64usize) } else { *rng.pick(&[(1usize, 0usize), (1, 1), (2, 2), (8, 3), (64, 64), (256, 64)]) };
    let st = Arc::new(new_state_perf(n, cap, pre).map(|x| x.0).unwrap_or_else(|| new_state(n)));
    out.count(&format!("cancel:pool-capacity={}:prewarm={}", cap, pre));
    let clock = Arc::new(AtomicU64::new(1));
    let mut events: Vec<Event> = Vec::new();
    let busy: Vec<u8> = b"busy:key".to_vec();
    let busy_shard = h_bytes(&busy, n);
    let stamp_op = |clock: &AtomicU64| clock.fetch_add(1, Ordering::SeqCst);
    // the busy shard holds a value nobody else writes
    {
        let op = Op::kv("FSET", &busy, b"busy-shard-private-value");
        let id = stamp_op(&clock);
        let r = apply(&st, &op).await;
        let done = stamp_op(&clock);
        events.push(Event { stamp: id, id, inv: Some(op), res: None });
        events.push(Event { stamp: done, id, inv: None, res: Some(r) });
    }
    // 1. keep that shard occupied (EVAL is routed by KEYS[1]); not part of the history
    let iters = if corpus { 30_000_000u64 } else { rng.range(15, 40) * 1_000_000 };
    let slow = Command::Eval {
        script: format!("local x = 0 for i = 1, {} do x = x + 1 end return x", iters),
        keys: vec![String::from_utf8(busy.clone()).unwrap()],
        args: vec![],
    };
    let stall = {
        let st = st.clone();
        tokio::spawn(async move { st.execute(&slow).await })
    };
    tokio::time::sleep(std::time::Duration::from_millis(40)).await;
    // 2. pooled requests to the busy shard, given up while queued
    let same_shard: Vec<Vec<u8>> = (0..200).map(|i| format!("ab:{}", i).into_bytes()).filter(|k| h_bytes(k, n) == busy_shard && (fixed || h_str(std::str::from_utf8(k).unwrap(), n) == busy_shard)).take(3).collect();
    let mut abandoned_ops = vec![Op::k("PGET", &busy)];
    let extra = if corpus { 2 } else { rng.below(3) as usize };
    for k in same_shard.iter().take(extra) {
        abandoned_ops.push(if rng.chance(1, 2) { Op::kv("PSET", k, b"zz") } else { Op::k("PGET", k) });
    }
    let mut abandoned = 0;
    for op in abandoned_ops {
        let id = stamp_op(&clock);
        let r = tokio::time::timeout(std::time::Duration::from_millis(8), apply(&st, &op)).await;
        events.push(Event { stamp: id, id, inv: Some(op), res: None });
        match r {
            Ok(reply) => {
                let done = stamp_op(&clock);
                events.push(Event { stamp: done, id, inv: None, res: Some(reply) });
            }
            Err(_) => abandoned += 1,
        }
    }
    out.count_n("cancel:requests-abandoned-while-queued", abandoned);
    // 3. single-writer clients on private keys, pooled path, during and after the stall
    let clients = if corpus { 8 } else { rng.range(4, 8) as usize };
    let rounds = if corpus { 6 } else { rng.range(5, 8) as usize };
    let keys: Vec<Vec<u8>> = (0..clients).map(|c| format!("own:{}", c).into_bytes()).collect();
    let mut wrong: Option<String> = None;
    for phase in 0..2 {
        let mut handles = Vec::new();
        for (c, k) in keys.iter().enumerate() {
            let (st, clock, k) = (st.clone(), clock.clone(), k.clone());
            handles.push(tokio::spawn(async move {
                let mut evs = Vec::new();
                let mut wrong: Option<String> = None;
                for r in 0..rounds {
                    let v = format!("c{}p{}r{}", c, phase, r).into_bytes();
                    for op in [Op::kv("PSET", &k, &v), Op::k("PGET", &k)] {
                        let id = clock.fetch_add(1, Ordering::SeqCst);
                        let reply = apply(&st, &op).await;
                        let done = clock.fetch_add(1, Ordering::SeqCst);
                        let expected = if op.name == "PSET" { "ok".to_string() } else { format!("b:{}", hex(&v)) };
                        if reply != expected && wrong.is_none() {
                            wrong = Some(format!("client {} sent `{}` and received {} (its own request can only answer {})", c, op.line(), reply, expected));
                        }
                        evs.push(Event { stamp: id, id, inv: Some(op), res: None });
                        evs.push(Event { stamp: done, id, inv: None, res: Some(reply) });
                    }
                }
                (evs, wrong)
            }));
        }
        for h in handles {
            let (evs, w) = h.await.expect("client task");
            events.extend(evs);
            if wrong.is_none() {
                wrong = w;
            }
        }
        if phase == 0 {
            // the script ends (the shard then answers the abandoned messages) before phase 2
            while !stall.is_finished() {
                tokio::time::sleep(std::time::Duration::from_millis(5)).await;
            }
        }
    }
    // late reads of the keys the abandoned requests touched
    for k in std::iter::once(&busy).chain(same_shard.iter().take(extra)) {
        let op = Op::k("PGET", k);
        let id = stamp_op(&clock);
        let r = apply(&st, &op).await;
        let done = stamp_op(&clock);
        events.push(Event { stamp: id, id, inv: Some(op), res: None });
        events.push(Event { stamp: done, id, inv: None, res: Some(r) });
    }
    events.sort_by_key(|e| e.stamp);
    judge(out, events, "cancel", n, clients + 1, fixed, wrong);
}



// ───────────────────────── multi-call, multi-key scripts ─────────────────────────
/// Atomicity of a script that makes SEVERAL redis.call's on TWO keys of one shard (the model:
/// `Redis.Prog` / `execScript7`, theorem `C02.script_refines` — the whole script is one step of the
/// shard that owns KEYS[1]).  `a` starts at 1000, `b` at 0.  Writers run a transfer script (read
/// both, write both: four calls), readers run a sum script (two calls) and plain commands race on the
/// same shard.  If a script is one atomic step, every sum is 1000 and the transfers are not lost.
/// A direct oracle on the real code (multi-key operations are outside the per-key checkers).
async fn transfer_case(out: &mut Out, rng: &mut Rng, fixed: bool, corpus: bool) {
    use redis_sim::redis::{Command, RespValue};
    let n = if corpus { 4usize } else { *rng.pick(&[1usize, 2, 4, 8, 16]) };
    let st = Arc::new(new_state(n));
    // two keys with one home (under both hashes if the tree still has two)
    let cands: Vec<Vec<u8>> = (0..400).map(|i| format!("acct:{}", i).into_bytes()).filter(|k| !mismatched(k, n, fixed)).collect();
    let a = cands[rng.below(20) as usize].clone();
    let b = match cands.iter().find(|k| **k != a && h_bytes(k, n) == h_bytes(&a, n)) {
        Some(b) => b.clone(),
        None => return,
    };
    let (ka, kb) = (String::from_utf8(a.clone()).unwrap(), String::from_utf8(b.clone()).unwrap());
    st.execute(&Command::set(ka.clone(), redis_sim::redis::SDS::new(b"1000".to_vec()))).await;
    st.execute(&Command::set(kb.clone(), redis_sim::redis::SDS::new(b"0".to_vec()))).await;
    const XFER: &str = "local x = tonumber(redis.call('GET', KEYS[1])) local y = tonumber(redis.call('GET', KEYS[2])) redis.call('SET', KEYS[1], tostring(x - 1)) redis.call('SET', KEYS[2], tostring(y + 1)) return x + y";
    const SUM: &str = "return tonumber(redis.call('GET', KEYS[1])) + tonumber(redis.call('GET', KEYS[2]))";
    let writers = if corpus { 4 } else { rng.range(2, 5) as usize };
    let readers = if corpus { 3 } else { rng.range(1, 4) as usize };
    let rounds = if corpus { 25 } else { rng.range(10, 30) as usize };
    let mut handles = Vec::new();
    for w in 0..writers + readers {
        let (st, ka, kb) = (st.clone(), ka.clone(), kb.clone());
        let by_sha = w % 2 == 1;
        let is_writer = w < writers;
        handles.push(tokio::spawn(async move {
            let mut sums = Vec::new();
            for r in 0..rounds {
                let script = if is_writer { XFER } else { SUM };
                let reply = crate::c03::run_script(&st, script, by_sha, vec![ka.clone(), kb.clone()], vec![]).await;
                sums.push(match reply {
                    RespValue::Integer(i) => i,
                    other => {
                        let _ = other;
                        i64::MIN
                    }
                });
                if r % 3 == 0 {
                    tokio::task::yield_now().await;
                }
                // a plain command on the same shard between the scripts (must not split them)
                if r % 5 == 4 {
                    let _ = st.execute(&Command::StrLen(ka.clone())).await;
                }
            }
            sums
        }));
    }
    let mut all: Vec<i64> = Vec::new();
    for h in handles {
        all.extend(h.await.expect("script client"));
    }
    let num = |r: RespValue| match r {
        RespValue::BulkString(Some(v)) => String::from_utf8_lossy(&v).parse::<i64>().unwrap_or(i64::MIN),
        _ => i64::MIN,
    };
    let fa = num(st.execute(&Command::Get(ka.clone())).await);
    let fb = num(st.execute(&Command::Get(kb.clone())).await);
    let transfers = (writers * rounds) as i64;
    out.count("class:script-transfer");
    out.count(&format!("shards:{}", n));
    out.count_n("script-transfer:scripts-run", ((writers + readers) * rounds) as u64);
    let bad_sum = all.iter().find(|x| **x != 1000).cloned();
    let ok = bad_sum.is_none() && fa == 1000 - transfers && fb == transfers;
    if !ok {
        out.violation(
            "C02:script-not-atomic:transfer",
            &format!(
                "{} writers x {} transfer scripts (GET a, GET b, SET a-1, SET b+1) and {} readers (GET a + GET b) on {} shards: a script observed the sum {:?} / the run ended with a = {}, b = {} (atomic scripts: every sum 1000, a = {}, b = {})",
                writers, rounds, readers, n, bad_sum, fa, fb, 1000 - transfers, transfers
            ),
            json!({"shards": n, "keys": [ka, kb], "writers": writers, "readers": readers, "rounds": rounds, "sums_observed_not_1000": all.iter().filter(|x| **x != 1000).take(10).collect::<Vec<_>>(), "final_a": fa, "final_b": fb}),
        );
    }
    out.case(&format!("script-transfer|{}|{}|{}|{}|{:?}", n, writers, readers, rounds, all.len()), writers + readers >= 2);
}

// ───────────────────────── timed histories ─────────────────────────
// Keys get PX / EX deadlines; the simulated clock is advanced by hand BETWEEN phases (all clients
// idle), so every operation of a phase is invoked at a known virtual time `now`.  The sequential
// specification of both checkers has a clock: an operation invoked at `now` sees a key iff
// `now < deadline` — expiry is a function of the invocation time, not an operation.

#[derive(Clone, Debug)]
struct TEvent {
    stamp: u64,
    id: u64,
    now: u64,
    inv: Option<Op>,
    res: Option<String>,
}

fn timed_line(op: &Op) -> String {
    match op.name {
        "SETPX" | "SETEX" => format!("{} {} {} {}", op.name, hex(&op.keys[0]), hex(&op.vals[0]), op.cursor),
        _ => op.line(),
    }
}

async fn apply_timed(st: &State, op: &Op) -> String {
    use redis_sim::redis::{Command, SDS};
    let bytes = |v: &Vec<u8>| bytes::Bytes::copy_from_slice(v);
    match op.name {
        "SETPX" | "SETEX" => {
            let mut c = Command::set(String::from_utf8(op.keys[0].clone()).unwrap(), SDS::new(op.vals[0].clone()));
            if let Command::Set { ref mut ex, ref mut px, .. } = c {
                if op.name == "SETPX" {
                    *px = Some(op.cursor as i64);
                } else {
                    *ex = Some(op.cursor as i64);
                }
            }
            r1(&st.execute(&c).await)
        }
        "BGET" => st.fast_batch_get_pipeline(vec![bytes(&op.keys[0])]).await.first().map(|v| format!("m:[{}]", r1(v))).unwrap_or("m:[e:?missing]".into()),
        "BSET" => st.fast_batch_set_pipeline(vec![(bytes(&op.keys[0]), bytes(&op.vals[0]))]).await.first().map(|v| format!("m:[{}]", r1(v))).unwrap_or("m:[e:?missing]".into()),
        _ => apply(st, op).await,
    }
}

type TState = Option<(Vec<u8>, Option<u64>)>;

/// the independent timed specification of one key
fn spec_timed(state: &TState, op: &Op, now: u64) -> (TState, String) {
    let live: Option<&Vec<u8>> = match state {
        Some((v, Some(d))) if *d <= now => {
            let _ = v;
            None
        }
        Some((v, _)) => Some(v),
        None => None,
    };
    let bulk = |v: &Vec<u8>| format!("b:{}", hex(v));
    match op.name {
        "GET" | "FGET" | "PGET" | "EGET" | "ESGET" => (state.clone(), live.map(bulk).unwrap_or("nil".into())),
        "BGET" | "MGET" => (state.clone(), format!("m:[{}]", live.map(bulk).unwrap_or("nil".into()))),
        "EXISTS" => (state.clone(), format!("i:{}", live.is_some() as u8)),
        "SET" | "FSET" | "PSET" | "ESET" | "ESSET" => (Some((op.vals[0].clone(), None)), "ok".into()),
        "BSET" => (Some((op.vals[0].clone(), None)), "m:[ok]".into()),
        "SETPX" => (Some((op.vals[0].clone(), Some(now + op.cursor))), "ok".into()),
        "SETEX" => (Some((op.vals[0].clone(), Some(now + 1000 * op.cursor))), "ok".into()),
        x => panic!("timed spec {}", x),
    }
}

struct TKOp {
    op: Op,
    now: u64,
    inv: usize,
    res: Option<(usize, String)>,
}

fn linearizable_timed(ops: &[TKOp]) -> bool {
    fn go(ops: &[TKOp], done: u64, state: &TState, memo: &mut HashSet<(u64, TState)>) -> bool {
        if ops.iter().enumerate().all(|(i, o)| done >> i & 1 == 1 || o.res.is_none()) {
            return true;
        }
        if !memo.insert((done, state.clone())) {
            return false;
        }
        let first_res = ops.iter().enumerate().filter(|(i, _)| done >> i & 1 == 0).filter_map(|(_, o)| o.res.as_ref().map(|r| r.0)).min().unwrap_or(usize::MAX);
        for (i, o) in ops.iter().enumerate() {
            if done >> i & 1 == 1 || o.inv > first_res {
                continue;
            }
            let (s2, r) = spec_timed(state, &o.op, o.now);
            if let Some((_, obs)) = &o.res {
                if *obs != r {
                    continue;
                }
            }
            if go(ops, done | 1 << i, &s2, memo) {
                return true;
            }
        }
        false
    }
    assert!(ops.len() <= 60);
    go(ops, 0, &None, &mut HashSet::new())
}

/// phases: (virtual time, one program per client); the clock moves only between phases
struct TimedCase {
    n: usize,
    label: String,
    phases: Vec<(u64, Vec<Vec<Op>>)>,
}

fn top(name: &'static str, k: &[u8], v: &[u8], num: u64) -> Op {
    let mut o = Op::new(name, vec![k.to_vec()], if v.is_empty() && !matches!(name, "SET" | "FSET" | "PSET" | "BSET" | "ESET" | "ESSET" | "SETPX" | "SETEX") { vec![] } else { vec![v.to_vec()] });
    o.cursor = num;
    o
}

const READS: [&str; 8] = ["GET", "EXISTS", "FGET", "PGET", "BGET", "MGET", "EGET", "ESGET"];

fn timed_keys(n: usize) -> (Vec<u8>, Vec<u8>, Vec<u8>) {
    let p = pool();
    let k = p[0].clone();
    let same = p.iter().skip(1).find(|x| h_bytes(x, n) == h_bytes(&k, n)).cloned().unwrap_or_else(|| p[1].clone());
    let other = p.iter().find(|x| h_bytes(x, n) != h_bytes(&k, n)).cloned().unwrap_or_else(|| p[2].clone());
    (k, same, other)
}

/// the seed C02-pooled-get-no-sweep-and-no-probe: a deadline, the clock far past it, then the key
/// is read through every path (one client, sequentially) — without traffic, with traffic to
/// another shard, with traffic to the key's own shard
fn timed_corpus() -> Vec<TimedCase> {
    let mut cs = Vec::new();
    for (label, traffic) in [("none", 0), ("other-shard", 1), ("same-shard", 2)] {
        let n = 4;
        let (k, same, other) = timed_keys(n);
        let mut late: Vec<Op> = Vec::new();
        match traffic {
            1 => late.push(top("GET", &other, b"", 0)),
            2 => late.push(top("FGET", &same, b"", 0)),
            _ => {}
        }
        late.push(top("PGET", &k, b"", 0));
        late.push(top("GET", &k, b"", 0));
        for r in READS {
            late.push(top(r, &k, b"", 0));
        }
        cs.push(TimedCase { n, label: format!("corpus:ttl=far:traffic={}", label), phases: vec![(0, vec![vec![top("SETPX", &k, b"v", 100)]]), (500, vec![late])] });
    }
    cs
}

fn timed_random(rng: &mut Rng) -> TimedCase {
    let n = *rng.pick(&[2usize, 4, 8]);
    let (k, same, other) = timed_keys(n);
    let t0 = rng.below(50);
    let (set, ttl) = if rng.chance(1, 4) { (top("SETEX", &k, b"v", 1), 1000u64) } else {
        let ms = *rng.pick(&[1u64, 100, 250]);
        (top("SETPX", &k, b"v", ms), ms)
    };
    let deadline = t0 + ttl;
    let (ttl_state, t1) = match rng.below(4) {
        0 => ("before", deadline - 1),
        1 => ("at", deadline),
        2 => ("after", deadline + 1),
        _ => ("far", deadline + 400 + rng.below(3000)),
    };
    let traffic = *rng.pick(&["none", "other-shard", "same-shard"]);
    let mut phases: Vec<(u64, Vec<Vec<Op>>)> = vec![(t0, vec![vec![set]])];
    match traffic {
        "other-shard" => phases.push((t1, vec![vec![top(*rng.pick(&["GET", "FGET", "SET"]), &other, b"o", 0)]])),
        "same-shard" => phases.push((t1, vec![vec![top(*rng.pick(&["GET", "FGET", "PGET", "SET"]), &same, b"o", 0)]])),
        _ => {}
    }
    // concurrent readers through random paths (≤ 5 operations on the key)
    let readers = rng.range(2, 4) as usize;
    let mut progs: Vec<Vec<Op>> = vec![Vec::new(); readers];
    for i in 0..rng.range(2, 5) as usize {
        progs[i % readers].push(top(*rng.pick(&READS), &k, b"", 0));
    }
    phases.push((t1, progs));
    // later: a writer (which clears the deadline) racing with readers
    if rng.chance(1, 2) {
        let t2 = t1 + rng.below(300);
        let w = top(*rng.pick(&["SET", "FSET", "PSET", "BSET", "ESSET"]), &k, b"w", 0);
        let mut progs: Vec<Vec<Op>> = vec![vec![w]];
        for _ in 0..rng.range(1, 3) {
            progs.push(vec![top(*rng.pick(&READS), &k, b"", 0)]);
        }
        phases.push((t2, progs));
        phases.push((t2 + 5000, vec![vec![top(*rng.pick(&READS), &k, b"", 0)]]));
    }
    TimedCase { n, label: format!("ttl={}:traffic={}", ttl_state, traffic), phases }
}

async fn run_timed_case(out: &mut Out, case: TimedCase) {
    let (st, sim) = new_state_ctx(case.n);
    let st = Arc::new(st);
    let clock = Arc::new(AtomicU64::new(1));
    let mut events: Vec<TEvent> = Vec::new();
    let mut vnow = 0u64;
    let mut clients = 0usize;
    for (t, progs) in &case.phases {
        if *t > vnow {
            sim.advance_by(redis_sim::io::Duration::from_millis(*t - vnow));
            vnow = *t;
        }
        clients = clients.max(progs.len());
        let mut handles = Vec::new();
        for prog in progs.iter().cloned() {
            let (st, clock) = (st.clone(), clock.clone());
            let now = vnow;
            handles.push(tokio::spawn(async move {
                let mut evs = Vec::new();
                for op in prog {
                    out_count_path(&op);
                    let id = clock.fetch_add(1, Ordering::SeqCst);
                    let r = apply_timed(&st, &op).await;
                    let done = clock.fetch_add(1, Ordering::SeqCst);
                    evs.push(TEvent { stamp: id, id, now, inv: Some(op), res: None });
                    evs.push(TEvent { stamp: done, id, now, inv: None, res: Some(r) });
                    tokio::task::yield_now().await;
                }
                evs
            }));
        }
        for h in handles {
            events.extend(h.await.expect("timed client"));
        }
    }
    events.sort_by_key(|e| e.stamp);
    judge_timed(out, events, case.n, &case.label, clients);
}

/// hand one stamped TIMED history (every invocation carries the virtual time it was made at) to the
/// verified timed checker and to the independent one
fn judge_timed(out: &mut Out, events: Vec<TEvent>, n: usize, label: &str, clients: usize) {
    out.op("NEW".into(), "ok".into());
    let mut text = Vec::new();
    for e in &events {
        let l = match (&e.inv, &e.res) {
            (Some(op), _) => {
                out.count(&format!("timed-op:{}", op.name));
                format!("I {} T {} {}", e.id, e.now, timed_line(op))
            }
            (_, Some(r)) => format!("RT {} {}", e.id, r),
            _ => unreachable!(),
        };
        text.push(l.clone());
        out.op(l, "ok".into());
    }
    // independent oracle, per key
    let mut pk: BTreeMap<Vec<u8>, Vec<TKOp>> = BTreeMap::new();
    let mut at: BTreeMap<u64, (Vec<u8>, usize)> = BTreeMap::new();
    for (pos, e) in events.iter().enumerate() {
        if let Some(op) = &e.inv {
            let v = pk.entry(op.keys[0].clone()).or_default();
            v.push(TKOp { op: op.clone(), now: e.now, inv: pos, res: None });
            at.insert(e.id, (op.keys[0].clone(), v.len() - 1));
        } else if let Some(r) = &e.res {
            let (k, i) = at.get(&e.id).unwrap().clone();
            pk.get_mut(&k).unwrap()[i].res = Some((pos, r.clone()));
        }
    }
    let bad: Vec<String> = pk.iter().filter(|(_, ops)| !linearizable_timed(ops)).map(|(k, _)| String::from_utf8_lossy(k).to_string()).collect();
    let lin = bad.is_empty();
    out.op("CHECK".into(), if lin { "lin".into() } else { "not-lin".into() });
    out.count("class:timed");
    out.count(&format!("timed:{}", label));
    out.count(&format!("shards:{}", n));
    out.count(if lin { "verdict:lin" } else { "verdict:not-lin" });
    if !lin {
        out.violation(
            &format!("C02:not-linearizable:timed:shards={}", n),
            &format!("{} shards, {}: with deadlines and the clock advanced between phases, the history of key(s) {} admits no linearization (an operation invoked at virtual time t sees a key iff t < its deadline)", n, label, bad.join(",")),
            json!({"shards": n, "class": "timed", "pattern": label, "history": text}),
        );
    }
    out.case(&text.join(";"), true);
    out.sample(json!({"shards": n, "class": "timed", "clients": clients, "history": text.iter().take(16).collect::<Vec<_>>()}));
}

fn out_count_path(_op: &Op) {}

pub fn run(a: &Args) {
    let mut out = Out::new(&a.out);
    let mut rng = Rng::new(a.seed);
    let rt = tokio::runtime::Builder::new_multi_thread().worker_threads(4).enable_all().build().unwrap();
    // which routing does the tree have?  (same observation as C03)
    let fixed = rt.block_on(async {
        let st = new_state(4);
        let mut all_hit = true;
        for k in pool() {
            apply(&st, &Op::kv("FSET", &k, b"x")).await;
            all_hit &= apply(&st, &Op::new("EXISTS", vec![k.clone()], vec![])).await == "i:1";
        }
        crate::c03::init_get_script_sha().await;
        all_hit
    });
    out.extra.insert("hash_key_delegates_to_hash_key_bytes".into(), json!(fixed));
    // enumerated schedules FIRST (a current-thread runtime, request futures polled by hand, every wait bounded):
    // whatever makes a sampled case hang below has been looked for deterministically before
    sched::run(&mut out, fixed, &mut Rng::new(a.seed ^ 0x5C4ED), a.n > 50_000);
    sched::run_timed(&mut out, a.n > 50_000);
    rt.block_on(async {
        // every case is bounded: a case that does not finish is reported and the run goes on
        macro_rules! guarded {
            ($label:expr, $fut:expr) => {
                if tokio::time::timeout(std::time::Duration::from_secs(120), $fut).await.is_err() {
                    out.violation(&format!("C02:request-never-answered:{}", $label), &format!("the {} case did not finish within 120 s: at least one request was never answered", $label), json!({"case": $label}));
                }
            };
        }
        run_case(&mut out, corpus(fixed), fixed).await;
        for c in corpus_batch() {
            run_case(&mut out, c, fixed).await;
        }
        for c in corpus_scripts() {
            run_case(&mut out, c, fixed).await;
        }
        // time: deadlines and a hand-driven clock
        for c in timed_corpus() {
            guarded!("timed", run_timed_case(&mut out, c));
        }
        // multi-call scripts on two keys of one shard: the whole script is one atomic step
        guarded!("transfer", transfer_case(&mut out, &mut Rng::new(0x5C21), fixed, true));
        // through the REAL connection handler (fast path, batch collectors, generic path): six fixed plans
        for i in 0..6usize {
            guarded!("conn", conn::conn_case(&mut out, &mut Rng::new(0xC0AA + i as u64), fixed, Some(i)));
        }
        // the script cache (node-global) across SCRIPT FLUSH, every shard
        for i in 0..3usize {
            guarded!("script-cache", conn::script_cache_case(&mut out, &mut Rng::new(0x5CF + i as u64), fixed, Some(i)));
        }
        // cancellations: the fixed case first, then a few random ones
        guarded!("cancel", cancel_case(&mut out, &mut Rng::new(0xC02), fixed, true));
        for i in 0..a.n {
            let mut r = rng.fork();
            let c = random_case(&mut r, fixed);
            run_case(&mut out, c, fixed).await;
            if i % 2000 == 999 {
                guarded!("cancel", cancel_case(&mut out, &mut r, fixed, false));
            }
            if i % 400 == 7 {
                guarded!("transfer", transfer_case(&mut out, &mut r, fixed, false));
            }
            if i % 10 == 1 {
                guarded!("conn", conn::conn_case(&mut out, &mut r, fixed, None));
            }
            if i % 14 == 5 {
                guarded!("script-cache", conn::script_cache_case(&mut out, &mut r, fixed, None));
            }
            if i % 8 == 3 {
                let c = timed_random(&mut r);
                guarded!("timed", run_timed_case(&mut out, c));
            }
        }
    });
    drop(rt);
    out.extra.insert("audit".into(), serde_json::from_str(r####"{
 "1 entry paths": "CLOSED: every ShardMessage kind that carries a client request is in the concurrent mix (generic incl. EVAL/EVALSHA, fast, pooled, batch get/set) — see C03 api_coverage; EvictExpired is not a client operation (no history event); session 4: the entry path is a quantifier of the M7-level theorem (linearizable_node_entry_paths: ReqV.via cls now c for every frame class of Shards.dispatch); round 2: the paths are driven through the REAL connection handler (hook H1; classes conn / conn-order: 2..4 concurrent connections, pipelines below / at / above batch_threshold and min_pipeline_buffer, long SET runs, mixed runs, P = 1) since fix de38a13 made the fast path and the batch collectors live",
 "2 input alphabet": "CLOSED: keys from C03's structured alphabet; values incl. integers / non-integers for INCR; OPEN: only string commands in histories (other types: C01)",
 "3 comparisons at equality": "CLOSED: reads invoked just before / at / just past / far past a deadline",
 "4 configuration": "CLOSED: 1,2,4,8,16 shards; response pool capacity 1..256 / prewarm 0..capacity in the cancellation histories; 2..8 clients",
 "5 capacity thresholds": "CLOSED: more pooled acquisitions than the pool holds, during and after a stall; pool of capacity 1",
 "6 fault kinds": "CLOSED: request futures dropped while queued (the only await point of the pooled / oneshot paths is the response wait; send is synchronous); OPEN: shard actor panic / channel closure ('ERR shard unavailable') not injected",
 "7 history shapes": "CLOSED: overlapping ops on one key, sequential corpora per path pair, batched calls, generic fan-outs racing single-key ops, abandoned (pending) operations, timed phases; CLOSED (session 4): the clock advancing WHILE requests are in flight — timed enumerated schedules (c02sched.rs run_timed: three requests invoked at deadline-5 / deadline / deadline+5 in every interleaving, pooled / generic / batched / fast reads and a write, optionally the clock running far past the deadline while everything is still queued: the stamp of a message, not the time the shard gets to it, decides what it sees); OPEN: inverted stamps inside one mailbox (a client that reads the clock, is descheduled, and enqueues after a later-stamped request) cannot be produced through the public entry points on one thread",
 "8 node-global state": "CLOSED: script introduced by EVAL on one shard, EVALSHA elsewhere; round 2: the script cache ACROSS SCRIPT FLUSH as a register per script (class script-cache: every shard uses a script by EVALSHA / EVAL before a flush and again after it; concurrent EVAL / LOAD / EVALSHA / EXISTS phases, lone flushes); multi-call scripts (session 3): XINCR = GET/+1/SET script judged as an increment in the counter histories, two-key transfer/sum scripts racing plain commands (oracle C02:script-not-atomic:transfer); model: Redis.Prog / linearizable_m7_single_store",
 "9 observations": "CLOSED: every reply (verified WGL + Rust checker), direct reply-matches-request oracle in cancellation histories; fan-outs: every ITEM of MGET/MSET is a single-key op inside the call's interval, every key of multi-key DEL / FLUSHALL is a delete without observable reply (pending op); OPEN: DBSIZE / KEYS / SCAN / RANDOMKEY replies under concurrency are NOT judged (no atomic-snapshot claim is made for fan-outs: C02 is per key)",
 "10 finding absorption": "no listed finding for C02",
 "11 harness fragility": "CLOSED: verified checker made just-in-time (no exponential blow-up on non-linearizable histories); CLOSED (session 4): no wait is unbounded — a sampled case whose clients have not all finished after 45 s (a lost wake-up: found by self-test N2, a pooled slot released before the reply is awaited, which made the harness hang) is reported as C02:request-never-answered with the clients' programs and the run goes on; the enumerated schedules run FIRST and bound every poll; CLOSED (session 4): ENUMERATED schedules (c02sched.rs) — on a current-thread runtime the request futures are polled by hand, Invoke / Run / Take / Drop = the steps of Model/Actors; all 90 interleavings of 3 operations x at most one abandoned request (before / after the shard ran) x lazy / eager runs for 8 templates over pooled / fast / generic / batch / script paths, pool capacity 1 and 2, on every run (deterministic); OPEN: the multi-thread histories (more clients, longer programs) remain sampled; the enumeration covers 3 (thorough: 4) operations"
}"####).unwrap());
    out.finish("case = one concurrent history: 2..8 client tasks (multi-thread tokio runtime, seeded random yields) issue 6..12 single-key string commands per key over 1..3 keys through execute (plain commands and the same commands as Lua scripts via EVAL and via SCRIPT LOAD + EVALSHA) / fast_* / pooled_fast_* / fast_batch_get_pipeline / fast_batch_set_pipeline (batches of 1..4 keys, every item one single-key operation with the call's interval) of a real ShardedActorState with 1, 2, 4, 8 or 16 shards; invocation/response stamped by a global atomic counter. Schedules are SAMPLED (the seed fixes programs and yield patterns, not the interleaving). plus ENUMERATED schedules (class sched: 3-operation templates, every interleaving of invocations and completions x at most one abandoned request x lazy / eager shard runs, request futures polled by hand on a current-thread runtime; 4-operation templates sampled, enumerated in the thorough tier). plus TIMED histories (a key gets a PX / EX deadline; the simulated clock is advanced by hand between phases to just before / at / just past / far past it, with no traffic, traffic to another shard or traffic to the key's own shard in between; then 2..4 clients read the key concurrently through generic GET/EXISTS/MGET, fast, pooled, batched and script (EVAL, EVALSHA) paths, optionally racing a writer; both checkers use a sequential specification with a clock: an operation invoked at virtual time t sees a key iff t < deadline; pattern distribution under timed:*); plus CONNECTION histories (class conn / conn-order: 2..4 client tasks, each on its own in-memory duplex connection through the real OptimizedConnectionHandler — hook H1 — to one shared ShardedActorState under a generated batching configuration; rounds = pipelines of plain GET / SET runs around batch_threshold, long SET runs, single frames, mixed commands; shared keys judged with real-time stamps, private keys as sequential histories in send order) plus SCRIPT-CACHE histories (class script-cache: one register per script, EVAL / LOAD = write 1, SCRIPT FLUSH = write 0, EVALSHA / EXISTS = read; keys on every shard) plus cancellation histories (a slow script keeps one shard busy, pooled requests to it are abandoned by a timeout while queued and stay pending, then 4..8 single-writer clients run > pool-size pooled SET/GET rounds during and after the stall; every reply is also checked directly against its request). distinct by the stamped history text; non-trivial iff two operations on one key overlap in real time and the key is written, or an operation was abandoned");
}
