//! C20 — the BUGGIFY layer (`src/buggify/{mod,config,faults}.rs`) driven op by op (session 4):
//! `FaultConfig` (presets, `set`, builders, `with_multiplier`, `get`, `should_trigger`), the
//! thread-local context (`set_config`, `BuggifySuppressor`, `reset_stats`, `get_stats`), the two
//! decision functions and the convenience macros.  The Lean model (`Model/SimBuggify.lean`) answers
//! every op from its own state: the probability a decision uses is computed by the MODEL's
//! `FaultConfig::get` (exact f64 product on bit patterns) — it is no longer an input taken from the
//! real code.  The fault catalogue and the preset tables of the model are generated from the source
//! (`tools/gen_c20_faults.py`); op `FC` compares them with the real objects on every run.
use crate::rng::Rng;
use redis_sim::buggify::{self, FaultConfig, ALL_FAULTS};
#[path = "c20_faults_gen.rs"]
mod faults_gen;
use faults_gen::MODEL_FAULTS;
use redis_sim::io::simulation::SimulatedRng;

/// ids that are not in the catalogue (codes 1000 …): a fault nobody configured, test ids
pub const EXTRA_IDS: [&str; 4] = ["test.always", "test.never", "custom.fault", "streaming.flush_delay"];
const HERE_CODE: u64 = 2000;

pub struct BugState {
    cfg: FaultConfig,
    guard: Option<buggify::BuggifySuppressor>,
    /// the id `buggify_here!` generated in this process (file:line of the macro call below)
    here_id: Option<String>,
}

/// fault codes are indices into the catalogue the MODEL was generated with: a fault id added to
/// /repo's `ALL_FAULTS` (which no preset configures and nobody consults) changes nothing here
fn id_of(code: u64) -> &'static str {
    if (code as usize) < MODEL_FAULTS.len() {
        MODEL_FAULTS[code as usize]
    } else {
        EXTRA_IDS[(code as usize - 1000) % EXTRA_IDS.len()]
    }
}

/// bits of an f64 with every NaN printed as the canonical quiet NaN (sign / payload of a NaN are platform
/// matters — x86 yields the negative quiet NaN for `0 * inf` — and no decision looks at them)
fn bits(p: f64) -> u64 {
    if p.is_nan() { 0x7FF8000000000000 } else { p.to_bits() }
}

/// the counter of one fault id, whatever map type the statistics keep their counters in
pub fn count_of<'a, M>(m: &'a M, id: &str) -> u64
where
    &'a M: IntoIterator<Item = (&'a String, &'a u64)>,
{
    m.into_iter().find(|(k, _)| k.as_str() == id).map(|(_, n)| *n).unwrap_or(0)
}

fn tf(b: bool) -> String {
    if b { "t".into() } else { "f".into() }
}

impl BugState {
    pub fn new() -> Self {
        BugState { cfg: FaultConfig::new(), guard: None, here_id: None }
    }

    fn code_of(&self, id: &str) -> String {
        if let Some(i) = MODEL_FAULTS.iter().position(|x| *x == id) {
            return i.to_string();
        }
        if let Some(i) = EXTRA_IDS.iter().position(|x| *x == id) {
            return (1000 + i).to_string();
        }
        if self.here_id.as_deref() == Some(id) {
            return HERE_CODE.to_string();
        }
        format!("?{}", id)
    }

    fn dump_map<'a, M>(&self, m: &'a M) -> String
    where
        &'a M: IntoIterator<Item = (&'a String, &'a u64)>,
    {
        let mut v: Vec<(u64, String)> = m.into_iter().map(|(k, n)| {
            let c = self.code_of(k);
            (c.parse::<u64>().unwrap_or(u64::MAX), format!("{}:{}", c, n))
        }).collect();
        v.sort();
        v.into_iter().map(|x| x.1).collect::<Vec<_>>().join(",")
    }

    /// one `F…` op on the REAL code; `None` = not an op of this module
    pub fn exec(&mut self, t: &[&str], rng: Option<&mut SimulatedRng>, complaints: &mut Vec<(String, String)>) -> Option<String> {
        let n = |i: usize| -> u64 { t[i].parse::<u64>().unwrap() };
        Some(match t[0] {
            "FC" => {
                self.cfg = match t[1] {
                    "new" => FaultConfig::new(),
                    "disabled" => FaultConfig::disabled(),
                    "calm" => FaultConfig::calm(),
                    "moderate" => FaultConfig::moderate(),
                    "default" => FaultConfig::default(),
                    "chaos" => FaultConfig::chaos(),
                    _ => return Some("bad-op".into()),
                };
                // the real object, canonically: enabled, multiplier, the whole table by code (an id the model's
                // catalogue does not know prints as `?name`)
                let mut v: Vec<(u64, String)> = self.cfg.probabilities.iter().map(|(k, p)| {
                    let c = self.code_of(k);
                    (c.parse::<u64>().unwrap_or(u64::MAX), format!("{}:{}", c, bits(*p)))
                }).collect();
                v.sort();
                format!("en={} mult={} probs={}", self.cfg.enabled as u8, bits(self.cfg.global_multiplier), v.into_iter().map(|x| x.1).collect::<Vec<_>>().join(","))
            }
            "FSET" => {
                self.cfg.set(id_of(n(1)), f64::from_bits(n(2)));
                "ok".into()
            }
            "FWITH" => {
                let c = std::mem::replace(&mut self.cfg, FaultConfig::new());
                self.cfg = match n(1) {
                    0 => c.with_network_faults(),
                    1 => c.with_timer_faults(),
                    _ => c.with_process_faults(),
                };
                "ok".into()
            }
            "FMULT" => {
                let c = std::mem::replace(&mut self.cfg, FaultConfig::new());
                self.cfg = c.with_multiplier(f64::from_bits(n(1)));
                bits(self.cfg.global_multiplier).to_string()
            }
            "FEN" => {
                self.cfg.enabled = n(1) == 1;
                "ok".into()
            }
            "FGET" => {
                let p = self.cfg.get(id_of(n(1)));
                if !(p.is_nan() || (0.0..=1.0).contains(&p)) {
                    complaints.push(("C20:buggify:probability-out-of-range".into(), format!("{} -> {}", t.join(" "), p)));
                }
                bits(p).to_string()
            }
            "FTRIG" => tf(self.cfg.should_trigger(id_of(n(1)), f64::from_bits(n(2)))),
            "FINSTALL" => {
                buggify::set_config(self.cfg.clone());
                "ok".into()
            }
            "FSUP" => {
                if n(1) == 1 {
                    if self.guard.is_none() {
                        self.guard = Some(buggify::BuggifySuppressor::new());
                    }
                } else {
                    self.guard = None;
                }
                "ok".into()
            }
            "FRESET" => {
                buggify::reset_stats();
                "ok".into()
            }
            "FSB" | "FSBP" | "FMAC" | "FHERE" => {
                let r = match rng { Some(r) => r, None => return Some("bad-op".into()) };
                let before = buggify::get_stats();
                let (id, res): (String, bool) = match t[0] {
                    "FSB" => (id_of(n(1)).to_string(), buggify::should_buggify(r, id_of(n(1)))),
                    "FSBP" => (id_of(n(1)).to_string(), buggify::should_buggify_with_prob(r, id_of(n(1)), f64::from_bits(n(2)))),
                    "FMAC" => {
                        let id = id_of(n(2));
                        (id.to_string(), match n(1) {
                            0 => redis_sim::buggify_rarely!(r, id),
                            1 => redis_sim::buggify_sometimes!(r, id),
                            2 => redis_sim::buggify_often!(r, id),
                            3 => redis_sim::buggify!(r, id),
                            _ => redis_sim::buggify!(r, id, 0.5),
                        })
                    }
                    _ => {
                        // `buggify_here!`: the id is file:line of THIS call
                        let res = redis_sim::buggify_here!(r, f64::from_bits(n(1)));
                        let after = buggify::get_stats();
                        let new_id = after.checks.iter().find(|(k, v)| before.checks.get(*k).copied().unwrap_or(0) != **v).map(|(k, _)| k.clone()).unwrap_or_default();
                        if !new_id.contains("c20_bug.rs:") {
                            complaints.push(("C20:buggify:here-id-not-file-line".into(), format!("buggify_here! recorded its check under {:?}", new_id)));
                        }
                        self.here_id = Some(new_id.clone());
                        (new_id, res)
                    }
                };
                let after = buggify::get_stats();
                if count_of(&after.checks, &id) != count_of(&before.checks, &id) + 1 || count_of(&after.triggers, &id) != count_of(&before.triggers, &id) + res as u64 {
                    complaints.push(("C20:buggify:stats-inconsistent".into(), t.join(" ")));
                }
                tf(res)
            }
            "FSTATS" => {
                let s = buggify::get_stats();
                format!("checks {} triggers {}", self.dump_map(&s.checks), self.dump_map(&s.triggers))
            }
            _ => return None,
        })
    }
}

/// probabilities: the literals of the catalogue, boundaries, out-of-range values (`set` clamps them)
fn prob(r: &mut Rng) -> u64 {
    const LIT: [f64; 16] = [0.0, 0.0001, 0.0005, 0.001, 0.002, 0.005, 0.01, 0.02, 0.05, 0.1, 0.15, 0.2, 0.5, 0.999999, 1.0, 0.3333333333333333];
    match r.below(10) {
        0..=5 => r.pick(&LIT).to_bits(),
        6 => *r.pick(&[f64::NAN.to_bits(), f64::INFINITY.to_bits(), f64::NEG_INFINITY.to_bits(), (-0.0f64).to_bits(), (-0.25f64).to_bits(), 1.5f64.to_bits(), 5e-324f64.to_bits(), f64::MIN_POSITIVE.to_bits(), 1e-310f64.to_bits(), (1.0 - f64::EPSILON / 2.0).to_bits()]),
        7 => (r.below(1_000_001) as f64 / 1_000_000.0).to_bits(),
        8 => f64::from_bits(r.next() >> 2).to_bits() & !(1 << 63),
        _ => (r.below(1 << 20) as f64 / (1u64 << 20) as f64).to_bits(),
    }
}

/// multipliers: the presets', boundaries, tiny / huge (the product underflows to a subnormal / clamps to 1)
fn mult(r: &mut Rng) -> u64 {
    match r.below(8) {
        0..=3 => r.pick(&[0.1f64, 1.0, 3.0, 0.5, 2.0, 0.0, 10.0, 1e6]).to_bits(),
        4 => *r.pick(&[f64::NAN.to_bits(), f64::INFINITY.to_bits(), (-1.0f64).to_bits(), 5e-324f64.to_bits(), 1e-300f64.to_bits(), 1e300f64.to_bits(), f64::MAX.to_bits()]),
        5 => (r.below(4000) as f64 / 1000.0).to_bits(),
        _ => f64::from_bits(0x3000000000000000 + (r.next() >> 4)).to_bits(),
    }
}

fn fault_code(r: &mut Rng) -> u64 {
    match r.below(10) {
        0..=6 => r.below(MODEL_FAULTS.len() as u64),
        7 => *r.pick(&[0u64, 6, 14, 25, 39]),
        _ => 1000 + r.below(EXTRA_IDS.len() as u64),
    }
}

/// one script over the BUGGIFY layer
pub fn gen_script(r: &mut Rng, seed: u64) -> Vec<String> {
    let mut s: Vec<String> = Vec::new();
    s.push(format!("RNG sim {}", seed));
    let preset = *r.pick(&["new", "disabled", "calm", "moderate", "chaos", "default", "moderate", "chaos"]);
    s.push(format!("FC {}", preset));
    s.push("FSUP 0".into());
    s.push("FINSTALL".into());
    s.push("FRESET".into());
    if r.chance(1, 3) {
        // comparison at equality: the first draws of this seed are computed on a throw-away generator, and the
        // probability is set to exactly draw / 10^6 (the decision is `draw / 10^6 < p`: false at equality),
        // one step above (true) and, for should_trigger, to the value compared with
        use redis_sim::io::Rng as _;
        let mut probe = SimulatedRng::new(seed);
        let v1 = probe.gen_range(0, 1_000_000);
        let v2 = probe.gen_range(0, 1_000_000);
        let v3 = probe.gen_range(0, 1_000_000);
        let at = |v: u64| (v as f64 / 1_000_000.0).to_bits();
        s.push("FC new".into());
        s.push(format!("FSET 3 {}", at(v1)));
        s.push(format!("FSET 4 {}", at(v2 + 1)));
        s.push("FINSTALL".into());
        s.push("FSB 3".into());
        s.push("FSB 4".into());
        s.push(format!("FSBP 5 {}", at(v3 + r.below(2))));
        s.push(format!("FTRIG 3 {}", at(v1)));
        s.push(format!("FTRIG 4 {}", at(v2)));
        s.push(format!("FC {}", preset));
        s.push("FINSTALL".into());
    }
    if r.chance(1, 4) {
        // the whole catalogue under this preset: every `get`
        for c in 0..MODEL_FAULTS.len() as u64 {
            s.push(format!("FGET {}", c));
        }
    }
    // faults given a sizeable probability in this script: decisions about them trigger often enough
    let mut hot: Vec<u64> = Vec::new();
    const BIG: [f64; 6] = [0.2, 0.35, 0.5, 0.75, 0.999999, 1.0];
    for _ in 0..(10 + r.below(60)) {
        let edit = match r.below(20) {
            0 | 1 => {
                let c = fault_code(r);
                let p = if r.chance(1, 2) { hot.push(c); r.pick(&BIG).to_bits() } else { prob(r) };
                s.push(format!("FSET {} {}", c, p));
                true
            }
            2 => { s.push(format!("FWITH {}", r.below(3))); true }
            3 => { s.push(format!("FMULT {}", mult(r))); true }
            4 => { s.push(format!("FEN {}", r.chance(3, 4) as u8)); true }
            5 | 6 => { s.push(format!("FGET {}", fault_code(r))); false }
            7 => { s.push(format!("FTRIG {} {}", fault_code(r), prob(r))); false }
            8 => { s.push("FINSTALL".into()); false }
            9 => { s.push(format!("FSUP {}", r.chance(1, 3) as u8)); false }
            10 => { s.push(if r.chance(1, 3) { "FRESET".to_string() } else { "FSTATS".to_string() }); false }
            11..=14 => {
                let c = if !hot.is_empty() && r.chance(2, 3) { *r.pick(&hot) } else { fault_code(r) };
                s.push(format!("FSB {}", c));
                false
            }
            15 | 16 => { s.push(format!("FSBP {} {}", fault_code(r), if r.chance(1, 2) { r.pick(&BIG).to_bits() } else { prob(r) })); false }
            17 => { s.push(format!("FMAC {} {}", r.below(5), if !hot.is_empty() && r.chance(1, 2) { *r.pick(&hot) } else { fault_code(r) })); false }
            18 => { s.push(format!("FHERE {}", if r.chance(1, 2) { r.pick(&BIG).to_bits() } else { prob(r) })); false }
            _ => { s.push(format!("FC {}", r.pick(&["calm", "moderate", "chaos", "new", "disabled"]))); hot.clear(); true }
        };
        // an edited configuration reaches the decisions only once it is installed
        if edit && r.chance(3, 5) {
            s.push("FINSTALL".into());
        }
    }
    s.push("FSTATS".into());
    s.push("U64".into());
    s.push("FSUP 0".into());
    s
}

/// catalogue drift, for the evidence (never a violation by itself): ids of /repo's `ALL_FAULTS` the
/// model's catalogue does not have, and ids of the model's catalogue that /repo no longer has
pub fn catalogue_drift() -> (Vec<String>, Vec<String>) {
    let new_ids = ALL_FAULTS.iter().filter(|x| !MODEL_FAULTS.contains(x)).map(|x| x.to_string()).collect();
    let gone = MODEL_FAULTS.iter().filter(|x| !ALL_FAULTS.contains(x)).map(|x| x.to_string()).collect();
    (new_ids, gone)
}
