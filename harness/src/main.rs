//! rvharness — correspondence harness: drives the REAL redis-rust code in-process, writes the
//! op lines for the Lean model driver and the implementation's canonical answers, and
//! evaluates each property directly on the implementation (failing-input search).
mod c05;
mod c05m7;
mod c05x;
mod c06;
mod c06msg;
mod c06sim;
mod c07;
mod c08;
mod c08boot;
mod modtree;
mod boundary;
mod c01;
mod c17;
mod alloc;
mod c04;
mod c15;
mod api;
mod c03;
mod c03m7;
mod c03srv;
mod routes;
mod route_table;
mod routes_gen;
mod c02;
mod c11;
mod c11x;
mod c12;
mod c12x;
mod c12j;
mod c12fs;
mod c13;
mod c13x;
mod stream_api;
mod c09;
mod c10;
mod c14;
mod c18;
mod c19;
mod srcscan;
mod c16;
mod c20;
mod c20_more;
mod c20_mn;
mod c20_bug;
mod c20_src;
mod datax;
mod enc;
mod walcov;
mod out;
mod redisx;
mod rng;

use std::path::PathBuf;

/// Which variant of the WAL / segment code /repo currently has.  The harness sends these to the
/// model drivers (ops `G`, `V`), so they are the ONE place to edit when /repo changes variant.
pub mod cfg {
    /// WalRotator: true = rotate() fsyncs the writer it drops, a lost writer fails the next sync()
    pub const CODE_SYNCS_BEFORE_DROP: bool = true;
    /// WalActor (Always mode): true = a SyncTick calls rotator.sync(); false = SyncTick is a no-op
    pub const CODE_TICK_SYNCS: bool = false;
    /// WalRotator::new + rotate: true = a restarted rotator re-creates the highest existing file name
    pub const CODE_RESTART_REUSES_SEQ: bool = false;
    /// WAL on-disk format: 2 = entry checksum over len|timestamp|data, empty entry rejected
    pub const CODE_WAL_FORMAT: u8 = redis_sim::streaming::wal::WAL_VERSION;
    /// CrashSimulator::crashed_nodes / recovering_nodes: true = sorted by node id (3012c3c),
    /// false = HashMap iteration order (the pinned code); sent to the C20 model with every `RUN dst`
    pub const CODE_DST_SORTS_NODES: bool = true;
    /// SimulatedNode::get_all_deltas: true = sorted by key (fixes-sim-s3 e148545), false = HashMap
    /// iteration order (the code as it is); sent to the C20 model with every `DELTAS` line
    pub const CODE_MN_SORTS_DELTAS: bool = true;
    /// DSTSimulation::with_config: true = resets the thread's BUGGIFY statistics (fixes-sim-s3), false = the
    /// statistics copied into SimulationResult are cumulative over every run on the thread (the code as it is)
    pub const CODE_DST_RESETS_STATS: bool = true;
    /// segment DeltaIterator: true = error when fewer records than record_count are present
    pub const CODE_SEGMENT_STRICT_COUNT: bool = true;

    /// the entry checksum of the current format (private `entry_checksum` in /repo)
    pub fn entry_checksum(ts: u64, data: &[u8]) -> u32 {
        if CODE_WAL_FORMAT == 1 {
            crc32fast::hash(data)
        } else {
            let mut h = crc32fast::Hasher::new();
            h.update(&(data.len() as u32).to_le_bytes());
            h.update(&ts.to_le_bytes());
            h.update(data);
            h.finalize()
        }
    }
}

#[global_allocator]
static GLOBAL: alloc::Counting = alloc::Counting;

/// the property being checked (for case signatures raised by shared helpers)
pub static PROP: std::sync::OnceLock<String> = std::sync::OnceLock::new();

pub struct Args {
    pub seed: u64,
    pub n: u64,
    pub out: PathBuf,
    pub tier: String,
    pub replay: Option<PathBuf>,
}

fn main() {
    let argv: Vec<String> = std::env::args().collect();
    if argv.len() < 2 {
        eprintln!("usage: rvharness <Cxx> [--seed S] [--n N] [--out DIR] [--tier quick|thorough] [--replay FILE]");
        std::process::exit(2);
    }
    if argv[1] == "--c15-child" {
        c15::child(&argv[2..]);
        return;
    }
    if argv[1] == "--c20-child" {
        c20::child(&argv[2..]);
        return;
    }
    let prop = argv[1].to_uppercase();
    let _ = PROP.set(prop.clone());
    let mut a = Args {
        seed: 1,
        n: 1000,
        out: PathBuf::from("."),
        tier: "quick".into(),
        replay: None,
    };
    let mut i = 2;
    while i < argv.len() {
        let v = argv.get(i + 1).cloned().unwrap_or_default();
        match argv[i].as_str() {
            "--seed" => a.seed = v.parse().expect("seed"),
            "--n" => a.n = v.parse().expect("n"),
            "--out" => a.out = PathBuf::from(v),
            "--tier" => a.tier = v,
            "--replay" => a.replay = Some(PathBuf::from(v)),
            x => {
                eprintln!("unknown arg {}", x);
                std::process::exit(2);
            }
        }
        i += 2;
    }
    // the real code logs through `tracing`; keep stdout/stderr quiet
    match prop.as_str() {
        "C05" => c05::run(&a),
        "C06" => c06::run(&a),
        "C07" => c07::run(&a),
        "C08" => c08::run(&a),
        "C01" => c01::run(&a),
        "C17" => c17::run(&a),
        "C15" => c15::run(&a),
        "C04" => c04::run(&a),
        "C03" => c03::run(&a),
        "C02" => c02::run(&a),
        "C11" => c11::run(&a),
        "C12" => c12::run(&a),
        "C13" => c13::run(&a),
        "C09" => c09::run(&a),
        "C10" => c10::run(&a),
        "C14" => c14::run(&a),
        "C18" => c18::run(&a),
        "C19" => c19::run(&a),
        "C16" => c16::run(&a),
        "C20" => c20::run(&a),
        _ => {
            eprintln!("no harness for {}", prop);
            std::process::exit(2);
        }
    }
}
