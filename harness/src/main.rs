//! rvharness — correspondence harness: drives the REAL redis-rust code in-process, writes the
//! op lines for the Lean model driver and the implementation's canonical answers, and
//! evaluates each property directly on the implementation (failing-input search).
mod c06;
mod c07;
mod c08;
mod c16;
mod enc;
mod out;
mod rng;

use std::path::PathBuf;

pub struct Args {
    pub seed: u64,
    pub n: u64,
    pub out: PathBuf,
    pub tier: String,
    pub replay: Option<PathBuf>,
}

fn main() {
    let argv: Vec<String> = std::env::args().collect();
    if argv.len() < 2 {
        eprintln!("usage: rvharness <Cxx> [--seed S] [--n N] [--out DIR] [--tier quick|thorough] [--replay FILE]");
        std::process::exit(2);
    }
    let prop = argv[1].to_uppercase();
    let mut a = Args {
        seed: 1,
        n: 1000,
        out: PathBuf::from("."),
        tier: "quick".into(),
        replay: None,
    };
    let mut i = 2;
    while i < argv.len() {
        let v = argv.get(i + 1).cloned().unwrap_or_default();
        match argv[i].as_str() {
            "--seed" => a.seed = v.parse().expect("seed"),
            "--n" => a.n = v.parse().expect("n"),
            "--out" => a.out = PathBuf::from(v),
            "--tier" => a.tier = v,
            "--replay" => a.replay = Some(PathBuf::from(v)),
            x => {
                eprintln!("unknown arg {}", x);
                std::process::exit(2);
            }
        }
        i += 2;
    }
    // the real code logs through `tracing`; keep stdout/stderr quiet
    match prop.as_str() {
        "C06" => c06::run(&a),
        "C07" => c07::run(&a),
        "C08" => c08::run(&a),
        "C16" => c16::run(&a),
        _ => {
            eprintln!("no harness for {}", prop);
            std::process::exit(2);
        }
    }
}
