//! C12 — the concrete `ObjectStore` implementations under the model's store (`Stream.World`).
//!
//! S1 — operation-level differential: the same generated sequence of put / get / exists / head /
//!      delete / rename / list on `InMemoryObjectStore`, `LocalFsObjectStore` (a scratch directory
//!      below the run's output directory, removed afterwards) and the harness `FaultStore`, each
//!      compared line by line with the model's `World.put/get/probe/head/delete/rename/list`.
//! S2 — what the crash-consistency theorems need from `put` (`localfs_put_crash_images`): every
//!      proper prefix of a real segment / checkpoint / manifest is rejected by its reader —
//!      checked EXHAUSTIVELY (every cut length) on the objects of a generated workload.
//! S3 — `LocalFsObjectStore::put` writes in place (`tokio::fs::write`): a crash inside it leaves a
//!      partial file under the FINAL name.  Every store-call boundary of a flush / compaction
//!      workload (and torn variants of every put, cut at 0 / 1 / half / len-1 bytes) is
//!      materialised as a directory and recovered by the real `RecoveryManager<LocalFsObjectStore>`;
//!      the result must equal the recovery of the same image on the in-memory store (that one is
//!      tied to the model by the CRASH lines of c12.rs) and satisfy the C12 oracle.
//! S4 — the production wiring on the local file system: `create_integration` (LocalFs) →
//!      `start_workers` → sink → shutdown, then `recover(&state)` of a second integration on a fresh
//!      `ReplicatedShardedState`: every update handed to the sink is served after the restart.
use crate::c11::{fold_real, show_upds, sorted_map, Upd, PREFIX};
use crate::c12::{lww_upd, recover_image, refs_complete, show_rec, wb_config, CCfg, FaultStore, Snapshot};
use crate::c12x::gen_wb_cfg;
use crate::out::Out;
use crate::rng::Rng;
use redis_sim::production::ReplicatedShardedState;
use redis_sim::replication::lattice::ReplicaId;
use redis_sim::replication::state::ReplicationDelta;
use redis_sim::replication::{ConsistencyLevel, ReplicationConfig};
use redis_sim::streaming::{
    create_integration, CheckpointReader, CheckpointWriter, Compression, InMemoryObjectStore, LocalFsObjectStore, Manifest,
    ObjectStore, ObjectStoreType, RecoveryManager, SegmentReader, SimulatedClock, StreamingConfig, StreamingPersistence,
};
use serde_json::json;
use std::collections::BTreeMap;
use std::path::{Path, PathBuf};
use std::sync::Arc;
use std::time::Duration;

fn name_of(code: u64) -> String {
    match code {
        0 => format!("{}/manifest.json", PREFIX),
        1 => format!("{}/manifest.json.tmp", PREFIX),
        n if n % 2 == 0 => crate::c11::seg_key((n - 2) / 2),
        n => crate::c11::chk_key((n - 3) / 2),
    }
}

fn code_of(key: &str) -> Option<u64> {
    (0..40u64).find(|c| name_of(*c) == key)
}

fn scratch(out: &Out, tag: &str) -> PathBuf {
    let d = out.dir.join(format!("fs-{}-{}", std::process::id(), tag));
    let _ = std::fs::remove_dir_all(&d);
    std::fs::create_dir_all(&d).expect("scratch directory below the run's output directory");
    d
}

fn io_err(e: &std::io::Error) -> &'static str {
    if e.kind() == std::io::ErrorKind::NotFound { "err notfound" } else { "err other" }
}

/// one store operation on one implementation; returns the canonical answer line
async fn store_op<S: ObjectStore>(st: &S, op: &str) -> String {
    let t: Vec<&str> = op.split(' ').collect();
    let n = |i: usize| name_of(t[i].parse().unwrap());
    match t[0] {
        "SPUT" => match st.put(&n(1), format!("obj-{}", t[2]).as_bytes()).await {
            Ok(()) => "ok".into(),
            Err(e) => io_err(&e).into(),
        },
        "SGET" => match st.get(&n(1)).await {
            Ok(d) => format!("ok {}", String::from_utf8_lossy(&d).trim_start_matches("obj-")),
            Err(e) => io_err(&e).into(),
        },
        "SEXISTS" => match st.exists(&n(1)).await {
            Ok(b) => (b as u8).to_string(),
            Err(_) => "err".into(),
        },
        "SHEAD" => match st.head(&n(1)).await {
            Ok(m) => {
                if m.key == n(1) { "ok".into() } else { format!("ok wrong-key {}", m.key) }
            }
            Err(e) => io_err(&e).into(),
        },
        "SDEL" => match st.delete(&n(1)).await {
            Ok(()) => "ok".into(),
            Err(_) => "err".into(),
        },
        "SREN" => match st.rename(&n(1), &n(2)).await {
            Ok(()) => "ok".into(),
            Err(e) => io_err(&e).into(),
        },
        "SLIST" => {
            let prefix = match t[1] {
                "seg" => format!("{}/segments/", PREFIX),
                "chk" => format!("{}/checkpoints/", PREFIX),
                "none" => "q/".to_string(),
                _ => format!("{}/", PREFIX),
            };
            match st.list(&prefix, None).await {
                Ok(l) => {
                    let mut codes: Vec<String> = Vec::new();
                    let mut cs: Vec<u64> = Vec::new();
                    for o in &l.objects {
                        match code_of(&o.key) {
                            Some(c) => cs.push(c),
                            None => codes.push(format!("?{}", o.key)),
                        }
                    }
                    cs.sort();
                    codes.extend(cs.iter().map(|c| c.to_string()));
                    format!("[{}]", codes.join(","))
                }
                Err(_) => "err".into(),
            }
        }
        _ => "bad-op".into(),
    }
}

fn gen_store_ops(rng: &mut Rng) -> Vec<String> {
    let names: [u64; 8] = [0, 1, 2, 4, 6, 3, 5, 9];
    let mut tag = 0u64;
    (0..rng.range(6, 22))
        .map(|_| {
            let a = *rng.pick(&names);
            match rng.below(14) {
                0..=3 => {
                    tag += 1;
                    format!("SPUT {} {}", a, tag)
                }
                4 | 5 => format!("SGET {}", a),
                6 => format!("SEXISTS {}", a),
                7 => format!("SHEAD {}", a),
                8 | 9 => format!("SDEL {}", a),
                10 | 11 => format!("SREN {} {}", a, rng.pick(&names)),
                _ => format!("SLIST {}", rng.pick(&["all", "seg", "chk", "none"])),
            }
        })
        .collect()
}

async fn store_differential(out: &mut Out, rng: &mut Rng) {
    let ops = gen_store_ops(rng);
    let dir = scratch(out, "ops");
    let mem = InMemoryObjectStore::new();
    let fs = LocalFsObjectStore::new(dir.clone());
    let fault = FaultStore::new(&[]);
    fault.inner.lock().unwrap().record = false;
    for which in 0..3 {
        out.op("SNEW".into(), "ok".into());
        for op in &ops {
            let a = match which {
                0 => store_op(&mem, op).await,
                1 => store_op(&fs, op).await,
                _ => store_op(&fault, op).await,
            };
            out.op(op.clone(), a);
        }
    }
    let _ = std::fs::remove_dir_all(&dir);
    out.count("fs:case:store-differential(InMemory,LocalFs,FaultStore vs model)");
    out.case(&format!("store:{}", ops.join(";")), ops.iter().any(|o| o.starts_with("SREN")));
}

// ---------------------------------------------------------------------------------------------
// S2 / S3
// ---------------------------------------------------------------------------------------------

fn write_image(dir: &Path, img: &BTreeMap<String, Vec<u8>>) {
    let _ = std::fs::remove_dir_all(dir);
    for (k, v) in img {
        let p = dir.join(k);
        if let Some(parent) = p.parent() {
            std::fs::create_dir_all(parent).expect("mkdir");
        }
        std::fs::write(&p, v).expect("write image file");
    }
    std::fs::create_dir_all(dir).expect("mkdir");
}

fn segment_accepts(d: &[u8]) -> bool {
    match SegmentReader::open(d) {
        Err(_) => false,
        Ok(r) => r.validate().is_ok() && r.read_all().is_ok(),
    }
}

fn checkpoint_accepts(d: &[u8]) -> bool {
    match CheckpointReader::open(d) {
        Err(_) => false,
        Ok(r) => r.validate().is_ok() && r.load().is_ok(),
    }
}

/// every proper prefix of the object must be rejected by the reader recovery uses
fn prefixes_rejected(out: &mut Out, what: &str, data: &[u8], accepts: &dyn Fn(&[u8]) -> bool) {
    if !accepts(data) {
        out.violation(&format!("C12:format:complete-object-rejected:{}", what), "a complete object written by the real writer is rejected by its reader", json!({"len": data.len()}));
        return;
    }
    for n in 0..data.len() {
        out.count_n(&format!("fs:prefix-checked:{}", what), 1);
        if accepts(&data[..n]) {
            out.violation(&format!("C12:format:proper-prefix-accepted:{}", what),
                "a PROPER PREFIX of an object is accepted by its reader: a crash inside an in-place put (LocalFsObjectStore) would leave a partial object that recovery takes for a complete one",
                json!({"object_len": data.len(), "prefix_len": n}));
            return;
        }
    }
}

async fn localfs_crash_images(out: &mut Out, rng: &mut Rng) {
    // a small workload on the snapshotting in-memory store: push / flush / compact
    let mut p = crate::c12::Proc::new(out, 1, &[]).await;
    let mut ups: Vec<Upd> = Vec::new();
    let mut t = rng.range(1, 30);
    let nflush = rng.range(2, 3);
    for _ in 0..nflush {
        for _ in 0..rng.range(1, 3) {
            t += rng.range(1, 3);
            let u = lww_upd(*rng.pick(&["k", "k2", "é", "t"]), format!("v{}", t).as_bytes(), t, 1, rng.chance(1, 6));
            p.push(out, &u);
            ups.push(u);
        }
        p.flush(out).await;
    }
    if rng.chance(1, 2) {
        let c = CCfg { target: 1 << 20, min: 2, maxper: 5, now: 0, ttl: Duration::ZERO };
        let _ = p.compact(out, &c).await;
    }
    let snaps: Vec<Snapshot> = p.store.inner.lock().unwrap().snapshots.clone();
    let dir = scratch(out, "img");
    let mut images: Vec<(String, BTreeMap<String, Vec<u8>>, u64)> = Vec::new();
    for (c, s) in snaps.iter().enumerate() {
        images.push((format!("crash@{} before `{}`", c, s.call), s.before.clone(), c as u64));
        if s.call.starts_with("put ") {
            // the put's data: the object as it is right after the call
            let key = s.call[4..].to_string();
            let full: Option<Vec<u8>> = snaps.get(c + 1).map(|n| n.before.clone()).unwrap_or_else(|| p.store.image()).get(&key).cloned();
            if let Some(full) = full {
                for cut in [0usize, 1, full.len() / 2, full.len().saturating_sub(1)] {
                    let mut img = s.before.clone();
                    img.insert(key.clone(), full[..cut.min(full.len())].to_vec());
                    images.push((format!("crash@{} inside `{}` after {} of {} bytes (in-place write)", c, s.call, cut, full.len()), img, c as u64));
                }
                if key.contains("/segments/") {
                    prefixes_rejected(out, "segment", &full, &segment_accepts);
                } else if key.ends_with(".tmp") {
                    prefixes_rejected(out, "manifest", &full, &|d| serde_json::from_slice::<Manifest>(d).is_ok());
                }
            }
        }
    }
    images.push(("final image".into(), p.store.image(), snaps.len() as u64));
    for (what, img, call) in &images {
        write_image(&dir, img);
        let fs = LocalFsObjectStore::new(dir.clone());
        let r_fs = RecoveryManager::new(fs, PREFIX, 1).recover().await;
        let r_mem = recover_image(img, 1).await;
        out.count("fs:crash-image-recovered-on-LocalFs");
        let (a, b) = (show_rec(&r_fs), show_rec(&r_mem));
        if a != b {
            out.violation("C12:localfs:recovery-differs-from-in-memory", "RecoveryManager on a LocalFsObjectStore directory returns something else than on the in-memory store holding the same objects",
                json!({"image": what, "localfs": a, "in_memory": b}));
        }
        // the C12 oracle on the LocalFs result
        let nack = p.acked_at.iter().filter(|(at, _)| *at <= *call).map(|(_, n)| *n).max().unwrap_or(0);
        match &r_fs {
            Err(e) => out.violation("C12:localfs:recovery-fails-on-crash-image", &format!("recover() on the LocalFs directory of a crash image fails: {}", e), json!({"image": what})),
            Ok(rs) => {
                let f = crate::c11::fold_recovered(rs);
                let lost: Vec<String> = p.acked[..nack].iter().filter(|(k, v)| match f.get(k) {
                    None => true,
                    Some(u) => crate::enc::MRv::from_real(&v.merge(u)) != crate::enc::MRv::from_real(u),
                }).map(|(k, _)| k.clone()).collect();
                if !lost.is_empty() && crate::c11::coherent(&ups) {
                    out.violation("C12:localfs:confirmed-update-lost", "an update of a flush that returned Ok is not recovered from the LocalFs directory of a crash image", json!({"image": what, "lost": lost}));
                }
            }
        }
        if !refs_complete(img) {
            out.violation("C12:localfs:manifest-references-incomplete-object", "the manifest of a crash image references a missing or partial object", json!({"image": what}));
        }
    }
    let _ = std::fs::remove_dir_all(&dir);
    out.count("fs:case:crash-images-on-LocalFs");
    out.case(&format!("fsimg:{}", p.text), true);
}

/// the same workload through `StreamingPersistence` on all three stores: identical results, and the
/// LocalFs directory recovers to the same state
async fn localfs_workload(out: &mut Out, rng: &mut Rng) {
    let dir = scratch(out, "wl");
    let fs = LocalFsObjectStore::new(dir.clone());
    let mem = InMemoryObjectStore::new();
    let mut pf = StreamingPersistence::with_clock(Arc::new(fs.clone()), PREFIX.to_string(), 1, wb_config(), SimulatedClock::new(0)).await.expect("LocalFs persistence");
    let mut pm = StreamingPersistence::with_clock(Arc::new(mem.clone()), PREFIX.to_string(), 1, wb_config(), SimulatedClock::new(0)).await.expect("InMemory persistence");
    let mut t = 5u64;
    let mut ups: Vec<Upd> = Vec::new();
    let mut text = String::new();
    for _ in 0..rng.range(2, 4) {
        for _ in 0..rng.range(1, 3) {
            t += 1;
            let u = lww_upd(*rng.pick(&["k", "k2", "é"]), format!("v{}", t).as_bytes(), t, 1, false);
            pf.push(ReplicationDelta::new(u.0.clone(), u.1.clone(), ReplicaId::new(1))).unwrap();
            pm.push(ReplicationDelta::new(u.0.clone(), u.1.clone(), ReplicaId::new(1))).unwrap();
            text.push_str(&format!("push {}@{};", u.0, t));
            ups.push(u);
        }
        let (a, b) = (pf.flush().await, pm.flush().await);
        text.push_str("flush;");
        let sa = a.as_ref().map(|r| r.segment.as_ref().map(|s| (s.id, s.record_count))).map_err(|e| e.to_string());
        let sb = b.as_ref().map(|r| r.segment.as_ref().map(|s| (s.id, s.record_count))).map_err(|e| e.to_string());
        if sa != sb {
            out.violation("C12:localfs:flush-differs-from-in-memory", "the same flush gives different results on LocalFsObjectStore and InMemoryObjectStore", json!({"workload": text, "localfs": format!("{:?}", sa), "in_memory": format!("{:?}", sb)}));
        }
    }
    let rf = RecoveryManager::new(fs.clone(), PREFIX, 1).recover().await;
    let rm = RecoveryManager::new(mem.clone(), PREFIX, 1).recover().await;
    if show_rec(&rf) != show_rec(&rm) {
        out.violation("C12:localfs:recovery-differs-from-in-memory", "after the same workload recovery differs between LocalFsObjectStore and InMemoryObjectStore", json!({"workload": text, "localfs": show_rec(&rf), "in_memory": show_rec(&rm)}));
    }
    // no temp manifest left behind, names as the protocol derives them
    let listed = fs.list("", None).await.map(|l| l.objects.iter().map(|o| o.key.clone()).collect::<Vec<_>>()).unwrap_or_default();
    if listed.iter().any(|k| k.ends_with(".tmp")) {
        out.violation("C12:localfs:temp-manifest-left-behind", "after successful flushes the temp manifest still exists (rename did not move it)", json!({"listed": listed}));
    }
    let _ = std::fs::remove_dir_all(&dir);
    out.count("fs:case:workload-on-LocalFs-vs-InMemory");
    out.case(&format!("fswl:{}", text), true);
}

fn repl_config(rid: u64) -> ReplicationConfig {
    ReplicationConfig { enabled: false, replica_id: rid, consistency_level: ConsistencyLevel::Eventual, gossip_interval_ms: 100, peers: vec![], replication_factor: 3, partitioned_mode: false, selective_gossip: false, virtual_nodes_per_physical: 150 }
}

/// S4: the production wiring on the local file system (real time: `tokio::fs` runs on the blocking pool)
pub async fn localfs_pipeline(out: &mut Out, rng: &mut Rng) {
    let dir = scratch(out, "pipe");
    let mut wb = gen_wb_cfg(rng);
    wb.flush_interval = *rng.pick(&[Duration::ZERO, Duration::from_millis(5), Duration::from_secs(3600)]);
    wb.backpressure_threshold_bytes = 1 << 40;
    let mut cfg = StreamingConfig::local(dir.clone());
    cfg.prefix = PREFIX.to_string();
    cfg.write_buffer = wb.clone();
    cfg.compaction.max_segments = 0;
    debug_assert!(cfg.store_type == ObjectStoreType::LocalFs);
    let integ = match create_integration(cfg.clone(), 1).await {
        Ok(i) => i,
        Err(e) => {
            out.violation("C12:localfs:create-integration-failed", &format!("create_integration(LocalFs) failed: {}", e), json!(null));
            return;
        }
    };
    let (handles, sender) = match integ.start_workers().await {
        Ok(x) => x,
        Err(e) => {
            out.violation("C12:localfs:start-workers-failed", &format!("start_workers on LocalFs failed: {}", e), json!(null));
            return;
        }
    };
    let mut sent: Vec<Upd> = Vec::new();
    let mut t = 50u64;
    for _ in 0..rng.range(1, 3) {
        for _ in 0..rng.range(1, 4) {
            t += 1;
            let u = lww_upd(*rng.pick(&["k", "k2", "é", "kk"]), format!("v{}", t).as_bytes(), t, 1, rng.chance(1, 8));
            sender.send(ReplicationDelta::new(u.0.clone(), u.1.clone(), ReplicaId::new(1))).expect("bridge alive");
            sent.push(u);
        }
        tokio::time::sleep(Duration::from_millis(30)).await;
    }
    handles.shutdown().await;
    // restart: a second integration on the same directory recovers into a fresh node
    let integ2 = match create_integration(cfg, 1).await {
        Ok(i) => i,
        Err(e) => {
            out.violation("C12:localfs:create-integration-failed", &format!("create_integration(LocalFs) failed on restart: {}", e), json!(null));
            return;
        }
    };
    let state = ReplicatedShardedState::new(repl_config(1));
    match integ2.recover(&state).await {
        Err(e) => out.violation("C12:localfs:recover-after-shutdown-failed", &format!("recover() after a clean shutdown failed: {}", e), json!(null)),
        Ok(_) => {
            let got = sorted_map(&state.snapshot_state().await);
            let want = sorted_map(&fold_real(&sent));
            if got != want {
                out.violation("C12:localfs:update-lost-across-restart", "after a clean shutdown of the LocalFs worker pipeline and a restart, the recovered node state is not the merge of everything handed to the sink",
                    json!({"sent": show_upds(&want), "recovered": show_upds(&got), "write_buffer": format!("{:?}", wb)}));
            }
        }
    }
    let _ = std::fs::remove_dir_all(&dir);
    out.count("fs:case:worker-pipeline-on-LocalFs+restart");
    out.case(&format!("fspipe:{:?}:{}", wb, sent.len()), true);
}

pub async fn run_all(out: &mut Out, rng: &mut Rng, n: u64) {
    // a complete checkpoint object: every proper prefix rejected
    let state: std::collections::HashMap<String, redis_sim::replication::state::ReplicatedValue> =
        [lww_upd("a", b"1", 3, 1, false), lww_upd("b", b"2", 4, 1, true)].into_iter().collect();
    if let Ok(data) = CheckpointWriter::new(Compression::None).write(state, 1000, 0) {
        prefixes_rejected(out, "checkpoint", &data, &checkpoint_accepts);
    }
    for _ in 0..n {
        let mut r = rng.fork();
        store_differential(out, &mut r).await;
        if r.chance(1, 4) {
            localfs_crash_images(out, &mut r).await;
        }
        if r.chance(1, 4) {
            localfs_workload(out, &mut r).await;
        }
    }
    // leftovers of a failed run
    if let Ok(rd) = std::fs::read_dir(&out.dir) {
        for e in rd.flatten() {
            if e.file_name().to_string_lossy().starts_with("fs-") {
                let _ = std::fs::remove_dir_all(e.path());
            }
        }
    }
}
