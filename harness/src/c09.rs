//! C09 — always-fsync WAL: a write reported durable survives a crash at any instant.
//! The REAL `spawn_wal_actor` (group commit) + REAL `WalRotator` run on a harness-side
//! `WalStore` that records every create/append/sync call, injects the generated fault at the
//! generated call index and keeps, after every call, the crash image (each file cut to what a
//! successful fsync covered).  Concurrent `write_durable` callers arrive in generated bursts on
//! a single-threaded tokio runtime with paused time (so batch boundaries are reproducible);
//! thresholds are chosen so batches straddle rotations.
//! Correspondence: acks, call trace and the recovered set at EVERY crash index vs the model.
//! Oracle: an `Ok` ack whose entry is missing from `recover_all_entries` of some crash image
//! taken after the caller saw the ack.
use crate::c10::parse_seq;
use crate::enc::hex;
use crate::out::Out;
use crate::rng::Rng;
use crate::Args;
use redis_sim::redis::SDS;
use redis_sim::replication::lattice::{LamportClock, ReplicaId};
use redis_sim::replication::state::{ReplicatedValue, ReplicationDelta};
use redis_sim::streaming::wal_store::{InMemoryWalStore, WalError, WalFileReader, WalFileWriter, WalStore};
use redis_sim::streaming::wal_config::{FsyncPolicy, WalConfig};
use redis_sim::streaming::{spawn_wal_actor, WalEntry, WalRotator};
use serde_json::json;
use std::collections::{BTreeMap, HashMap};
use std::sync::{Arc, Mutex};
use std::time::Duration;

use crate::cfg::{CODE_RESTART_REUSES_SEQ, CODE_SYNCS_BEFORE_DROP, CODE_TICK_SYNCS, CODE_WAL_FORMAT};

#[derive(Clone, Debug, PartialEq)]
pub enum Outcome {
    Ok,
    Fail,
    Full,
    Torn(usize),
}

impl Outcome {
    fn show(&self) -> String {
        match self {
            Outcome::Ok => "ok".into(),
            Outcome::Fail => "fail".into(),
            Outcome::Full => "full".into(),
            Outcome::Torn(k) => format!("torn:{}", k),
        }
    }
}

#[derive(Default)]
struct Inner {
    files: BTreeMap<String, (Vec<u8>, usize)>, // data, synced length
    faults: HashMap<usize, Outcome>,
    /// from this (global) call index on every call fails: the machine is dying
    dead_from: Option<usize>,
    trace: Vec<String>,
    /// crash image after every call (index 0 = before the first call)
    images: Vec<Vec<(String, Vec<u8>)>>,
    /// (call index, file name, bytes handed to append, append succeeded)
    appended: Vec<(usize, String, Vec<u8>, bool)>,
    actor_panicked: bool,
    /// outcome of the upcoming `list()` calls, in order (true = fails); empty = succeeds
    list_plan: std::collections::VecDeque<bool>,
    list_calls: usize,
    spawn_failed: Vec<bool>,
    policy_mismatch: bool,
}

impl Inner {
    fn next(&mut self) -> Outcome {
        let i = self.trace.len();
        if self.dead_from.map(|d| i >= d).unwrap_or(false) {
            return Outcome::Fail;
        }
        self.faults.get(&i).cloned().unwrap_or(Outcome::Ok)
    }
    fn record(&mut self, call: String) {
        self.trace.push(call);
        let img = self.files.iter().map(|(n, (d, s))| (n.clone(), d[..*s].to_vec())).collect();
        self.images.push(img);
    }
}

#[derive(Clone)]
pub struct FaultStore {
    inner: Arc<Mutex<Inner>>,
}

impl FaultStore {
    fn new(faults: HashMap<usize, Outcome>) -> Self {
        let mut i = Inner::default();
        i.faults = faults;
        i.images.push(Vec::new());
        FaultStore { inner: Arc::new(Mutex::new(i)) }
    }
    pub fn calls(&self) -> usize {
        self.inner.lock().unwrap().trace.len()
    }
    /// start of an incarnation: its faults / death point are given relative to its first call
    fn arm(&self, faults: &[(usize, Outcome)], dead: Option<usize>) -> usize {
        let mut s = self.inner.lock().unwrap();
        let base = s.trace.len();
        s.faults = faults.iter().map(|(i, o)| (base + i, o.clone())).collect();
        s.dead_from = dead.map(|d| base + d);
        base
    }
    fn plan_list(&self, fails: bool) {
        self.inner.lock().unwrap().list_plan.push_back(fails);
    }
    /// the machine crashes: every file keeps exactly what a successful fsync covered
    fn crash(&self) {
        let mut s = self.inner.lock().unwrap();
        for (_, (d, syn)) in s.files.iter_mut() {
            d.truncate(*syn);
            *syn = d.len();
        }
        s.dead_from = None;
        s.record("crash".to_string());
    }
}

pub struct FaultWriter {
    name: String,
    seq: u64,
    inner: Arc<Mutex<Inner>>,
    size: u64,
}

fn io_err(what: &str) -> WalError {
    WalError::Io(std::io::Error::new(std::io::ErrorKind::Other, what.to_string()))
}

impl WalFileWriter for FaultWriter {
    fn append(&mut self, data: &[u8]) -> Result<u64, WalError> {
        let mut s = self.inner.lock().unwrap();
        let o = s.next();
        let res = match &o {
            Outcome::Ok => {
                let f = s.files.get_mut(&self.name).expect("file exists");
                f.0.extend_from_slice(data);
                self.size = f.0.len() as u64;
                Ok(self.size)
            }
            Outcome::Fail => Err(io_err("injected write failure")),
            Outcome::Full => Err(WalError::DiskFull),
            Outcome::Torn(k) => {
                let k = (*k).min(data.len());
                let f = s.files.get_mut(&self.name).expect("file exists");
                f.0.extend_from_slice(&data[..k]);
                Err(WalError::PartialWrite { expected: data.len(), actual: k })
            }
        };
        let idx = s.trace.len();
        s.appended.push((idx, self.name.clone(), data.to_vec(), o == Outcome::Ok));
        s.record(format!("a{}:{}:{}", self.seq, data.len(), o.show()));
        res
    }
    fn sync(&mut self) -> Result<(), WalError> {
        let mut s = self.inner.lock().unwrap();
        let o = s.next();
        let ok = o == Outcome::Ok;
        if ok {
            let f = s.files.get_mut(&self.name).expect("file exists");
            f.1 = f.0.len();
        }
        s.record(format!("s{}:{}", self.seq, if ok { "ok" } else { "err" }));
        if ok {
            Ok(())
        } else {
            Err(WalError::FsyncFailed("injected fsync failure".into()))
        }
    }
    fn size(&self) -> u64 {
        self.size
    }
}

pub struct FaultReader {
    data: Vec<u8>,
}

impl WalFileReader for FaultReader {
    fn read_all(&mut self) -> Result<Vec<u8>, WalError> {
        Ok(self.data.clone())
    }
}

impl WalStore for FaultStore {
    type Writer = FaultWriter;
    type Reader = FaultReader;
    fn create(&self, name: &str) -> Result<Self::Writer, WalError> {
        let mut s = self.inner.lock().unwrap();
        let o = s.next();
        let seq = parse_seq(name).unwrap_or(u64::MAX);
        let ok = o == Outcome::Ok;
        let existed = s.files.contains_key(name);
        if ok {
            s.files.insert(name.to_string(), (Vec::new(), 0)); // create truncates
        }
        s.record(format!("c{}:{}{}", seq, if ok { "ok" } else { "err" }, if existed { ":over" } else { "" }));
        match o {
            Outcome::Ok => Ok(FaultWriter { name: name.to_string(), seq, inner: Arc::clone(&self.inner), size: 0 }),
            Outcome::Full => Err(WalError::DiskFull),
            _ => Err(io_err("injected create failure")),
        }
    }
    fn open_read(&self, name: &str) -> Result<Self::Reader, WalError> {
        let s = self.inner.lock().unwrap();
        s.files.get(name).map(|f| FaultReader { data: f.0.clone() }).ok_or_else(|| WalError::NotFound(name.to_string()))
    }
    fn list(&self) -> Result<Vec<String>, WalError> {
        let mut s = self.inner.lock().unwrap();
        s.list_calls += 1;
        if s.list_plan.pop_front().unwrap_or(false) {
            return Err(io_err("injected list failure"));
        }
        Ok(s.files.keys().cloned().collect())
    }
    fn delete(&self, name: &str) -> Result<(), WalError> {
        let mut s = self.inner.lock().unwrap();
        let o = s.next();
        let ok = o == Outcome::Ok;
        if ok {
            s.files.remove(name);
        }
        s.record(format!("d{}:{}", parse_seq(name).unwrap_or(u64::MAX), if ok { "ok" } else { "err" }));
        if ok {
            Ok(())
        } else {
            Err(io_err("injected delete failure"))
        }
    }
    fn exists(&self, name: &str) -> Result<bool, WalError> {
        Ok(self.inner.lock().unwrap().files.contains_key(name))
    }
}

#[derive(Clone)]
struct W {
    id: u64,
    ts: u64,
    delta: Arc<ReplicationDelta>,
    data: Vec<u8>,
}

/// every public message of `WalActorHandle`
#[derive(Clone)]
enum Msg {
    Cancelled(W),  // write_durable whose caller is dropped while it waits for the ack
    Durable(W),    // write_durable
    Forget(W),     // write_fire_and_forget
    Tick,          // sync_tick
    Truncate(u64), // truncate
    TruncateListFails(u64), // truncate whose `store.list()` fails: the actor logs the error, nothing is deleted
    Shutdown,               // shutdown() sent as one message of a burst, racing with the writers
}

impl Msg {
    fn kind(&self) -> &'static str {
        match self {
            Msg::Cancelled(_) => "write_durable(cancelled)",
            Msg::Durable(_) => "write_durable",
            Msg::Forget(_) => "write_fire_and_forget",
            Msg::Tick => "sync_tick",
            Msg::Truncate(_) => "truncate",
            Msg::TruncateListFails(_) => "truncate(list-fails)",
            Msg::Shutdown => "shutdown(in-burst)",
        }
    }
    fn write(&self) -> Option<&W> {
        match self {
            Msg::Durable(w) | Msg::Forget(w) | Msg::Cancelled(w) => Some(w),
            _ => None,
        }
    }
}

#[derive(Clone, Copy, PartialEq)]
enum Ending {
    Crash, // machine crash, then a new actor over what is left
    Clean, // shutdown(), then a new actor over the same store
    End,   // last incarnation
}

/// one actor / rotator lifetime over the shared store
struct Inc {
    faults: Vec<(usize, Outcome)>, // call indices relative to the incarnation's first call
    dead: Option<usize>,           // relative: every call from here on fails
    groups: Vec<Vec<Msg>>,
    ending: Ending,
    /// `store.list()` fails while `WalRotator::new` scans the directory: `spawn_wal_actor` returns Err,
    /// this incarnation never runs (its messages are never sent)
    spawn_list_fails: bool,
}

#[derive(Clone, Copy, PartialEq, Debug)]
enum Pol {
    Always,
    EverySec,
    No,
}

impl Pol {
    fn letter(&self) -> &'static str {
        match self {
            Pol::Always => "a",
            Pol::EverySec => "e",
            Pol::No => "n",
        }
    }
}

struct Workload {
    pol: Pol,
    /// the configuration goes through serde_json (to_string / from_str) before the actor is spawned
    cfg_via_json: bool,
    /// group_commit_max_wait in microseconds (virtual time)
    max_wait_us: u64,
    /// the messages of a burst are sent by ONE caller without yielding (only messages that do not wait:
    /// fire-and-forget, tick, truncate): the mailbox (WAL_CHANNEL_CAPACITY) fills up and the excess is dropped
    no_yield: bool,
    max_size: usize,
    max_entries: usize,
    incs: Vec<Inc>,
}

/// the configuration handed to `spawn_wal_actor`: policy and `enabled` come from /repo's own
/// constructors (`WalConfig::always_fsync` / `every_second` / `default`), the generated fields on top
fn make_config(wl: &Workload) -> WalConfig {
    let dir = std::path::PathBuf::from("/nonexistent");
    let base = match wl.pol {
        Pol::Always => WalConfig::always_fsync(dir),
        Pol::EverySec => WalConfig::every_second(dir),
        Pol::No => WalConfig { enabled: true, wal_dir: dir, fsync_policy: FsyncPolicy::No, ..WalConfig::default() },
    };
    let cfg = WalConfig {
        max_file_size: wl.max_size,
        group_commit_max_entries: wl.max_entries,
        group_commit_max_wait: Duration::from_micros(wl.max_wait_us),
        truncation_check_interval: Duration::from_secs(3600),
        ..base
    };
    if wl.cfg_via_json {
        let js = serde_json::to_string(&cfg).expect("config to json");
        serde_json::from_str(&js).expect("config from json")
    } else {
        cfg
    }
}

/// callers that ran into their 5 s ack timeout so far (coverage: the corpus must produce some)
static TIMEOUTS_SEEN: std::sync::atomic::AtomicU64 = std::sync::atomic::AtomicU64::new(0);

/// `group_commit_max_wait` values around the 5 s ack timeout of `write_durable` (virtual time, µs)
const LONG_WAITS_US: [u64; 5] = [4_000_000, 4_998_000, 5_002_000, 10_000_000, 60_000_000]; // tokio timers have 1 ms granularity (deadlines round up): stay 2 ms off the tie, which is a race

impl Workload {
    /// the group-commit wait is long enough to compete with the callers' 5 s ack timeout: the workload is
    /// compared through the model's caller automaton (op `GT`, `seenAfter`)
    fn timeout_mode(&self) -> bool {
        self.pol == Pol::Always && self.max_wait_us >= 1_000_000
    }
    fn single(max_size: usize, max_entries: usize, faults: Vec<(usize, Outcome)>, groups: Vec<Vec<Msg>>) -> Workload {
        Workload { pol: Pol::Always, cfg_via_json: false, max_wait_us: 200, no_yield: false, max_size, max_entries, incs: vec![Inc { faults, dead: None, groups, ending: Ending::End, spawn_list_fails: false }] }
    }
    fn msgs(&self) -> impl Iterator<Item = &Msg> {
        self.incs.iter().flat_map(|i| i.groups.iter().flatten())
    }
    fn writes(&self) -> Vec<&W> {
        self.msgs().filter_map(|m| m.write()).collect()
    }
    fn durable(&self) -> Vec<&W> {
        self.msgs().filter_map(|m| if let Msg::Durable(w) = m { Some(w) } else { None }).collect()
    }
    fn max_truncate(&self) -> Option<u64> {
        self.msgs().filter_map(|m| if let Msg::Truncate(t) = m { Some(*t) } else { None }).max()
    }
}

fn mk_write(id: u64, ts: u64, vlen: usize) -> W {
    let rid = ReplicaId::new(1);
    let v = ReplicatedValue::with_value(SDS::new(vec![b'a' + (id % 26) as u8; vlen]), LamportClock { time: ts, replica_id: rid });
    let delta = ReplicationDelta::new(format!("w{}", id), v, rid);
    let data = bincode::serialize(&delta).unwrap();
    W { id, ts, delta: Arc::new(delta), data }
}

fn ack_name(r: &Result<(), WalError>) -> &'static str {
    match r {
        Ok(()) => "ok",
        Err(WalError::Io(_)) => "io",
        Err(WalError::DiskFull) => "full",
        Err(WalError::PartialWrite { .. }) => "torn",
        // (the caller's 5 s deadline is reported as FsyncFailed too — "WAL write timed out"; the class is what is
        // compared, not the wording, so that a reworded message is not an alarm)
        Err(WalError::FsyncFailed(_)) => "fsync",
        Err(_) => "other",
    }
}

struct RunResult {
    appended: Vec<(usize, String, Vec<u8>, bool)>,
    actor_panicked: bool,
    spawn_failed: Vec<bool>,
    policy_mismatch: bool,
    acks: Vec<(u64, &'static str, usize)>, // id, result, number of I/O calls when the caller saw it
    trace: Vec<String>,
    images: Vec<Vec<(String, Vec<u8>)>>,
    files: Vec<(String, Vec<u8>)>, // final full contents
    bases: Vec<usize>,             // global index of the first call of every incarnation
}

fn run_real(wl: &Workload) -> RunResult {
    let store = FaultStore::new(HashMap::new());
    let mut acks = Vec::new();
    let mut bases = Vec::new();
    for inc in &wl.incs {
        bases.push(store.arm(&inc.faults, inc.dead));
        let rt = tokio::runtime::Builder::new_current_thread().enable_time().start_paused(true).build().unwrap();
        let st2 = store.clone();
        let groups = inc.groups.clone();
        let cfg = make_config(wl);
        let pol = wl.pol;
        let crash_next = inc.ending == Ending::Crash;
        let no_yield = wl.no_yield;
        let burst_pause_us = if wl.timeout_mode() { wl.max_wait_us + 10_000 } else { 10_000 };
        let want_policy = cfg.fsync_policy;
        store.inner.lock().unwrap().list_plan.clear();
        if inc.spawn_list_fails {
            store.plan_list(true);
        }
        let (mut got, panicked) = rt.block_on(async move {
            // a NEW actor (and rotator: WalRotator::new scans the store) over the shared store
            let (handle, task) = match spawn_wal_actor(st2.clone(), cfg) {
                Ok(x) => x,
                Err(_) => {
                    st2.inner.lock().unwrap().spawn_failed.push(true);
                    return (Vec::new(), false);
                }
            };
            st2.inner.lock().unwrap().spawn_failed.push(false);
            if handle.fsync_policy() != want_policy {
                st2.inner.lock().unwrap().policy_mismatch = true;
            }
            let mut acks = Vec::new();
            for g in groups {
                if no_yield {
                    // one caller, no await between the sends
                    for m in g {
                        match m {
                            Msg::Forget(w) => handle.write_fire_and_forget(w.delta.clone(), w.ts),
                            Msg::Tick => handle.sync_tick(),
                            Msg::Truncate(t) => {
                                st2.plan_list(false);
                                handle.truncate(t)
                            }
                            _ => panic!("no_yield bursts carry only messages that do not wait"),
                        }
                    }
                    tokio::time::sleep(Duration::from_millis(10)).await;
                    continue;
                }
                // a burst of concurrent callers: tasks run in spawn order, so the messages reach the
                // mailbox in this order, all before the actor handles the first of them
                let mut js = Vec::new();
                let cancelled: Vec<bool> = g.iter().map(|m| matches!(m, Msg::Cancelled(_))).collect();
                for m in g {
                    let h = handle.clone();
                    let st3 = st2.clone();
                    js.push(tokio::spawn(async move {
                        match m {
                            Msg::Durable(w) | Msg::Cancelled(w) => {
                                let r = h.write_durable(w.delta.clone(), w.ts).await;
                                Some((w.id, ack_name(&r), st3.calls()))
                            }
                            Msg::Forget(w) => {
                                h.write_fire_and_forget(w.delta.clone(), w.ts);
                                None
                            }
                            Msg::Tick => {
                                h.sync_tick();
                                None
                            }
                            Msg::Truncate(t) => {
                                st3.plan_list(false);
                                h.truncate(t);
                                None
                            }
                            Msg::TruncateListFails(t) => {
                                st3.plan_list(true);
                                h.truncate(t);
                                None
                            }
                            Msg::Shutdown => {
                                h.shutdown().await;
                                None
                            }
                        }
                    }));
                }
                // every caller has sent its message (one pass of the scheduler); the cancelled ones are
                // dropped now, while they wait for their ack
                if cancelled.iter().any(|c| *c) {
                    tokio::task::yield_now().await;
                }
                for (j, c) in js.into_iter().zip(cancelled) {
                    if c {
                        j.abort();
                        let _ = j.await;
                        continue;
                    }
                    if let Some(a) = j.await.expect("caller task") {
                        acks.push(a);
                    }
                }
                // callers that wait for nothing (tick, truncate, fire-and-forget) return at once: let the
                // actor finish this burst (incl. its group-commit wait) before the next one is sent.
                // The clock is paused, so this costs no real time.
                tokio::time::sleep(Duration::from_micros(burst_pause_us)).await;
            }
            // Always: every burst ends flushed, so the final flush of shutdown() issues no I/O; it only
            // stops the actor (also before a crash).  EverySecond: shutdown() fsyncs once more if
            // anything is unsynced — before a CRASH the handles are just dropped instead (the actor
            // stops when every sender is gone, without any I/O).
            if pol == Pol::Always || !crash_next {
                handle.shutdown().await;
            }
            drop(handle); // the actor only stops when every sender is gone
            let panicked = matches!(task.await, Err(e) if e.is_panic());
            (acks, panicked)
        });
        if panicked {
            store.inner.lock().unwrap().actor_panicked = true;
        }
        acks.append(&mut got);
        if inc.ending == Ending::Crash {
            store.crash();
        }
    }
    let s = store.inner.lock().unwrap();
    RunResult { appended: s.appended.clone(), actor_panicked: s.actor_panicked, spawn_failed: s.spawn_failed.clone(), policy_mismatch: s.policy_mismatch, acks, trace: s.trace.clone(), images: s.images.clone(), files: s.files.iter().map(|(n, (d, _))| (n.clone(), d.clone())).collect(), bases }
}

/// recovery of a crash image through the real rotator
fn recover_ids(img: &[(String, Vec<u8>)], by_data: &HashMap<(Vec<u8>, u64), u64>, max: usize) -> Vec<String> {
    recover_ids_checked(img, by_data, max).0
}

/// … plus the COMPOSED oracle of `Props/C09Compose.lean` (model-free): on every crash image
/// `recover_entries_after(T)` must succeed (T = 0 and T = a stamp present in the image) and return, in
/// order, exactly the deltas whose bincode bytes are the payloads `recover_all_entries` returned with a
/// stamp >= T — and every one of them must be a delta that some `Write` message carried, bit-identical.
fn recover_ids_checked(img: &[(String, Vec<u8>)], by_data: &HashMap<(Vec<u8>, u64), u64>, max: usize) -> (Vec<String>, Option<(&'static str, String)>) {
    let st = InMemoryWalStore::new();
    for (n, b) in img {
        let mut w = st.create(n).unwrap();
        if !b.is_empty() {
            w.append(b).unwrap();
        }
    }
    let rot = WalRotator::new(st, max).unwrap();
    let es: Vec<WalEntry> = rot.recover_all_entries().unwrap();
    let mut complaint = None;
    let mut thresholds = vec![0u64];
    if let Some(e) = es.get(es.len() / 2) {
        thresholds.push(e.timestamp);
        thresholds.push(e.timestamp.saturating_add(1));
    }
    for t in thresholds {
        let want: Vec<&WalEntry> = es.iter().filter(|e| e.timestamp >= t).collect();
        match rot.recover_entries_after(t) {
            Err(e) => {
                complaint = Some(("C09:compose:recover-entries-after-fails-on-a-crash-image", format!("recover_entries_after({}) = Err({})", t, e)));
            }
            Ok(ds) => {
                if ds.len() != want.len() {
                    complaint = Some(("C09:compose:recover-entries-after-count", format!("recover_entries_after({}) returned {} deltas, recover_all_entries holds {} entries stamped >= it", t, ds.len(), want.len())));
                } else {
                    for (d, e) in ds.iter().zip(want.iter()) {
                        let bytes = bincode::serialize(d).unwrap();
                        if bytes != e.data {
                            complaint = Some(("C09:compose:recovered-delta-not-bit-identical", format!("a delta returned by recover_entries_after({}) does not serialise to the payload of its entry (stamp {})", t, e.timestamp)));
                        } else if !by_data.contains_key(&(bytes, e.timestamp)) {
                            complaint = Some(("C09:compose:recovered-delta-never-written", format!("recover_entries_after({}) returned a delta (stamp {}) that no Write message carried", t, e.timestamp)));
                        }
                    }
                }
            }
        }
    }
    (es.iter().map(|e| by_data.get(&(e.data.clone(), e.timestamp)).map(|i| i.to_string()).unwrap_or("?".into())).collect(), complaint)
}

fn op_line(wl: &Workload, bases: &[usize], spawn_failed: &[bool]) -> String {
    let head = if wl.timeout_mode() { format!("GT {}", wl.max_wait_us) } else if wl.pol == Pol::Always { "G".to_string() } else { format!("GP {}", wl.pol.letter()) };
    let mut s = format!("{} {} {} {} {} {} {} K {}", head, CODE_SYNCS_BEFORE_DROP as u8, CODE_TICK_SYNCS as u8, CODE_WAL_FORMAT, CODE_RESTART_REUSES_SEQ as u8, wl.max_size, wl.max_entries, wl.incs.len());
    for (k, inc) in wl.incs.iter().enumerate() {
        let base = bases.get(k).cloned().unwrap_or(0);
        s.push_str(&format!(" F {}", inc.faults.len()));
        for (i, o) in &inc.faults {
            s.push_str(&format!(" {} {}", base + i, o.show()));
        }
        s.push_str(&format!(" D {}", inc.dead.map(|d| (base + d).to_string()).unwrap_or("-".into())));
        let failed = spawn_failed.get(k).cloned().unwrap_or(false);
        let groups: Vec<Vec<Msg>> = if failed {
            vec![]
        } else if wl.no_yield {
            inc.groups.iter().map(|g| g.iter().take(crate::walcov::SRC_WAL_CHANNEL_CAPACITY).cloned().collect()).collect()
        } else {
            inc.groups.clone()
        };
        s.push_str(&format!(" W {}", groups.len()));
        for g in &groups {
            s.push_str(&format!(" {}", g.len()));
            for m in g {
                match m {
                    Msg::Durable(w) => s.push_str(&format!(" w {} {} {}", w.id, w.ts, hex(&w.data))),
                    Msg::Cancelled(w) => s.push_str(&format!(" c {} {} {}", w.id, w.ts, hex(&w.data))),
                    Msg::Forget(w) => s.push_str(&format!(" f {} {} {}", w.id, w.ts, hex(&w.data))),
                    Msg::Tick => s.push_str(" t"),
                    Msg::Truncate(t) => s.push_str(&format!(" x {}", t)),
                    Msg::TruncateListFails(_) => s.push_str(" xl"),
                    Msg::Shutdown => s.push_str(" s"),
                }
            }
        }
        s.push_str(match inc.ending {
            Ending::Crash => " E c",
            Ending::Clean => " E s",
            Ending::End => " E e",
        });
    }
    s
}

fn run_workload(wl: &Workload, out: &mut Out, source: &str) {
    let r = run_real(wl);
    let by_data: HashMap<(Vec<u8>, u64), u64> = wl.writes().iter().map(|w| ((w.data.clone(), w.ts), w.id)).collect();
    let mut acks = r.acks.clone();
    acks.sort();
    let acks_s: Vec<String> = acks.iter().map(|(i, a, _)| format!("{}={}", i, a)).collect();
    let recc: Vec<(Vec<String>, Option<(&'static str, String)>)> = r.images.iter().map(|img| recover_ids_checked(img, &by_data, wl.max_size)).collect();
    let compose_complaint: Option<(usize, &'static str, String)> = recc.iter().enumerate().find_map(|(t, (_, c))| c.as_ref().map(|(s, m)| (t, *s, m.clone())));
    let rec: Vec<Vec<String>> = recc.into_iter().map(|(v, _)| v).collect();
    // ORDER (Props/C10Order.lean recovered_is_subsequence_of_written, model-free): what recovery returns from any
    // crash image is a subsequence of the writes in the order they were sent — nothing twice, nothing reordered
    let order_complaint: Option<(usize, String)> = {
        let pos: HashMap<String, usize> = wl.writes().iter().enumerate().map(|(i, w)| (w.id.to_string(), i)).collect();
        rec.iter().enumerate().find_map(|(t, ids)| {
            let ps: Vec<Option<&usize>> = ids.iter().map(|i| pos.get(i)).collect();
            if ps.iter().all(|p| p.is_some()) && !ps.windows(2).all(|w| w[0].unwrap() < w[1].unwrap()) {
                Some((t, ids.join(" ")))
            } else {
                None
            }
        })
    };
    let crash_s: Vec<String> = rec.iter().map(|v| v.join(" ")).collect();
    out.op(op_line(wl, &r.bases, &r.spawn_failed), format!("acks {} | trace {} | crash {}", acks_s.join(" "), r.trace.join(" "), crash_s.join(" ; ")));

    // distribution
    let nw: usize = wl.writes().len();
    // message kind x position in its burst, and whether it sits between a failed append and the flush
    out.count(&format!("incarnations:{}", wl.incs.len()));
    for inc in &wl.incs {
        out.count(match inc.ending { Ending::Crash => "incarnation-end:crash", Ending::Clean => "incarnation-end:clean-shutdown", Ending::End => "incarnation-end:last" });
        if inc.dead.is_some() {
            out.count("incarnation:machine-dies-mid-run");
        }
    }
    for g in wl.incs.iter().flat_map(|i| i.groups.iter()) {
        for (i, m) in g.iter().enumerate() {
            out.count(&format!("msg:{}:pos{}", m.kind(), i.min(4)));
        }
    }
    for c in r.trace.iter() {
        if c.starts_with('d') {
            out.count(if c.ends_with(":ok") { "calls:delete" } else { "failed-call:delete" });
        }
    }
    out.count(&format!("writes:{}", nw.min(12)));
    let all_faults: Vec<&(usize, Outcome)> = wl.incs.iter().flat_map(|i| i.faults.iter()).collect();
    out.count(&format!("faults:{}", all_faults.len().min(4)));
    for (_, o) in all_faults.iter().map(|f| (f.0, &f.1)) {
        out.count(&format!("fault-kind:{}", match o { Outcome::Ok => "ok", Outcome::Fail => "fail", Outcome::Full => "full", Outcome::Torn(_) => "torn" }));
    }
    for c in &r.trace {
        let k = if c.starts_with('c') { "create" } else if c.starts_with('a') { "append" } else if c.starts_with('d') { continue } else { "sync" };
        out.count_n(&format!("calls:{}", k), 1);
        if !c.ends_with(":ok") {
            out.count(&format!("failed-call:{}", k));
        }
    }
    out.count_n("crash-images", r.images.len() as u64);
    let creates = r.trace.iter().filter(|c| c.starts_with('c')).count();
    let syncs = r.trace.iter().filter(|c| c.starts_with('s')).count();
    if creates > syncs.max(1) {
        out.count("shape:more-files-than-syncs");
    }
    for (_, a, _) in &acks {
        out.count(&format!("ack:{}", a));
    }
    let canon = op_line(wl, &r.bases, &r.spawn_failed);
    out.case(&canon, nw >= 2 && creates >= 1);
    let replay = json!({
        "fsync_policy": format!("{:?}", wl.pol), "config_through_serde_json": wl.cfg_via_json,
        "max_file_size": wl.max_size, "group_commit_max_entries": wl.max_entries,
        "incarnations": wl.incs.iter().enumerate().map(|(k, inc)| json!({
            "first_call_index": r.bases.get(k),
            "faults_at_call_index": inc.faults.iter().map(|(i, o)| format!("{}:{}", r.bases.get(k).cloned().unwrap_or(0) + i, o.show())).collect::<Vec<_>>(),
            "machine_dies_from_call_index": inc.dead.map(|d| r.bases.get(k).cloned().unwrap_or(0) + d),
            "bursts": inc.groups.iter().map(|g| g.iter().map(|m| match m {
                Msg::Durable(w) => format!("write_durable id {} ts {} key w{} ({} payload bytes)", w.id, w.ts, w.id, w.data.len()),
                Msg::Cancelled(w) => format!("write_durable id {} ts {} (caller dropped while waiting for the ack)", w.id, w.ts),
                Msg::Forget(w) => format!("write_fire_and_forget id {} ts {}", w.id, w.ts),
                Msg::Tick => "sync_tick".to_string(),
                Msg::Truncate(t) => format!("truncate({})", t),
                Msg::TruncateListFails(t) => format!("truncate({}) while store.list() fails", t),
                Msg::Shutdown => "shutdown() (a message of the burst)".to_string(),
            }).collect::<Vec<_>>()).collect::<Vec<_>>(),
            "ends_with": match inc.ending { Ending::Crash => "machine crash, then restart", Ending::Clean => "clean shutdown, then restart", Ending::End => "end of the history" },
        })).collect::<Vec<_>>(),
        "acks": acks_s, "trace": r.trace, "recovered_at_each_crash_index": crash_s, "source": source,
    });
    out.sample(replay.clone());

    check_create_over(out, &r.trace, &replay);
    out.count(&format!("policy:{:?}", wl.pol));
    if wl.cfg_via_json {
        out.count("config:through-serde-json");
    }
    if r.policy_mismatch {
        out.violation("C09:config:policy-not-the-configured-one", "WalActorHandle::fsync_policy() differs from the policy of the configuration the actor was spawned with", json!({"workload": replay}));
    }
    for f in &r.spawn_failed {
        if *f {
            out.count("incarnation:spawn-failed(list error in WalRotator::new)");
        }
    }
    if wl.no_yield {
        out.count("burst:one-caller-no-yield(mailbox capacity crossed)");
    }
    out.count(&format!("group_commit_max_wait_us:{}", wl.max_wait_us));
    // a fault-free workload whose group-commit wait exceeds 5 s: every fsync-class error is the caller's deadline
    if wl.timeout_mode() && wl.max_wait_us > 5_000_000 && wl.incs.iter().all(|i| i.faults.is_empty() && i.dead.is_none()) {
        for (_, a, _) in &acks {
            if *a == "fsync" {
                out.count("caller:ack-timeout(5s)");
                TIMEOUTS_SEEN.fetch_add(1, std::sync::atomic::Ordering::Relaxed);
            }
        }
    }
    if wl.timeout_mode() {
        out.count(if wl.max_wait_us > 5_000_000 { "timeout-mode:wait>5s" } else { "timeout-mode:wait<5s" });
    }
    if r.actor_panicked {
        out.violation("C09:actor-panicked", "the WAL actor task panicked", json!({"workload": replay}));
    }
    check_synced_survives(wl, &r, &rec, out, &replay);
    out.count_n("compose-oracle:crash-images-checked", rec.len() as u64);
    if let Some((t, ids)) = order_complaint {
        out.violation("C09:compose:recovered-out-of-write-order", &format!("crash image at I/O index {}: recovery returned the writes {} — not a subsequence of the writes in the order they were sent (a duplicate or a reordering)", t, ids), json!({"workload": replay, "crash_index": t, "recovered": ids}));
    }
    if let Some((t, sig, msg)) = compose_complaint {
        out.violation(sig, &format!("crash image at I/O index {}: {}", t, msg), json!({"workload": replay, "crash_index": t}));
    }
    // ORACLE (Always): an Ok ack whose entry is missing from recovery of a crash image taken after the
    // caller saw the ack
    for (id, a, seen_at) in &acks {
        if *a != "ok" || wl.pol != Pol::Always {
            if *a == "ok" {
                out.count("ack-ok-without-durability-claim(EverySecond/No)");
            }
            continue;
        }
        let ids = id.to_string();
        // the caller itself asked the WAL to forget entries stamped <= T (truncate): exempt
        let wts = wl.durable().iter().find(|w| w.id == *id).map(|w| w.ts).unwrap_or(u64::MAX);
        if wl.max_truncate().map(|t| wts <= t).unwrap_or(false) {
            out.count("oracle-exempt:stamp-below-a-truncate-threshold");
            continue;
        }
        for t in *seen_at..rec.len() {
            if !rec[t].contains(&ids) {
                // why was the file holding it not covered?  look at what happened to its writer
                let w = *wl.durable().iter().find(|w| w.id == *id).unwrap();
                let file = r.files.iter().find(|(_, d)| d.windows(w.data.len()).any(|x| x == &w.data[..])).and_then(|(n, _)| parse_seq(n));
                let class = match file {
                    None => "other",
                    Some(q) => {
                        let failed_append = r.trace.iter().any(|c| c.starts_with(&format!("a{}:", q)) && !c.ends_with(":ok"));
                        let rotated = r.trace.iter().any(|c| c.starts_with('c') && c[1..].split(':').next().and_then(|x| x.parse::<u64>().ok()).map(|x| x > q).unwrap_or(false));
                        if failed_append {
                            "dropped-after-append-error"
                        } else if rotated {
                            "dropped-by-rotation"
                        } else {
                            "other"
                        }
                    }
                };
                out.violation(
                    &format!("C09:ack-ok-lost:{}", class),
                    &format!("write {} was acknowledged Ok but is missing from WAL recovery after a crash at I/O index {}", id, t),
                    json!({"workload": replay, "lost_id": id, "crash_index": t}),
                );
                break;
            }
        }
    }
}

/// ORACLE (every policy, independent of acks and of the model): an entry whose append succeeded and
/// whose file was successfully fsynced afterwards is recovered from every later crash image — until
/// that file is deleted by a truncation or re-created.  This is the floor under the weaker contract of
/// EverySecond / No ("what a tick / a rotation has synced stays") and under Always.
fn check_synced_survives(wl: &Workload, r: &RunResult, rec: &[Vec<String>], out: &mut Out, replay: &serde_json::Value) {
    for w in wl.writes() {
        let enc = match WalEntry::from_delta(&w.delta, w.ts) {
            Ok(e) => e.encode(),
            Err(_) => continue,
        };
        let hit = r.appended.iter().find(|(_, _, b, ok)| *ok && *b == enc);
        let (ia, name) = match hit {
            Some((i, n, _, _)) => (*i, n.clone()),
            None => continue,
        };
        let q = match parse_seq(&name) {
            Some(q) => q,
            None => continue,
        };
        // the first successful fsync of THAT file after the append — the file as it was: a machine crash (the
        // unsynced entry is cut off), a deletion or a re-creation of the name (everything deleted, the numbering
        // starts again) in between ends the search (false alarm found by seed 4 of session 4: an entry lost in a
        // crash, its file deleted by a truncation, a later incarnation re-creating and fsyncing the same name)
        let synced_at = r.trace.iter().enumerate().skip(ia + 1)
            .take_while(|(_, c)| !(**c == "crash" || **c == format!("d{}:ok", q) || c.starts_with(&format!("c{}:", q))))
            .find(|(_, c)| **c == format!("s{}:ok", q)).map(|(j, _)| j);
        let j = match synced_at {
            Some(j) => j,
            None => {
                out.count("synced-oracle:never-synced");
                continue;
            }
        };
        if wl.max_truncate().map(|t| w.ts <= t).unwrap_or(false) {
            continue;
        }
        out.count("synced-oracle:checked");
        // image index t = after t calls; the sync is call j, so images j+1.. contain it
        for t in (j + 1)..rec.len() {
            let gone = r.trace[..t].iter().enumerate().any(|(k, c)| k > j && (*c == format!("d{}:ok", q) || c.starts_with(&format!("c{}:ok", q))));
            if gone {
                break;
            }
            if !rec[t].contains(&w.id.to_string()) {
                out.violation(
                    &format!("C09:synced-entry-lost:{:?}", wl.pol),
                    &format!("write {} was appended (call {}) and its file fsynced (call {}) but it is missing from WAL recovery after a crash at I/O index {}", w.id, ia, j, t),
                    json!({"workload": replay, "lost_id": w.id, "crash_index": t}),
                );
                break;
            }
        }
    }
}

/// a `create` over a name that already exists truncates that file (oracle, independent of acks)
fn check_create_over(out: &mut Out, trace: &[String], replay: &serde_json::Value) {
    if let Some((i, c)) = trace.iter().enumerate().find(|(_, c)| c.starts_with('c') && c.ends_with(":over")) {
        out.violation(
            "C09:create-overwrites-existing-file",
            &format!("I/O call {} ({}) created a WAL file under a name that already existed in the store: create() truncates it, destroying whatever an earlier incarnation had made durable there", i, c),
            json!({"workload": replay, "call_index": i, "call": c}),
        );
    }
}

/// one incarnation: bursts of messages + faults at call indices relative to its first call
fn gen_inc(rng: &mut Rng, next_id: &mut u64, vlen: usize, vary: bool, cancel: bool) -> (Vec<Vec<Msg>>, Vec<(usize, Outcome)>, usize) {
    let ng = rng.range(1, 4) as usize;
    let mut groups: Vec<Vec<Msg>> = Vec::new();
    // which non-write messages this incarnation mixes in (every public message of WalActorHandle)
    let with_ticks = rng.chance(1, 2);
    let with_forget = rng.chance(1, 3);
    let with_truncate = rng.chance(1, 4);
    let with_cancel = cancel && rng.chance(1, 4);
    for _ in 0..ng {
        let n = rng.range(1, 5) as usize;
        let mut g = Vec::new();
        for _ in 0..n {
            let k = rng.below(10);
            if with_ticks && k < 2 {
                g.push(Msg::Tick);
            } else if with_truncate && k == 2 {
                let t = *rng.pick(&[0u64, 5, 20, 49, 50, u64::MAX - 1]);
                g.push(if rng.chance(1, 6) { Msg::TruncateListFails(t) } else { Msg::Truncate(t) });
            } else {
                *next_id += 1;
                let l = if vary { rng.range(0, 40) as usize } else { vlen };
                let w = mk_write(*next_id, if rng.chance(1, 10) { u64::MAX } else { rng.below(50) }, l);
                g.push(if with_forget && k == 3 { Msg::Forget(w) } else if with_cancel && k == 4 { Msg::Cancelled(w) } else { Msg::Durable(w) });
            }
        }
        groups.push(g);
    }
    if rng.chance(1, 12) {
        let gi = rng.below(groups.len() as u64) as usize;
        let pos = rng.below(groups[gi].len() as u64 + 1) as usize;
        groups[gi].insert(pos, Msg::Shutdown);
    }
    if groups.iter().flatten().all(|m| m.write().is_none()) {
        *next_id += 1;
        groups[0].insert(0, Msg::Durable(mk_write(*next_id, 1, vlen)));
    }
    let esz = 16 + groups.iter().flatten().find_map(|m| m.write()).unwrap().data.len();
    // faults among the I/O calls (an upper bound of the number of calls: 4 per write)
    let total: usize = groups.iter().map(|g| g.len()).sum::<usize>() * 4 + 2;
    let nf = match rng.below(10) {
        0..=2 => 0,
        3..=6 => 1,
        7..=8 => 2,
        _ => 3,
    };
    let mut faults: Vec<(usize, Outcome)> = Vec::new();
    for _ in 0..nf {
        let i = rng.below(total as u64) as usize;
        if faults.iter().any(|(j, _)| *j == i) {
            continue;
        }
        let o = match rng.below(4) {
            0 => Outcome::Fail,
            1 => Outcome::Full,
            2 => Outcome::Torn(rng.below(esz as u64 + 2) as usize),
            _ => Outcome::Fail,
        };
        faults.push((i, o));
    }
    faults.sort_by_key(|f| f.0);
    (groups, faults, total)
}

fn gen_workload(rng: &mut Rng, next_id: &mut u64) -> Workload {
    let vlen = rng.range(1, 3) as usize;
    let vary = rng.chance(1, 3); // entries of different sizes: rotation points move inside batches
    // 1..3 actor incarnations over one store, each ended by a clean shutdown or a machine crash
    // (possibly with the machine dying at some call: from there on every I/O call fails)
    let k = match rng.below(10) {
        0..=4 => 1,
        5..=8 => 2,
        _ => 3,
    };
    let pol = match rng.below(10) {
        0..=4 => Pol::Always,
        5..=7 => Pol::EverySec,
        _ => Pol::No,
    };
    let mut incs = Vec::new();
    for n in 0..k {
        let (groups, faults, total) = gen_inc(rng, next_id, vlen, vary, pol == Pol::Always);
        let ending = if n + 1 == k { Ending::End } else if rng.chance(1, 2) { Ending::Crash } else { Ending::Clean };
        let dead = if ending != Ending::Clean && rng.chance(1, 5) { Some(rng.below(total as u64) as usize) } else { None };
        let spawn_list_fails = n > 0 && rng.chance(1, 25);
        incs.push(Inc { faults, dead, groups, ending, spawn_list_fails });
    }
    let esz = 16 + incs[0].groups.iter().flatten().find_map(|m| m.write()).unwrap().data.len();
    // rotation thresholds: every entry its own file / header + k entries (+-1) / one file
    let max_size = match rng.below(8) {
        7 => *rng.pick(&[0usize, 1, 16]), // at or below the header size: every entry gets its own file
        0 => 17,
        1 => 16 + esz,
        2 => 16 + esz + 1,
        3 => 16 + 2 * esz,
        4 => 16 + 2 * esz + 1,
        5 => 16 + 3 * esz,
        _ => 1 << 20,
    };
    let max_entries = *rng.pick(&[0usize, 1, 2, 3, 8, 64]);
    let mut wl = Workload { pol, cfg_via_json: rng.chance(1, 4), max_wait_us: *rng.pick(&[0u64, 200, 200, 5000]), no_yield: false, max_size, max_entries, incs };
    // a group-commit wait around / beyond the callers' 5 s ack timeout (config corner: nothing bounds it)
    if pol == Pol::Always && rng.chance(1, 8) {
        wl.max_wait_us = *rng.pick(&LONG_WAITS_US);
        if rng.chance(1, 2) {
            wl.max_entries = *rng.pick(&[2usize, 3, 8, 64]);
        }
    }
    wl
}


/// LENGTH-WIDTH BOUNDARIES (a capacity threshold nobody configured): durable writes whose payload is just beyond
/// 2^16 and just beyond 2^24 bytes, followed by small ones in the same file.  Judged directly on the real actor
/// (the model is not handed 16 MiB op lines): every `Ok` ack is in recovery of every crash image from the ack
/// on, and the composed oracle holds on every image.
fn wide_payload_workloads(out: &mut Out, next_id: &mut u64) {
    for len in [(1usize << 16) + 1, (1usize << 24) + 1] {
        let big = mk_write(*next_id + 1, 100, len);
        let s1 = mk_write(*next_id + 2, 200, 1);
        let s2 = mk_write(*next_id + 3, 300, 1);
        *next_id += 3;
        let mut wl = Workload::single(1 << 30, 8, vec![], vec![vec![Msg::Durable(big)], vec![Msg::Durable(s1), Msg::Durable(s2)]]);
        wl.max_wait_us = 200;
        let r = run_real(&wl);
        let by_data: HashMap<(Vec<u8>, u64), u64> = wl.writes().iter().map(|w| ((w.data.clone(), w.ts), w.id)).collect();
        let recc: Vec<(Vec<String>, Option<(&'static str, String)>)> = r.images.iter().map(|img| recover_ids_checked(img, &by_data, wl.max_size)).collect();
        out.count(&format!("wide-payload:{}", len));
        if r.actor_panicked {
            out.violation("C09:actor-panicked", "the WAL actor task panicked on a wide payload", json!({"payload_len": len}));
        }
        if let Some((t, sig, msg)) = recc.iter().enumerate().find_map(|(t, (_, c))| c.as_ref().map(|(s, m)| (t, *s, m.clone()))) {
            out.violation(sig, &format!("wide payload ({} bytes), crash image at I/O index {}: {}", len, t, msg), json!({"payload_len": len, "crash_index": t}));
        }
        for (id, a, seen_at) in &r.acks {
            if *a != "ok" {
                out.violation("C09:wide-payload:not-acknowledged", &format!("a durable write on a fault-free store was answered {}", a), json!({"payload_len": len, "id": id}));
                continue;
            }
            for t in *seen_at..recc.len() {
                if !recc[t].0.contains(&id.to_string()) {
                    out.violation(
                        "C09:ack-ok-lost:wide-payload",
                        &format!("write {} (batch with a {}-byte payload in the same file) was acknowledged Ok but is missing from WAL recovery after a crash at I/O index {}", id, len, t),
                        json!({"payload_len": len, "lost_id": id, "crash_index": t, "acks": r.acks.iter().map(|(i, a, _)| format!("{}={}", i, a)).collect::<Vec<_>>(), "trace": r.trace, "recovered_at_crash": recc[t].0}),
                    );
                    break;
                }
            }
        }
    }
}

fn show_config(c: &WalConfig) -> String {
    format!(
        "enabled={} policy={} max_file_size={} max_entries={} max_wait_us={} trunc_interval_ms={}",
        c.enabled as u8,
        match c.fsync_policy { FsyncPolicy::Always => "a", FsyncPolicy::EverySecond => "e", FsyncPolicy::No => "n" },
        c.max_file_size,
        c.group_commit_max_entries,
        c.group_commit_max_wait.as_micros(),
        c.truncation_check_interval.as_millis()
    )
}

/// the configuration constructors and the serde spelling of the policies against the model's table
fn config_ops(out: &mut Out) {
    let dir = std::path::PathBuf::from("/nonexistent");
    for (name, c) in [("default", WalConfig::default()), ("test", WalConfig::test()), ("always_fsync", WalConfig::always_fsync(dir.clone())), ("every_second", WalConfig::every_second(dir.clone()))] {
        out.op(format!("CFG {}", name), show_config(&c));
        // through serde_json and back: every field survives (duration_micros / duration_millis helpers)
        let back: Result<WalConfig, _> = serde_json::to_string(&c).and_then(|j| serde_json::from_str(&j));
        match back {
            Ok(b) if show_config(&b) == show_config(&c) && b.wal_dir == c.wal_dir => out.count("config:serde-roundtrip:ok"),
            _ => out.violation("C09:config:serde-roundtrip", "a WalConfig did not survive serde_json", json!({"constructor": name})),
        }
    }
    if FsyncPolicy::default() != WalConfig::default().fsync_policy {
        out.violation("C09:config:default-policy-mismatch", "FsyncPolicy::default() differs from WalConfig::default().fsync_policy", json!({}));
    }
    for n in ["Always", "EverySecond", "No", "always", "Never", "Periodic", ""] {
        let r: Result<FsyncPolicy, _> = serde_json::from_str(&format!("\"{}\"", n));
        out.op(
            format!("CFGP {}", if n.is_empty() { "_" } else { n }),
            match r { Ok(FsyncPolicy::Always) => "a".into(), Ok(FsyncPolicy::EverySecond) => "e".into(), Ok(FsyncPolicy::No) => "n".into(), Err(_) => "err".into() },
        );
    }
}

/// PRODUCTION PATH: a real `ReplicatedShardedState` (16 shard actors) with `set_wal_handle`: every
/// command that ships a delta reaches the WAL through `execute` — `write_durable` in Always mode (the
/// reply waits for the group fsync; a WAL error is only logged), `write_fire_and_forget` otherwise.
/// Commands are issued one after the other; the deltas are captured through the delta sink; the
/// store's call trace and the recovered set at every crash index are compared with the model (acks are
/// not observable on this path: op `GQ`).  Oracle (Always, fault-free prefix): when `execute` returns,
/// the delta it shipped is recoverable.
fn production_path(out: &mut Out, rng: &mut Rng, pol: Pol, next_id: &mut u64) {
    use redis_sim::production::ReplicatedShardedState;
    use redis_sim::redis::Command;
    use redis_sim::replication::ReplicationConfig;
    use redis_sim::streaming::delta_sink::delta_sink_channel;
    let max_size = *rng.pick(&[17usize, 120, 400, 1 << 20]);
    let max_entries = *rng.pick(&[1usize, 8, 64]);
    let nf = rng.below(3) as usize;
    let ncmds = rng.range(3, 10) as usize;
    let mut faults: Vec<(usize, Outcome)> = Vec::new();
    for _ in 0..nf {
        let i = rng.below((ncmds * 4 + 2) as u64) as usize;
        if faults.iter().all(|(j, _)| *j != i) {
            faults.push((i, match rng.below(3) { 0 => Outcome::Fail, 1 => Outcome::Full, _ => Outcome::Torn(rng.below(40) as usize) }));
        }
    }
    faults.sort_by_key(|f| f.0);
    let wl0 = Workload { pol, cfg_via_json: rng.chance(1, 3), max_wait_us: 200, no_yield: false, max_size, max_entries, incs: vec![] };
    let cfg = make_config(&wl0);
    let store = FaultStore::new(HashMap::new());
    store.arm(&faults, None);
    let keys = ["pk1", "pk2", "pk:é", "pk4"];
    let mut cmds: Vec<Command> = Vec::new();
    for _ in 0..ncmds {
        let k = rng.pick(&keys).to_string();
        cmds.push(match rng.below(8) {
            0..=2 => Command::set(k, SDS::new((0..rng.range(0, 6)).map(|_| rng.below(256) as u8).collect())),
            3 => Command::del(k),
            4 => Command::HSet(format!("h{}", k), vec![(SDS::from_str("f"), SDS::new(vec![rng.below(256) as u8]))]),
            5 => Command::Incr(format!("n{}", k)),
            6 => Command::Get(k), // ships nothing
            _ => Command::Del(vec![k, "pk2".to_string()]), // multi-key DEL: one delta per existing key
        });
    }
    let rt = tokio::runtime::Builder::new_current_thread().enable_time().start_paused(true).build().unwrap();
    let st2 = store.clone();
    let cmds2 = cmds.clone();
    // (delta, number of I/O calls when execute returned) per shipped delta, in WAL order
    let shipped: Vec<(ReplicationDelta, usize)> = rt.block_on(async move {
        let (handle, task) = spawn_wal_actor(st2.clone(), cfg).expect("spawn actor");
        let mut st = ReplicatedShardedState::new(ReplicationConfig { replica_id: 1, ..ReplicationConfig::default() });
        let (tx, rx) = delta_sink_channel();
        st.set_delta_sink(tx);
        st.set_wal_handle(handle.clone());
        let mut shipped = Vec::new();
        for c in cmds2 {
            let _ = st.execute(c).await;
            // the instant the client has its reply
            let at = st2.calls();
            // fire-and-forget modes: let the actor take the message before the next command
            tokio::time::sleep(Duration::from_millis(10)).await;
            for d in rx.drain() {
                shipped.push((d, at));
            }
        }
        st.clear_wal_handle();
        drop(st);
        handle.shutdown().await;
        drop(handle);
        let _ = task.await;
        shipped
    });
    // the model's workload: one message per shipped delta, each its own burst
    let mut groups: Vec<Vec<Msg>> = Vec::new();
    let mut seen: Vec<(u64, usize)> = Vec::new();
    for (d, at) in &shipped {
        *next_id += 1;
        let data = bincode::serialize(d).unwrap();
        let w = W { id: *next_id, ts: d.value.timestamp.time, delta: Arc::new(d.clone()), data };
        seen.push((w.id, *at));
        groups.push(vec![if pol == Pol::Always { Msg::Durable(w) } else { Msg::Forget(w) }]);
    }
    let wl = Workload { incs: vec![Inc { faults: faults.clone(), dead: None, groups, ending: Ending::End, spawn_list_fails: false }], ..wl0 };
    let s = store.inner.lock().unwrap();
    let by_data: HashMap<(Vec<u8>, u64), u64> = wl.writes().iter().map(|w| ((w.data.clone(), w.ts), w.id)).collect();
    let recc: Vec<(Vec<String>, Option<(&'static str, String)>)> = s.images.iter().map(|img| recover_ids_checked(img, &by_data, wl.max_size)).collect();
    if let Some((t, sig, msg)) = recc.iter().enumerate().find_map(|(t, (_, c))| c.as_ref().map(|(s, m)| (t, *s, m.clone()))) {
        // the composed oracle on the production path: every crash image decodes, deltas bit-identical to what shipped
        out.violation(sig, &format!("production path, crash image at I/O index {}: {}", t, msg), json!({"commands": cmds.iter().map(|c| format!("{:?}", c)).collect::<Vec<_>>(), "crash_index": t}));
    }
    let rec: Vec<Vec<String>> = recc.into_iter().map(|(v, _)| v).collect();
    let crash_s: Vec<String> = rec.iter().map(|v| v.join(" ")).collect();
    let line = op_line(&wl, &[0], &[false]).replacen(if pol == Pol::Always { "G " } else { "GP " }, if pol == Pol::Always { "GQ a " } else { "GQ " }, 1);
    out.op(line.clone(), format!("acks - | trace {} | crash {}", s.trace.join(" "), crash_s.join(" ; ")));
    out.count(&format!("production-path:{:?}", pol));
    out.count_n("production-path:deltas-shipped", shipped.len() as u64);
    out.case(&line, shipped.len() >= 2);
    let all_ok_until = s.trace.iter().position(|c| !c.ends_with(":ok") && !c.ends_with(":over")).unwrap_or(s.trace.len());
    if pol == Pol::Always {
        for (id, at) in &seen {
            // every call up to the moment execute returned succeeded: the reply was sent after a successful
            // group fsync, so the delta must be in every crash image from then on
            if *at <= all_ok_until {
                out.count("production-path:oracle-checked");
                for t in *at..rec.len().min(all_ok_until + 1) {
                    if !rec[t].contains(&id.to_string()) {
                        out.violation(
                            "C09:production-path:replied-before-durable",
                            &format!("ReplicatedShardedState::execute returned (Always policy, no I/O fault so far) but the delta it shipped is missing from WAL recovery after a crash at I/O index {}", t),
                            json!({"commands": cmds.iter().map(|c| format!("{:?}", c)).collect::<Vec<_>>(), "max_file_size": wl.max_size, "group_commit_max_entries": wl.max_entries, "delta_id": id, "returned_at_call": at, "crash_index": t, "trace": s.trace}),
                        );
                        break;
                    }
                }
            }
        }
    }
}

pub fn run(a: &Args) {
    let mut out = Out::new(&a.out);
    let mut rng = Rng::new(a.seed);
    #[allow(unused_assignments)]
    let mut next_id = 0u64;
    crate::walcov::report(&mut out, "C09");
    config_ops(&mut out);
    // fixed corpus (DESIGN.md §6.1; both were defects of the pinned tree, repaired by the `fix:` commit
    // "WAL rotator fsyncs a writer before dropping it": they must PASS now — the oracle below is
    // unconditional): one entry per file, one burst of 3 writers
    {
        let g: Vec<Msg> = (1..=3).map(|i| Msg::Durable(mk_write(i, i, 1))).collect();
        let wl = Workload::single(17, 8, vec![], vec![g]);
        let before = out.oracle.len();
        run_workload(&wl, &mut out, "corpus:batch-straddles-rotation");
        out.count(if out.oracle.len() == before { "corpus:batch-straddles-rotation:pass" } else { "corpus:batch-straddles-rotation:FAIL" });
        // an append error in the middle of a batch: the earlier entry of the batch is acked Ok
        // although its file is never fsynced (calls: create, header, entry 1, entry 2 <- fails)
        let g: Vec<Msg> = (4..=5).map(|i| Msg::Durable(mk_write(i, i, 1))).collect();
        let wl = Workload::single(1 << 20, 8, vec![(3, Outcome::Fail)], vec![g]);
        let before = out.oracle.len();
        run_workload(&wl, &mut out, "corpus:append-error-then-sync-ok");
        out.count(if out.oracle.len() == before { "corpus:append-error-then-sync-ok:pass" } else { "corpus:append-error-then-sync-ok:FAIL" });
        // a SyncTick between a mid-batch append fault and the group-commit flush (seeded change
        // "sync tick consumes the dropped-writer flag"): A appended, B's append fails (call 3), tick,
        // C goes to the next file, flush -> A must not be acknowledged Ok unless it is recoverable
        for fault in [Outcome::Fail, Outcome::Full, Outcome::Torn(7)] {
            let g = vec![Msg::Durable(mk_write(6, 6, 1)), Msg::Durable(mk_write(7, 7, 1)), Msg::Tick, Msg::Durable(mk_write(8, 8, 1))];
            let wl = Workload::single(1 << 20, 8, vec![(3, fault)], vec![g]);
            let before = out.oracle.len();
            run_workload(&wl, &mut out, "corpus:tick-between-append-fault-and-flush");
            out.count(if out.oracle.len() == before { "corpus:tick-between-append-fault-and-flush:pass" } else { "corpus:tick-between-append-fault-and-flush:FAIL" });
        }
        // every other public message in the same position
        for m in [Msg::Truncate(0), Msg::Truncate(u64::MAX - 1), Msg::Forget(mk_write(9, 9, 1))] {
            let g = vec![Msg::Durable(mk_write(10, 10, 1)), Msg::Durable(mk_write(11, 11, 1)), m, Msg::Durable(mk_write(12, 12, 1))];
            let wl = Workload::single(1 << 20, 8, vec![(3, Outcome::Fail)], vec![g]);
            run_workload(&wl, &mut out, "corpus:message-between-append-fault-and-flush");
        }
        // seeded change "rotate reuses the highest sequence after a restart": incarnation 1 acknowledges
        // ten writes and shuts down cleanly (or crashes), incarnation 2 over the same store acknowledges
        // two more, crash -> all twelve must be recovered.  One big file, and 200-byte files.
        for max_size in [1usize << 20, 200] {
            for first_end in [Ending::Clean, Ending::Crash] {
                let g1: Vec<Msg> = (13..=17).map(|i| Msg::Durable(mk_write(i, i - 12, 1))).collect();
                let g2: Vec<Msg> = (18..=22).map(|i| Msg::Durable(mk_write(i, i - 12, 1))).collect();
                let g3: Vec<Msg> = (23..=24).map(|i| Msg::Durable(mk_write(i, i - 12, 1))).collect();
                let wl = Workload {
                    pol: Pol::Always,
                    cfg_via_json: false,
                    max_wait_us: 200,
                    no_yield: false,
                    max_size,
                    max_entries: 8,
                    incs: vec![
                        Inc { faults: vec![], dead: None, groups: vec![g1, g2], ending: first_end, spawn_list_fails: false },
                        Inc { faults: vec![], dead: None, groups: vec![g3], ending: Ending::Crash, spawn_list_fails: false },
                    ],
                };
                let before = out.oracle.len();
                run_workload(&wl, &mut out, "corpus:second-incarnation-over-the-store-of-the-first");
                out.count(if out.oracle.len() == before { "corpus:second-incarnation:pass" } else { "corpus:second-incarnation:FAIL" });
            }
        }
        next_id = 24;
        // the other policies (witnesses of Props/C09Policy.lean on the real actor): one write answered Ok,
        // crash before any tick -> nothing recovered (EverySecond, No); write + tick; a failed tick fsync
        // followed by more ticks (not retried); a rotation in No mode
        let one = |pol: Pol, max_size: usize, faults: Vec<(usize, Outcome)>, groups: Vec<Vec<Msg>>, ending: Ending| Workload {
            pol, cfg_via_json: false, max_wait_us: 200, no_yield: false, max_size, max_entries: 8,
            incs: vec![Inc { faults, dead: None, groups, ending, spawn_list_fails: false }, Inc { faults: vec![], dead: None, groups: vec![vec![Msg::Tick]], ending: Ending::End, spawn_list_fails: false }],
        };
        for pol in [Pol::EverySec, Pol::No] {
            run_workload(&one(pol, 1000, vec![], vec![vec![Msg::Durable(mk_write(25, 1, 1))]], Ending::Crash), &mut out, "corpus:policy:ack-then-crash-before-tick");
            run_workload(&one(pol, 1000, vec![], vec![vec![Msg::Durable(mk_write(26, 1, 1))], vec![Msg::Tick]], Ending::Crash), &mut out, "corpus:policy:ack-tick-crash");
            run_workload(&one(pol, 1000, vec![(3, Outcome::Fail)], vec![vec![Msg::Durable(mk_write(27, 1, 1))], vec![Msg::Tick], vec![Msg::Tick], vec![Msg::Tick]], Ending::Crash), &mut out, "corpus:policy:failed-tick-not-retried");
            run_workload(&one(pol, 17, vec![], vec![vec![Msg::Durable(mk_write(28, 1, 1)), Msg::Durable(mk_write(29, 2, 1))]], Ending::Crash), &mut out, "corpus:policy:rotation-syncs-the-closed-file");
        }
        next_id = 29;
        // where the loop takes a Shutdown (top / group-commit wait / drain) depends on the messages before it:
        // after a full batch the next message is taken at the TOP; a message that appends nothing (tick,
        // truncation, failed list) sends the loop into the DRAIN phase, a successful write into the WAIT
        for lead in [Msg::Tick, Msg::Truncate(0), Msg::TruncateListFails(5), Msg::Forget(mk_write(30, 1, 1))] {
            for max_entries in [1usize, 2, 8] {
                let mut g = vec![Msg::Durable(mk_write(next_id + 1, 1, 1)), Msg::Durable(mk_write(next_id + 2, 2, 1)), lead.clone(),
                    Msg::Durable(mk_write(next_id + 3, 3, 1)), Msg::Shutdown, Msg::Durable(mk_write(next_id + 4, 4, 1))];
                next_id += 4;
                if max_entries == 8 {
                    g.remove(0);
                }
                let wl = Workload { pol: Pol::Always, cfg_via_json: false, max_wait_us: 200, no_yield: false, max_size: 200, max_entries,
                    incs: vec![Inc { faults: vec![], dead: None, groups: vec![g, vec![Msg::Durable(mk_write(next_id + 1, 9, 1))]], ending: Ending::End, spawn_list_fails: false }] };
                next_id += 1;
                run_workload(&wl, &mut out, "corpus:shutdown-after-a-message-that-appends-nothing");
            }
        }
        // more concurrent writers than the mailbox holds (WAL_CHANNEL_CAPACITY) and than one batch may
        // hold (default group_commit_max_entries = 64): senders block and are served in order, the batches
        // are cut at 64
        {
            let n = crate::walcov::SRC_WAL_CHANNEL_CAPACITY as u64 + 44;
            let g: Vec<Msg> = (0..n).map(|i| Msg::Durable(mk_write(next_id + 1 + i, i % 50, 1))).collect();
            next_id += n;
            let wl = Workload { pol: Pol::Always, cfg_via_json: false, max_wait_us: 200, no_yield: false, max_size: 4096, max_entries: WalConfig::default().group_commit_max_entries,
                incs: vec![Inc { faults: vec![(900, Outcome::Fail)], dead: None, groups: vec![g], ending: Ending::End, spawn_list_fails: false }] };
            let before = out.oracle.len();
            run_workload(&wl, &mut out, "corpus:more-writers-than-the-mailbox");
            out.count(if out.oracle.len() == before { "corpus:more-writers-than-the-mailbox:pass" } else { "corpus:more-writers-than-the-mailbox:FAIL" });
            // one caller sends capacity + 44 fire-and-forget writes without yielding: the excess is dropped
            for pol in [Pol::No, Pol::EverySec, Pol::Always] {
                let mut g: Vec<Msg> = (0..n).map(|i| Msg::Forget(mk_write(next_id + 1 + i, i % 50, 1))).collect();
                g.insert(100, Msg::Tick);
                next_id += n;
                let wl = Workload { pol, cfg_via_json: false, max_wait_us: 200, no_yield: true, max_size: 4096, max_entries: 64,
                    incs: vec![Inc { faults: vec![], dead: None, groups: vec![g], ending: Ending::End, spawn_list_fails: false }] };
                run_workload(&wl, &mut out, "corpus:one-caller-floods-the-mailbox");
            }
        }
    }
    // the callers' 5 s ack timeout (Props/C09Timeout.lean) on the real actor, virtual clock: a group-commit wait
    // just below 5 s -> the callers hear the ack; just above / far above -> "WAL write timed out" while the
    // actor flushes later (the entry is durable: a write reported failed may survive); a batch cut by
    // max_entries or a Shutdown is answered at once whatever the wait
    {
        let before_t = TIMEOUTS_SEEN.load(std::sync::atomic::Ordering::Relaxed);
        for (wait, max_entries) in [(4_998_000u64, 8usize), (5_002_000, 8), (10_000_000, 8), (10_000_000, 2), (60_000_000, 64)] {
            let g1 = vec![Msg::Durable(mk_write(next_id + 1, 1, 1)), Msg::Durable(mk_write(next_id + 2, 2, 1)), Msg::Durable(mk_write(next_id + 3, 3, 1))];
            let g2 = vec![Msg::Durable(mk_write(next_id + 4, 4, 1)), Msg::Shutdown];
            next_id += 4;
            let wl = Workload { pol: Pol::Always, cfg_via_json: false, max_wait_us: wait, no_yield: false, max_size: 200, max_entries,
                incs: vec![Inc { faults: vec![], dead: None, groups: vec![g1], ending: Ending::Clean, spawn_list_fails: false },
                           Inc { faults: vec![], dead: None, groups: vec![g2], ending: Ending::End, spawn_list_fails: false }] };
            run_workload(&wl, &mut out, "corpus:ack-timeout");
        }
        if TIMEOUTS_SEEN.load(std::sync::atomic::Ordering::Relaxed) == before_t {
            out.violation("C09:coverage:ack-timeout-not-driven", "no write_durable caller ran into its 5 s ack timeout on the corpus workloads with group_commit_max_wait > 5 s", json!({}));
        }
    }
    wide_payload_workloads(&mut out, &mut next_id);
    for i in 0..(a.n / 25).max(12) {
        let pol = [Pol::Always, Pol::Always, Pol::EverySec, Pol::No][(i % 4) as usize];
        production_path(&mut out, &mut rng, pol, &mut next_id);
    }

    for _ in 0..a.n {
        let wl = gen_workload(&mut rng, &mut next_id);
        run_workload(&wl, &mut out, "generated");
    }
    out.finish("case = (rotation threshold, group_commit_max_entries, fault placement among the I/O calls, bursts of concurrent write_durable callers) run on the real actor + rotator over a recording/fault-injecting WalStore; acks, call trace and the recovered set at EVERY crash index compared with the model; distinct by the whole workload; non-trivial iff >= 2 writes and >= 1 file");
}
