//! C09 — always-fsync WAL: a write reported durable survives a crash at any instant.
//! The REAL `spawn_wal_actor` (group commit) + REAL `WalRotator` run on a harness-side
//! `WalStore` that records every create/append/sync call, injects the generated fault at the
//! generated call index and keeps, after every call, the crash image (each file cut to what a
//! successful fsync covered).  Concurrent `write_durable` callers arrive in generated bursts on
//! a single-threaded tokio runtime with paused time (so batch boundaries are reproducible);
//! thresholds are chosen so batches straddle rotations.
//! Correspondence: acks, call trace and the recovered set at EVERY crash index vs the model.
//! Oracle: an `Ok` ack whose entry is missing from `recover_all_entries` of some crash image
//! taken after the caller saw the ack.
use crate::c10::parse_seq;
use crate::enc::hex;
use crate::out::Out;
use crate::rng::Rng;
use crate::Args;
use redis_sim::redis::SDS;
use redis_sim::replication::lattice::{LamportClock, ReplicaId};
use redis_sim::replication::state::{ReplicatedValue, ReplicationDelta};
use redis_sim::streaming::wal_store::{InMemoryWalStore, WalError, WalFileReader, WalFileWriter, WalStore};
use redis_sim::streaming::{spawn_wal_actor, FsyncPolicy, WalConfig, WalEntry, WalRotator};
use serde_json::json;
use std::collections::{BTreeMap, HashMap};
use std::sync::{Arc, Mutex};
use std::time::Duration;

use crate::cfg::{CODE_RESTART_REUSES_SEQ, CODE_SYNCS_BEFORE_DROP, CODE_TICK_SYNCS, CODE_WAL_FORMAT};

#[derive(Clone, Debug, PartialEq)]
pub enum Outcome {
    Ok,
    Fail,
    Full,
    Torn(usize),
}

impl Outcome {
    fn show(&self) -> String {
        match self {
            Outcome::Ok => "ok".into(),
            Outcome::Fail => "fail".into(),
            Outcome::Full => "full".into(),
            Outcome::Torn(k) => format!("torn:{}", k),
        }
    }
}

#[derive(Default)]
struct Inner {
    files: BTreeMap<String, (Vec<u8>, usize)>, // data, synced length
    faults: HashMap<usize, Outcome>,
    /// from this (global) call index on every call fails: the machine is dying
    dead_from: Option<usize>,
    trace: Vec<String>,
    /// crash image after every call (index 0 = before the first call)
    images: Vec<Vec<(String, Vec<u8>)>>,
}

impl Inner {
    fn next(&mut self) -> Outcome {
        let i = self.trace.len();
        if self.dead_from.map(|d| i >= d).unwrap_or(false) {
            return Outcome::Fail;
        }
        self.faults.get(&i).cloned().unwrap_or(Outcome::Ok)
    }
    fn record(&mut self, call: String) {
        self.trace.push(call);
        let img = self.files.iter().map(|(n, (d, s))| (n.clone(), d[..*s].to_vec())).collect();
        self.images.push(img);
    }
}

#[derive(Clone)]
pub struct FaultStore {
    inner: Arc<Mutex<Inner>>,
}

impl FaultStore {
    fn new(faults: HashMap<usize, Outcome>) -> Self {
        let mut i = Inner::default();
        i.faults = faults;
        i.images.push(Vec::new());
        FaultStore { inner: Arc::new(Mutex::new(i)) }
    }
    pub fn calls(&self) -> usize {
        self.inner.lock().unwrap().trace.len()
    }
    /// start of an incarnation: its faults / death point are given relative to its first call
    fn arm(&self, faults: &[(usize, Outcome)], dead: Option<usize>) -> usize {
        let mut s = self.inner.lock().unwrap();
        let base = s.trace.len();
        s.faults = faults.iter().map(|(i, o)| (base + i, o.clone())).collect();
        s.dead_from = dead.map(|d| base + d);
        base
    }
    /// the machine crashes: every file keeps exactly what a successful fsync covered
    fn crash(&self) {
        let mut s = self.inner.lock().unwrap();
        for (_, (d, syn)) in s.files.iter_mut() {
            d.truncate(*syn);
            *syn = d.len();
        }
        s.dead_from = None;
        s.record("crash".to_string());
    }
}

pub struct FaultWriter {
    name: String,
    seq: u64,
    inner: Arc<Mutex<Inner>>,
    size: u64,
}

fn io_err(what: &str) -> WalError {
    WalError::Io(std::io::Error::new(std::io::ErrorKind::Other, what.to_string()))
}

impl WalFileWriter for FaultWriter {
    fn append(&mut self, data: &[u8]) -> Result<u64, WalError> {
        let mut s = self.inner.lock().unwrap();
        let o = s.next();
        let res = match &o {
            Outcome::Ok => {
                let f = s.files.get_mut(&self.name).expect("file exists");
                f.0.extend_from_slice(data);
                self.size = f.0.len() as u64;
                Ok(self.size)
            }
            Outcome::Fail => Err(io_err("injected write failure")),
            Outcome::Full => Err(WalError::DiskFull),
            Outcome::Torn(k) => {
                let k = (*k).min(data.len());
                let f = s.files.get_mut(&self.name).expect("file exists");
                f.0.extend_from_slice(&data[..k]);
                Err(WalError::PartialWrite { expected: data.len(), actual: k })
            }
        };
        s.record(format!("a{}:{}:{}", self.seq, data.len(), o.show()));
        res
    }
    fn sync(&mut self) -> Result<(), WalError> {
        let mut s = self.inner.lock().unwrap();
        let o = s.next();
        let ok = o == Outcome::Ok;
        if ok {
            let f = s.files.get_mut(&self.name).expect("file exists");
            f.1 = f.0.len();
        }
        s.record(format!("s{}:{}", self.seq, if ok { "ok" } else { "err" }));
        if ok {
            Ok(())
        } else {
            Err(WalError::FsyncFailed("injected fsync failure".into()))
        }
    }
    fn size(&self) -> u64 {
        self.size
    }
}

pub struct FaultReader {
    data: Vec<u8>,
}

impl WalFileReader for FaultReader {
    fn read_all(&mut self) -> Result<Vec<u8>, WalError> {
        Ok(self.data.clone())
    }
}

impl WalStore for FaultStore {
    type Writer = FaultWriter;
    type Reader = FaultReader;
    fn create(&self, name: &str) -> Result<Self::Writer, WalError> {
        let mut s = self.inner.lock().unwrap();
        let o = s.next();
        let seq = parse_seq(name).unwrap_or(u64::MAX);
        let ok = o == Outcome::Ok;
        let existed = s.files.contains_key(name);
        if ok {
            s.files.insert(name.to_string(), (Vec::new(), 0)); // create truncates
        }
        s.record(format!("c{}:{}{}", seq, if ok { "ok" } else { "err" }, if existed { ":over" } else { "" }));
        match o {
            Outcome::Ok => Ok(FaultWriter { name: name.to_string(), seq, inner: Arc::clone(&self.inner), size: 0 }),
            Outcome::Full => Err(WalError::DiskFull),
            _ => Err(io_err("injected create failure")),
        }
    }
    fn open_read(&self, name: &str) -> Result<Self::Reader, WalError> {
        let s = self.inner.lock().unwrap();
        s.files.get(name).map(|f| FaultReader { data: f.0.clone() }).ok_or_else(|| WalError::NotFound(name.to_string()))
    }
    fn list(&self) -> Result<Vec<String>, WalError> {
        Ok(self.inner.lock().unwrap().files.keys().cloned().collect())
    }
    fn delete(&self, name: &str) -> Result<(), WalError> {
        let mut s = self.inner.lock().unwrap();
        let o = s.next();
        let ok = o == Outcome::Ok;
        if ok {
            s.files.remove(name);
        }
        s.record(format!("d{}:{}", parse_seq(name).unwrap_or(u64::MAX), if ok { "ok" } else { "err" }));
        if ok {
            Ok(())
        } else {
            Err(io_err("injected delete failure"))
        }
    }
    fn exists(&self, name: &str) -> Result<bool, WalError> {
        Ok(self.inner.lock().unwrap().files.contains_key(name))
    }
}

#[derive(Clone)]
struct W {
    id: u64,
    ts: u64,
    delta: Arc<ReplicationDelta>,
    data: Vec<u8>,
}

/// every public message of `WalActorHandle`
#[derive(Clone)]
enum Msg {
    Durable(W),    // write_durable
    Forget(W),     // write_fire_and_forget
    Tick,          // sync_tick
    Truncate(u64), // truncate
}

impl Msg {
    fn kind(&self) -> &'static str {
        match self {
            Msg::Durable(_) => "write_durable",
            Msg::Forget(_) => "write_fire_and_forget",
            Msg::Tick => "sync_tick",
            Msg::Truncate(_) => "truncate",
        }
    }
    fn write(&self) -> Option<&W> {
        match self {
            Msg::Durable(w) | Msg::Forget(w) => Some(w),
            _ => None,
        }
    }
}

#[derive(Clone, Copy, PartialEq)]
enum Ending {
    Crash, // machine crash, then a new actor over what is left
    Clean, // shutdown(), then a new actor over the same store
    End,   // last incarnation
}

/// one actor / rotator lifetime over the shared store
struct Inc {
    faults: Vec<(usize, Outcome)>, // call indices relative to the incarnation's first call
    dead: Option<usize>,           // relative: every call from here on fails
    groups: Vec<Vec<Msg>>,
    ending: Ending,
}

struct Workload {
    max_size: usize,
    max_entries: usize,
    incs: Vec<Inc>,
}

impl Workload {
    fn single(max_size: usize, max_entries: usize, faults: Vec<(usize, Outcome)>, groups: Vec<Vec<Msg>>) -> Workload {
        Workload { max_size, max_entries, incs: vec![Inc { faults, dead: None, groups, ending: Ending::End }] }
    }
    fn msgs(&self) -> impl Iterator<Item = &Msg> {
        self.incs.iter().flat_map(|i| i.groups.iter().flatten())
    }
    fn writes(&self) -> Vec<&W> {
        self.msgs().filter_map(|m| m.write()).collect()
    }
    fn durable(&self) -> Vec<&W> {
        self.msgs().filter_map(|m| if let Msg::Durable(w) = m { Some(w) } else { None }).collect()
    }
    fn max_truncate(&self) -> Option<u64> {
        self.msgs().filter_map(|m| if let Msg::Truncate(t) = m { Some(*t) } else { None }).max()
    }
}

fn mk_write(id: u64, ts: u64, vlen: usize) -> W {
    let rid = ReplicaId::new(1);
    let v = ReplicatedValue::with_value(SDS::new(vec![b'a' + (id % 26) as u8; vlen]), LamportClock { time: ts, replica_id: rid });
    let delta = ReplicationDelta::new(format!("w{}", id), v, rid);
    let data = bincode::serialize(&delta).unwrap();
    W { id, ts, delta: Arc::new(delta), data }
}

fn ack_name(r: &Result<(), WalError>) -> &'static str {
    match r {
        Ok(()) => "ok",
        Err(WalError::Io(_)) => "io",
        Err(WalError::DiskFull) => "full",
        Err(WalError::PartialWrite { .. }) => "torn",
        Err(WalError::FsyncFailed(_)) => "fsync",
        Err(_) => "other",
    }
}

struct RunResult {
    acks: Vec<(u64, &'static str, usize)>, // id, result, number of I/O calls when the caller saw it
    trace: Vec<String>,
    images: Vec<Vec<(String, Vec<u8>)>>,
    files: Vec<(String, Vec<u8>)>, // final full contents
    bases: Vec<usize>,             // global index of the first call of every incarnation
}

fn run_real(wl: &Workload) -> RunResult {
    let store = FaultStore::new(HashMap::new());
    let mut acks = Vec::new();
    let mut bases = Vec::new();
    for inc in &wl.incs {
        bases.push(store.arm(&inc.faults, inc.dead));
        let rt = tokio::runtime::Builder::new_current_thread().enable_time().start_paused(true).build().unwrap();
        let st2 = store.clone();
        let groups = inc.groups.clone();
        let cfg = WalConfig {
            enabled: true,
            wal_dir: std::path::PathBuf::from("/nonexistent"),
            fsync_policy: FsyncPolicy::Always,
            max_file_size: wl.max_size,
            group_commit_max_entries: wl.max_entries,
            group_commit_max_wait: Duration::from_micros(200),
            truncation_check_interval: Duration::from_secs(3600),
        };
        let mut got = rt.block_on(async move {
            // a NEW actor (and rotator: WalRotator::new scans the store) over the shared store
            let (handle, task) = spawn_wal_actor(st2.clone(), cfg).expect("spawn actor");
            let mut acks = Vec::new();
            for g in groups {
                // a burst of concurrent callers: tasks run in spawn order, so the messages reach the
                // mailbox in this order, all before the actor handles the first of them
                let mut js = Vec::new();
                for m in g {
                    let h = handle.clone();
                    let st3 = st2.clone();
                    js.push(tokio::spawn(async move {
                        match m {
                            Msg::Durable(w) => {
                                let r = h.write_durable(w.delta.clone(), w.ts).await;
                                Some((w.id, ack_name(&r), st3.calls()))
                            }
                            Msg::Forget(w) => {
                                h.write_fire_and_forget(w.delta.clone(), w.ts);
                                None
                            }
                            Msg::Tick => {
                                h.sync_tick();
                                None
                            }
                            Msg::Truncate(t) => {
                                h.truncate(t);
                                None
                            }
                        }
                    }));
                }
                for j in js {
                    if let Some(a) = j.await.expect("caller task") {
                        acks.push(a);
                    }
                }
                // callers that wait for nothing (tick, truncate, fire-and-forget) return at once: let the
                // actor finish this burst (incl. its group-commit wait) before the next one is sent.
                // The clock is paused, so this costs no real time.
                tokio::time::sleep(Duration::from_millis(10)).await;
            }
            // every burst ends flushed, so the final flush of shutdown() issues no I/O; it only
            // stops the actor (also before a crash)
            handle.shutdown().await;
            drop(handle); // the actor only stops when every sender is gone
            let _ = task.await;
            acks
        });
        acks.append(&mut got);
        if inc.ending == Ending::Crash {
            store.crash();
        }
    }
    let s = store.inner.lock().unwrap();
    RunResult { acks, trace: s.trace.clone(), images: s.images.clone(), files: s.files.iter().map(|(n, (d, _))| (n.clone(), d.clone())).collect(), bases }
}

/// recovery of a crash image through the real rotator
fn recover_ids(img: &[(String, Vec<u8>)], by_data: &HashMap<Vec<u8>, u64>, max: usize) -> Vec<String> {
    let st = InMemoryWalStore::new();
    for (n, b) in img {
        let mut w = st.create(n).unwrap();
        if !b.is_empty() {
            w.append(b).unwrap();
        }
    }
    let rot = WalRotator::new(st, max).unwrap();
    let es: Vec<WalEntry> = rot.recover_all_entries().unwrap();
    es.iter().map(|e| by_data.get(&e.data).map(|i| i.to_string()).unwrap_or("?".into())).collect()
}

fn op_line(wl: &Workload, bases: &[usize]) -> String {
    let mut s = format!("G {} {} {} {} {} {} K {}", CODE_SYNCS_BEFORE_DROP as u8, CODE_TICK_SYNCS as u8, CODE_WAL_FORMAT, CODE_RESTART_REUSES_SEQ as u8, wl.max_size, wl.max_entries, wl.incs.len());
    for (k, inc) in wl.incs.iter().enumerate() {
        let base = bases.get(k).cloned().unwrap_or(0);
        s.push_str(&format!(" F {}", inc.faults.len()));
        for (i, o) in &inc.faults {
            s.push_str(&format!(" {} {}", base + i, o.show()));
        }
        s.push_str(&format!(" D {}", inc.dead.map(|d| (base + d).to_string()).unwrap_or("-".into())));
        s.push_str(&format!(" W {}", inc.groups.len()));
        for g in &inc.groups {
            s.push_str(&format!(" {}", g.len()));
            for m in g {
                match m {
                    Msg::Durable(w) => s.push_str(&format!(" w {} {} {}", w.id, w.ts, hex(&w.data))),
                    Msg::Forget(w) => s.push_str(&format!(" f {} {} {}", w.id, w.ts, hex(&w.data))),
                    Msg::Tick => s.push_str(" t"),
                    Msg::Truncate(t) => s.push_str(&format!(" x {}", t)),
                }
            }
        }
        s.push_str(match inc.ending {
            Ending::Crash => " E c",
            Ending::Clean => " E s",
            Ending::End => " E e",
        });
    }
    s
}

fn run_workload(wl: &Workload, out: &mut Out, source: &str) {
    let r = run_real(wl);
    let by_data: HashMap<Vec<u8>, u64> = wl.writes().iter().map(|w| (w.data.clone(), w.id)).collect();
    let mut acks = r.acks.clone();
    acks.sort();
    let acks_s: Vec<String> = acks.iter().map(|(i, a, _)| format!("{}={}", i, a)).collect();
    let rec: Vec<Vec<String>> = r.images.iter().map(|img| recover_ids(img, &by_data, wl.max_size)).collect();
    let crash_s: Vec<String> = rec.iter().map(|v| v.join(" ")).collect();
    out.op(op_line(wl, &r.bases), format!("acks {} | trace {} | crash {}", acks_s.join(" "), r.trace.join(" "), crash_s.join(" ; ")));

    // distribution
    let nw: usize = wl.writes().len();
    // message kind x position in its burst, and whether it sits between a failed append and the flush
    out.count(&format!("incarnations:{}", wl.incs.len()));
    for inc in &wl.incs {
        out.count(match inc.ending { Ending::Crash => "incarnation-end:crash", Ending::Clean => "incarnation-end:clean-shutdown", Ending::End => "incarnation-end:last" });
        if inc.dead.is_some() {
            out.count("incarnation:machine-dies-mid-run");
        }
    }
    for g in wl.incs.iter().flat_map(|i| i.groups.iter()) {
        for (i, m) in g.iter().enumerate() {
            out.count(&format!("msg:{}:pos{}", m.kind(), i.min(4)));
        }
    }
    for c in r.trace.iter() {
        if c.starts_with('d') {
            out.count(if c.ends_with(":ok") { "calls:delete" } else { "failed-call:delete" });
        }
    }
    out.count(&format!("writes:{}", nw.min(12)));
    let all_faults: Vec<&(usize, Outcome)> = wl.incs.iter().flat_map(|i| i.faults.iter()).collect();
    out.count(&format!("faults:{}", all_faults.len().min(4)));
    for (_, o) in all_faults.iter().map(|f| (f.0, &f.1)) {
        out.count(&format!("fault-kind:{}", match o { Outcome::Ok => "ok", Outcome::Fail => "fail", Outcome::Full => "full", Outcome::Torn(_) => "torn" }));
    }
    for c in &r.trace {
        let k = if c.starts_with('c') { "create" } else if c.starts_with('a') { "append" } else if c.starts_with('d') { continue } else { "sync" };
        out.count_n(&format!("calls:{}", k), 1);
        if !c.ends_with(":ok") {
            out.count(&format!("failed-call:{}", k));
        }
    }
    out.count_n("crash-images", r.images.len() as u64);
    let creates = r.trace.iter().filter(|c| c.starts_with('c')).count();
    let syncs = r.trace.iter().filter(|c| c.starts_with('s')).count();
    if creates > syncs.max(1) {
        out.count("shape:more-files-than-syncs");
    }
    for (_, a, _) in &acks {
        out.count(&format!("ack:{}", a));
    }
    let canon = op_line(wl, &r.bases);
    out.case(&canon, nw >= 2 && creates >= 1);
    let replay = json!({
        "max_file_size": wl.max_size, "group_commit_max_entries": wl.max_entries,
        "incarnations": wl.incs.iter().enumerate().map(|(k, inc)| json!({
            "first_call_index": r.bases.get(k),
            "faults_at_call_index": inc.faults.iter().map(|(i, o)| format!("{}:{}", r.bases.get(k).cloned().unwrap_or(0) + i, o.show())).collect::<Vec<_>>(),
            "machine_dies_from_call_index": inc.dead.map(|d| r.bases.get(k).cloned().unwrap_or(0) + d),
            "bursts": inc.groups.iter().map(|g| g.iter().map(|m| match m {
                Msg::Durable(w) => format!("write_durable id {} ts {} key w{} ({} payload bytes)", w.id, w.ts, w.id, w.data.len()),
                Msg::Forget(w) => format!("write_fire_and_forget id {} ts {}", w.id, w.ts),
                Msg::Tick => "sync_tick".to_string(),
                Msg::Truncate(t) => format!("truncate({})", t),
            }).collect::<Vec<_>>()).collect::<Vec<_>>(),
            "ends_with": match inc.ending { Ending::Crash => "machine crash, then restart", Ending::Clean => "clean shutdown, then restart", Ending::End => "end of the history" },
        })).collect::<Vec<_>>(),
        "acks": acks_s, "trace": r.trace, "recovered_at_each_crash_index": crash_s, "source": source,
    });
    out.sample(replay.clone());

    check_create_over(out, &r.trace, &replay);
    // ORACLE: an Ok ack whose entry is missing from recovery of a crash image taken after the
    // caller saw the ack
    for (id, a, seen_at) in &acks {
        if *a != "ok" {
            continue;
        }
        let ids = id.to_string();
        // the caller itself asked the WAL to forget entries stamped <= T (truncate): exempt
        let wts = wl.durable().iter().find(|w| w.id == *id).map(|w| w.ts).unwrap_or(u64::MAX);
        if wl.max_truncate().map(|t| wts <= t).unwrap_or(false) {
            out.count("oracle-exempt:stamp-below-a-truncate-threshold");
            continue;
        }
        for t in *seen_at..rec.len() {
            if !rec[t].contains(&ids) {
                // why was the file holding it not covered?  look at what happened to its writer
                let w = *wl.durable().iter().find(|w| w.id == *id).unwrap();
                let file = r.files.iter().find(|(_, d)| d.windows(w.data.len()).any(|x| x == &w.data[..])).and_then(|(n, _)| parse_seq(n));
                let class = match file {
                    None => "other",
                    Some(q) => {
                        let failed_append = r.trace.iter().any(|c| c.starts_with(&format!("a{}:", q)) && !c.ends_with(":ok"));
                        let rotated = r.trace.iter().any(|c| c.starts_with('c') && c[1..].split(':').next().and_then(|x| x.parse::<u64>().ok()).map(|x| x > q).unwrap_or(false));
                        if failed_append {
                            "dropped-after-append-error"
                        } else if rotated {
                            "dropped-by-rotation"
                        } else {
                            "other"
                        }
                    }
                };
                out.violation(
                    &format!("C09:ack-ok-lost:{}", class),
                    &format!("write {} was acknowledged Ok but is missing from WAL recovery after a crash at I/O index {}", id, t),
                    json!({"workload": replay, "lost_id": id, "crash_index": t}),
                );
                break;
            }
        }
    }
}

/// a `create` over a name that already exists truncates that file (oracle, independent of acks)
fn check_create_over(out: &mut Out, trace: &[String], replay: &serde_json::Value) {
    if let Some((i, c)) = trace.iter().enumerate().find(|(_, c)| c.starts_with('c') && c.ends_with(":over")) {
        out.violation(
            "C09:create-overwrites-existing-file",
            &format!("I/O call {} ({}) created a WAL file under a name that already existed in the store: create() truncates it, destroying whatever an earlier incarnation had made durable there", i, c),
            json!({"workload": replay, "call_index": i, "call": c}),
        );
    }
}

/// one incarnation: bursts of messages + faults at call indices relative to its first call
fn gen_inc(rng: &mut Rng, next_id: &mut u64, vlen: usize, vary: bool) -> (Vec<Vec<Msg>>, Vec<(usize, Outcome)>, usize) {
    let ng = rng.range(1, 4) as usize;
    let mut groups: Vec<Vec<Msg>> = Vec::new();
    // which non-write messages this incarnation mixes in (every public message of WalActorHandle)
    let with_ticks = rng.chance(1, 2);
    let with_forget = rng.chance(1, 3);
    let with_truncate = rng.chance(1, 4);
    for _ in 0..ng {
        let n = rng.range(1, 5) as usize;
        let mut g = Vec::new();
        for _ in 0..n {
            let k = rng.below(10);
            if with_ticks && k < 2 {
                g.push(Msg::Tick);
            } else if with_truncate && k == 2 {
                g.push(Msg::Truncate(*rng.pick(&[0u64, 5, 20, 49, 50, u64::MAX - 1])));
            } else {
                *next_id += 1;
                let l = if vary { rng.range(0, 40) as usize } else { vlen };
                let w = mk_write(*next_id, if rng.chance(1, 10) { u64::MAX } else { rng.below(50) }, l);
                g.push(if with_forget && k == 3 { Msg::Forget(w) } else { Msg::Durable(w) });
            }
        }
        groups.push(g);
    }
    if groups.iter().flatten().all(|m| m.write().is_none()) {
        *next_id += 1;
        groups[0].insert(0, Msg::Durable(mk_write(*next_id, 1, vlen)));
    }
    let esz = 16 + groups.iter().flatten().find_map(|m| m.write()).unwrap().data.len();
    // faults among the I/O calls (an upper bound of the number of calls: 4 per write)
    let total: usize = groups.iter().map(|g| g.len()).sum::<usize>() * 4 + 2;
    let nf = match rng.below(10) {
        0..=2 => 0,
        3..=6 => 1,
        7..=8 => 2,
        _ => 3,
    };
    let mut faults: Vec<(usize, Outcome)> = Vec::new();
    for _ in 0..nf {
        let i = rng.below(total as u64) as usize;
        if faults.iter().any(|(j, _)| *j == i) {
            continue;
        }
        let o = match rng.below(4) {
            0 => Outcome::Fail,
            1 => Outcome::Full,
            2 => Outcome::Torn(rng.below(esz as u64 + 2) as usize),
            _ => Outcome::Fail,
        };
        faults.push((i, o));
    }
    faults.sort_by_key(|f| f.0);
    (groups, faults, total)
}

fn gen_workload(rng: &mut Rng, next_id: &mut u64) -> Workload {
    let vlen = rng.range(1, 3) as usize;
    let vary = rng.chance(1, 3); // entries of different sizes: rotation points move inside batches
    // 1..3 actor incarnations over one store, each ended by a clean shutdown or a machine crash
    // (possibly with the machine dying at some call: from there on every I/O call fails)
    let k = match rng.below(10) {
        0..=4 => 1,
        5..=8 => 2,
        _ => 3,
    };
    let mut incs = Vec::new();
    for n in 0..k {
        let (groups, faults, total) = gen_inc(rng, next_id, vlen, vary);
        let ending = if n + 1 == k { Ending::End } else if rng.chance(1, 2) { Ending::Crash } else { Ending::Clean };
        let dead = if ending != Ending::Clean && rng.chance(1, 5) { Some(rng.below(total as u64) as usize) } else { None };
        incs.push(Inc { faults, dead, groups, ending });
    }
    let esz = 16 + incs[0].groups.iter().flatten().find_map(|m| m.write()).unwrap().data.len();
    // rotation thresholds: every entry its own file / header + k entries (+-1) / one file
    let max_size = match rng.below(7) {
        0 => 17,
        1 => 16 + esz,
        2 => 16 + esz + 1,
        3 => 16 + 2 * esz,
        4 => 16 + 2 * esz + 1,
        5 => 16 + 3 * esz,
        _ => 1 << 20,
    };
    let max_entries = *rng.pick(&[1usize, 2, 3, 8]);
    Workload { max_size, max_entries, incs }
}

pub fn run(a: &Args) {
    let mut out = Out::new(&a.out);
    let mut rng = Rng::new(a.seed);
    let mut next_id = 0u64;
    // fixed corpus (DESIGN.md §6.1; both were defects of the pinned tree, repaired by the `fix:` commit
    // "WAL rotator fsyncs a writer before dropping it": they must PASS now — the oracle below is
    // unconditional): one entry per file, one burst of 3 writers
    {
        let g: Vec<Msg> = (1..=3).map(|i| Msg::Durable(mk_write(i, i, 1))).collect();
        let wl = Workload::single(17, 8, vec![], vec![g]);
        let before = out.oracle.len();
        run_workload(&wl, &mut out, "corpus:batch-straddles-rotation");
        out.count(if out.oracle.len() == before { "corpus:batch-straddles-rotation:pass" } else { "corpus:batch-straddles-rotation:FAIL" });
        // an append error in the middle of a batch: the earlier entry of the batch is acked Ok
        // although its file is never fsynced (calls: create, header, entry 1, entry 2 <- fails)
        let g: Vec<Msg> = (4..=5).map(|i| Msg::Durable(mk_write(i, i, 1))).collect();
        let wl = Workload::single(1 << 20, 8, vec![(3, Outcome::Fail)], vec![g]);
        let before = out.oracle.len();
        run_workload(&wl, &mut out, "corpus:append-error-then-sync-ok");
        out.count(if out.oracle.len() == before { "corpus:append-error-then-sync-ok:pass" } else { "corpus:append-error-then-sync-ok:FAIL" });
        // a SyncTick between a mid-batch append fault and the group-commit flush (seeded change
        // "sync tick consumes the dropped-writer flag"): A appended, B's append fails (call 3), tick,
        // C goes to the next file, flush -> A must not be acknowledged Ok unless it is recoverable
        for fault in [Outcome::Fail, Outcome::Full, Outcome::Torn(7)] {
            let g = vec![Msg::Durable(mk_write(6, 6, 1)), Msg::Durable(mk_write(7, 7, 1)), Msg::Tick, Msg::Durable(mk_write(8, 8, 1))];
            let wl = Workload::single(1 << 20, 8, vec![(3, fault)], vec![g]);
            let before = out.oracle.len();
            run_workload(&wl, &mut out, "corpus:tick-between-append-fault-and-flush");
            out.count(if out.oracle.len() == before { "corpus:tick-between-append-fault-and-flush:pass" } else { "corpus:tick-between-append-fault-and-flush:FAIL" });
        }
        // every other public message in the same position
        for m in [Msg::Truncate(0), Msg::Truncate(u64::MAX - 1), Msg::Forget(mk_write(9, 9, 1))] {
            let g = vec![Msg::Durable(mk_write(10, 10, 1)), Msg::Durable(mk_write(11, 11, 1)), m, Msg::Durable(mk_write(12, 12, 1))];
            let wl = Workload::single(1 << 20, 8, vec![(3, Outcome::Fail)], vec![g]);
            run_workload(&wl, &mut out, "corpus:message-between-append-fault-and-flush");
        }
        // seeded change "rotate reuses the highest sequence after a restart": incarnation 1 acknowledges
        // ten writes and shuts down cleanly (or crashes), incarnation 2 over the same store acknowledges
        // two more, crash -> all twelve must be recovered.  One big file, and 200-byte files.
        for max_size in [1usize << 20, 200] {
            for first_end in [Ending::Clean, Ending::Crash] {
                let g1: Vec<Msg> = (13..=17).map(|i| Msg::Durable(mk_write(i, i - 12, 1))).collect();
                let g2: Vec<Msg> = (18..=22).map(|i| Msg::Durable(mk_write(i, i - 12, 1))).collect();
                let g3: Vec<Msg> = (23..=24).map(|i| Msg::Durable(mk_write(i, i - 12, 1))).collect();
                let wl = Workload {
                    max_size,
                    max_entries: 8,
                    incs: vec![
                        Inc { faults: vec![], dead: None, groups: vec![g1, g2], ending: first_end },
                        Inc { faults: vec![], dead: None, groups: vec![g3], ending: Ending::Crash },
                    ],
                };
                let before = out.oracle.len();
                run_workload(&wl, &mut out, "corpus:second-incarnation-over-the-store-of-the-first");
                out.count(if out.oracle.len() == before { "corpus:second-incarnation:pass" } else { "corpus:second-incarnation:FAIL" });
            }
        }
        next_id = 24;
    }

    for _ in 0..a.n {
        let wl = gen_workload(&mut rng, &mut next_id);
        run_workload(&wl, &mut out, "generated");
    }
    out.finish("case = (rotation threshold, group_commit_max_entries, fault placement among the I/O calls, bursts of concurrent write_durable callers) run on the real actor + rotator over a recording/fault-injecting WalStore; acks, call trace and the recovered set at EVERY crash index compared with the model; distinct by the whole workload; non-trivial iff >= 2 writes and >= 1 file");
}
