//! C11 — the entry points next to `RecoveryManager::recover` and the production start-up sequence.
//!
//! * `recover_with_progress` (what `StreamingIntegration::recover` calls) against the model's `recover`
//!   (op RECP), with the phase / counter sequence of the progress callback checked directly;
//! * `needs_recovery`, `ManifestManager::{load_or_create, add_segment, update, exists}`,
//!   `Manifest::{segments_after, total_size_bytes, total_record_count}`;
//! * `CheckpointManager::{create_checkpoint, load_checkpoint, should_checkpoint}` (the comparisons of
//!   `should_checkpoint` get inputs just below / at / above);
//! * the PRODUCTION start-up sequence of `server_persistent.rs`: `StreamingIntegration::recover(&state)`,
//!   then the WAL entries through a second `apply_recovered_state(None, ..)` (op APPLY2).
use crate::c11::{chk_key, seg_key, show_man, show_recovered, show_upds, sorted_map, Real, Upd, PREFIX};
use crate::c12::FixedTime;
use crate::enc::{hex, MRv};
use crate::out::Out;
use crate::rng::Rng;
use redis_sim::production::ReplicatedShardedState;
use redis_sim::replication::lattice::ReplicaId;
use redis_sim::replication::state::{ReplicatedValue, ReplicationDelta};
use redis_sim::replication::{ConsistencyLevel, ReplicationConfig};
use redis_sim::streaming::{
    CheckpointConfig, CheckpointManager, Compression, ManifestManager, RecoveryManager, RecoveryPhase, SegmentInfo, SegmentWriter,
    StreamingConfig, StreamingIntegration, WalRotator,
};
use redis_sim::streaming::ObjectStore;
use serde_json::json;
use std::collections::HashMap;
use std::sync::Arc;
use std::time::Duration;

fn repl_config(rid: u64) -> ReplicationConfig {
    ReplicationConfig { enabled: false, replica_id: rid, consistency_level: ConsistencyLevel::Eventual, gossip_interval_ms: 100, peers: vec![], replication_factor: 3, partitioned_mode: false, selective_gossip: false, virtual_nodes_per_physical: 150 }
}

/// write a checkpoint through `CheckpointManager::create_checkpoint` (time source = its name) and
/// read it back through `load_checkpoint`; returns false if the manager could not be used
pub async fn chk_via_manager(out: &mut Out, real: &Real, name: u64, last: u64, state: &HashMap<String, ReplicatedValue>) -> bool {
    let mgr = CheckpointManager::with_time_source(
        Arc::new(real.store.clone()),
        PREFIX.to_string(),
        ManifestManager::new(real.store.clone(), PREFIX),
        CheckpointConfig { interval: Duration::from_secs(1), min_segments: 0, compression_enabled: crate::c12::compress_flag() },
        FixedTime(name),
    );
    match mgr.create_checkpoint(state.clone(), last).await {
        Err(e) => {
            out.violation("C11:checkpoint-manager:create-failed", &format!("CheckpointManager::create_checkpoint failed on an in-memory store: {}", e), json!(null));
            false
        }
        Ok(res) => {
            out.count("x11:checkpoint-via-manager");
            if res.key != chk_key(name) || res.last_segment_id != last || res.key_count != state.len() as u64 {
                out.violation("C11:checkpoint-manager:result-differs", "CheckpointManager::create_checkpoint reports another key / last_segment_id / key_count than it was given",
                    json!({"key": res.key, "expected_key": chk_key(name), "last": res.last_segment_id, "key_count": res.key_count}));
            }
            match mgr.load_checkpoint(&res.key).await {
                Ok(d) => {
                    if sorted_map(&d.state) != sorted_map(state) {
                        out.violation("C11:checkpoint-manager:load-differs", "load_checkpoint does not return the state create_checkpoint was given", json!({"key": res.key}));
                    }
                }
                Err(e) => out.violation("C11:checkpoint-manager:load-failed", &format!("load_checkpoint of a checkpoint just created failed: {}", e), json!({"key": res.key})),
            }
            true
        }
    }
}

pub async fn extras(out: &mut Out, rng: &mut Rng, real: &mut Real, ups: &[Upd]) {
    let rm = RecoveryManager::new(real.store.clone(), PREFIX, real.rid);
    // recover_with_progress == recover, and the callback tells a consistent story
    let mut phases: Vec<(RecoveryPhase, usize, usize, u64)> = Vec::new();
    let rp = rm.recover_with_progress(|p| phases.push((p.phase, p.segments_total, p.segments_loaded, p.deltas_replayed))).await;
    let plain = rm.recover().await;
    out.op("RECP".into(), show_recovered(&rp));
    real.text.push_str("RECP;");
    if show_recovered(&rp) != show_recovered(&plain) {
        out.violation("C11:recover-with-progress:differs-from-recover", "recover_with_progress returns something else than recover on the same store", json!({"layout": real.text, "progress": show_recovered(&rp), "plain": show_recovered(&plain)}));
    }
    if let Ok(rs) = &rp {
        let ok_first = phases.first().map(|p| p.0 == RecoveryPhase::LoadingManifest).unwrap_or(false);
        let ok_last = phases.last().map(|p| p.0 == RecoveryPhase::Complete && p.3 == rs.deltas.len() as u64 && p.2 == rs.stats.segments_loaded).unwrap_or(false);
        let monotone = phases.windows(2).all(|w| w[0].2 <= w[1].2 && w[0].3 <= w[1].3);
        if !(ok_first && ok_last && monotone) {
            out.violation("C11:recover-with-progress:inconsistent-progress", "the progress callback does not start with LoadingManifest, end with Complete carrying the final counters, or its counters go backwards", json!({"layout": real.text, "phases": format!("{:?}", phases)}));
        }
        if let (Ok(a), Ok(b)) = (&rp, &plain) {
            if (a.stats.segments_loaded, a.stats.deltas_replayed, a.stats.used_checkpoint, a.stats.segments_skipped) != (b.stats.segments_loaded, b.stats.deltas_replayed, b.stats.used_checkpoint, b.stats.segments_skipped) {
                out.violation("C11:recover-with-progress:stats-differ", "recover_with_progress and recover report different statistics", json!({"layout": real.text}));
            }
        }
    }
    match rm.needs_recovery().await {
        Ok(b) => out.op("NEEDSREC".into(), (b as u8).to_string()),
        Err(_) => out.op("NEEDSREC".into(), "err".into()),
    }
    match real.mm.load_or_create(real.rid).await {
        Ok(m) => out.op("MLOAD".into(), show_man(&m)),
        Err(_) => out.op("MLOAD".into(), "err".into()),
    }
    // Manifest::segments_after at the stamps of the listed segments (below / at / above)
    let mut ts: Vec<u64> = real.man.segments.iter().flat_map(|s| [s.max_timestamp.saturating_sub(1), s.max_timestamp, s.max_timestamp.saturating_add(1)]).collect();
    ts.push(0);
    let t = *rng.pick(&ts);
    let after: Vec<String> = real.man.segments_after(t).iter().map(|s| s.id.to_string()).collect();
    out.op(format!("MSEGAFTER {}", t), format!("[{}] bytes={} records={}", after.join(","), real.man.total_size_bytes(), real.man.total_record_count()));
    // should_checkpoint: min_segments around the listed count, the clock around timestamp + interval
    let k = real.man.segments.len() as u64;
    let min_segments = *rng.pick(&[0u64, k.saturating_sub(1), k, k + 1, 1 << 40]);
    let interval = match rng.below(6) {
        0 => Duration::ZERO,
        1 => Duration::from_millis(1),
        2 => Duration::from_millis(rng.range(2, 5000)),
        3 => Duration::from_nanos(rng.range(1, 9) * 1_000_000 + 500_000),
        4 => Duration::from_secs(18446744073709552), // 2^64 + 384 ms: `as_millis() as u64` wraps
        _ => Duration::MAX,
    };
    let base = real.man.checkpoint.as_ref().map(|c| c.timestamp_ms).unwrap_or(0);
    let iv64 = interval.as_millis() as u64;
    let now = match rng.below(5) {
        0 => base.saturating_add(iv64).saturating_sub(1),
        1 => base.saturating_add(iv64),
        2 => base.saturating_add(iv64).saturating_add(1),
        3 => base.saturating_sub(1),
        _ => rng.below(10_000),
    };
    let mgr = CheckpointManager::with_time_source(Arc::new(real.store.clone()), PREFIX.to_string(), ManifestManager::new(real.store.clone(), PREFIX), CheckpointConfig { interval, min_segments: min_segments as usize, compression_enabled: crate::c12::compress_flag() }, FixedTime(now));
    out.count(&format!("x11:should_checkpoint:min_segments:{}", if min_segments == k { "=len" } else if min_segments < k { "<len" } else { ">len" }));
    match mgr.should_checkpoint().await {
        Ok(b) => out.op(format!("SHOULDCHK {} {} {}", min_segments, interval.as_millis(), now), (b as u8).to_string()),
        Err(_) => out.op(format!("SHOULDCHK {} {} {}", min_segments, interval.as_millis(), now), "err".into()),
    }
    // another writer of the manifest: ManifestManager::add_segment / update, with a real segment object
    if rng.chance(1, 2) && !ups.is_empty() {
        // at `next_segment_id` (the comparison of add_segment at equality) or above it
        let id = real.man.next_segment_id.max(real.man.checkpoint.as_ref().map(|c| c.last_segment_id + 1).unwrap_or(0)) + *rng.pick(&[0u64, 0, 1, 3]);
        // a copy of an update of the set (duplicates are part of the property)
        let u: Upd = rng.pick(ups).clone();
        let ts = u.1.timestamp.time;
        let mut w = SegmentWriter::new(Compression::None);
        w.write_delta(&ReplicationDelta::new(u.0.clone(), u.1.clone(), ReplicaId::new(real.rid))).unwrap();
        let data = w.finish().unwrap();
        real.store.put(&seg_key(id), &data).await.unwrap();
        real.seg_content.insert(id, vec![u.clone()]);
        out.op(format!("SEG {} 1 {} {}", id, hex(u.0.as_bytes()), MRv::from_real(&u.1).show()), "ok".into());
        let info = SegmentInfo { id, key: seg_key(id), record_count: 1, size_bytes: data.len() as u64, min_timestamp: ts, max_timestamp: ts };
        let via_update = rng.chance(1, 2);
        let r = if via_update {
            let i2 = info.clone();
            real.mm.update(move |m| m.add_segment(i2)).await
        } else {
            real.mm.add_segment(info.clone()).await
        };
        out.count(if via_update { "x11:manifest-manager:update" } else { "x11:manifest-manager:add_segment" });
        match r {
            Ok(m) => {
                out.op(format!("MMADD {} 1 {} {} {}", id, data.len(), ts, ts), show_man(&m));
                real.man = m;
            }
            Err(_) => out.op(format!("MMADD {} 1 {} {} {}", id, data.len(), ts, ts), "err".into()),
        }
        real.text.push_str("MMADD;");
        let r2 = RecoveryManager::new(real.store.clone(), PREFIX, real.rid).recover().await;
        out.op("REC".into(), show_recovered(&r2));
    }
}

/// a checkpoint whose `last_segment_id` is at / above `next_segment_id - 1` (covers every listed
/// segment; above: ids that were never allocated): `compact_segments` must move `next_segment_id` past it
pub async fn covering_checkpoint(out: &mut Out, rng: &mut Rng, real: &mut Real) {
    let persisted = real.persisted();
    if persisted.is_empty() {
        return;
    }
    let state = crate::c11::fold_real(&persisted);
    let name = 50 + rng.below(40);
    let last = real.man.next_segment_id.saturating_sub(1) + *rng.pick(&[0u64, 1, 2, 5]);
    real.chk(out, name, last, &state).await;
    real.mcompact(out, name, last, state.len() as u64);
    // the next flush after it: id allocation must not fall under the checkpoint
    let id = real.malloc(out);
    let u = rng.pick(&persisted).clone();
    let (size, lo, hi) = real.seg(out, id, &[u]).await;
    real.madd(out, id, 1, size, lo, hi);
    real.msave(out).await;
    out.count("x11:covering-checkpoint(last>=next-1)");
}

/// the production start-up sequence on a fresh node (after `set_wal`): op APPLY2
pub async fn production_startup(out: &mut Out, real: &mut Real) {
    let mut cfg = StreamingConfig::test();
    cfg.prefix = PREFIX.to_string();
    let integ = StreamingIntegration::with_store(Arc::new(real.store.clone()), cfg, real.rid);
    let state = ReplicatedShardedState::new(repl_config(real.rid));
    if let Err(e) = integ.recover(&state).await {
        out.op("APPLY2".into(), match e {
            redis_sim::streaming::IntegrationError::Recovery(re) => show_recovered(&Err(re)),
            _ => "err other".into(),
        });
        return;
    }
    // as server_persistent.rs: recover_all_entries → to_delta → apply_recovered_state(None, deltas)
    let rot = WalRotator::new(real.wal_store.clone(), 1 << 20).unwrap();
    let entries = rot.recover_all_entries().unwrap_or_default();
    let deltas: Vec<ReplicationDelta> = entries.iter().filter_map(|e| e.to_delta().ok()).collect();
    if !deltas.is_empty() {
        state.apply_recovered_state(None, deltas);
    }
    let snap = state.snapshot_state().await;
    out.op("APPLY2".into(), format!("applied {}", show_upds(&sorted_map(&snap))));
    // idempotence through the real entry point: the whole start-up sequence once more on the SAME node
    if crate::c11::coherent(&{
        let mut all = real.persisted();
        all.extend(real.wal.iter().map(|(_, u)| u.clone()));
        all
    }) {
        if integ.recover(&state).await.is_ok() {
            let entries = rot.recover_all_entries().unwrap_or_default();
            let deltas: Vec<ReplicationDelta> = entries.iter().filter_map(|e| e.to_delta().ok()).collect();
            if !deltas.is_empty() {
                state.apply_recovered_state(None, deltas);
            }
            let snap2 = state.snapshot_state().await;
            out.count("x11:recovery-entry-point-run-twice");
            if sorted_map(&snap2) != sorted_map(&snap) {
                out.violation("C11:applied-state:second-startup-sequence-differs", "running the production start-up sequence (StreamingIntegration::recover + WAL replay) a second time on the same node changes its state",
                    json!({"layout": real.text, "first": show_upds(&sorted_map(&snap)), "second": show_upds(&sorted_map(&snap2))}));
            }
        }
    }
    real.text.push_str("APPLY2;");
    out.count("x11:production-startup-sequence");
}
