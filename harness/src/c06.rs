//! C06 — replicas converge once updates are delivered.
//! Part A (correspondence with the Lean cluster model): n real `ShardReplicaState`s, local ops,
//! arbitrary delivery schedules (reorder, duplicate, drop + redeliver), final full delivery.
//! Part B (oracle on the command→delta glue, not modelled in Lean): n real
//! `ReplicatedShardActor`s driven with client commands; after full delivery every replica must
//! answer reads alike and serve what its replication state says.
use crate::enc::{hex, key_cmp, MCrdt, MLww, MRv};
use crate::out::Out;
use crate::rng::Rng;
use crate::Args;
use redis_sim::production::{ReplicatedShardActor, ReplicatedShardHandle};
use redis_sim::redis::{Command, RespValue, SDS};
use redis_sim::replication::lattice::ReplicaId;
use redis_sim::replication::state::{ReplicationDelta, ShardReplicaState};
use redis_sim::replication::ConsistencyLevel;
use serde_json::json;
use std::collections::{BTreeMap, BTreeSet};

const KEYS: [&str; 3] = ["k", "h", "é"];
const FIELDS: [&str; 3] = ["f", "g", "ab"];

fn val(rng: &mut Rng) -> Vec<u8> {
    match rng.below(4) {
        0 => vec![],
        1 => vec![0, 255],
        _ => format!("v{}", rng.below(50)).into_bytes(),
    }
}

fn strip(m: &MRv) -> MRv {
    MRv { vc: None, exp: None, rf: None, ..m.clone() }
}

fn slots(m: &MRv) -> Vec<(String, MLww)> {
    match &m.crdt {
        MCrdt::Lww(l) => vec![("".into(), l.clone())],
        MCrdt::H(h) => h.iter().map(|(k, v)| (format!("f:{}", k), v.clone())).collect(),
        _ => vec![],
    }
}

/// the model's `Compat` for the messages of one key
fn compat(msgs: &[&MRv]) -> Option<u8> {
    let k = msgs.first().map(|m| m.crdt.kind()).unwrap_or(0);
    if !msgs.iter().all(|m| m.crdt.kind() == k && m.wf()) {
        return None;
    }
    let mut seen: BTreeMap<(String, u64, u64), MLww> = BTreeMap::new();
    for m in msgs {
        for (s, l) in slots(m) {
            match seen.get(&(s.clone(), l.t, l.r)) {
                Some(o) if *o != l => return None,
                _ => {
                    seen.insert((s, l.t, l.r), l);
                }
            }
        }
    }
    Some(k)
}

struct Msg {
    origin: usize,
    key: String,
    delta: ReplicationDelta,
}

fn part_a(out: &mut Out, rng: &mut Rng, corpus: Option<u8>) {
    let n = if corpus.is_some() { 3 } else { rng.range(2, 4) as usize };
    let causal = corpus.is_none() && rng.chance(1, 4);
    let level = if causal { ConsistencyLevel::Causal } else { ConsistencyLevel::Eventual };
    let mut nodes: Vec<ShardReplicaState> =
        (0..n).map(|i| ShardReplicaState::new(ReplicaId::new(i as u64 + 1), level)).collect();
    let mut sent: Vec<Msg> = Vec::new();
    let mut log: BTreeSet<(usize, usize)> = BTreeSet::new(); // (node, msg idx) applied
    out.op(format!("INIT {} {}", n, causal as u8), "ok".into());
    let mut text = String::new();
    // which keys may change type in this history (cross-kind) and may carry expiry
    let allow_type_change = corpus == Some(0) || (corpus.is_none() && rng.chance(1, 4));
    let allow_expiry = corpus == Some(1) || (corpus.is_none() && rng.chance(1, 4));
    let mut key_kind: BTreeMap<String, u8> = BTreeMap::new();
    let script: Vec<(usize, u8, &str)> = match corpus {
        // HSET h f; SET h v; HSET h g on node 0 (cross-kind); deliveries below
        Some(0) => vec![(0, 3, "h"), (0, 0, "h"), (0, 3, "h")],
        // SET k v1 PX 5000; SET k v2
        Some(1) => vec![(0, 1, "k"), (0, 0, "k")],
        _ => vec![],
    };
    let steps = if corpus.is_some() { script.len() as u64 } else { rng.range(4, 40) };
    let mut fieldctr = 0;
    for st in 0..steps {
        let (i, kind, key): (usize, u8, String) = if corpus.is_some() {
            let s = script[st as usize];
            (s.0, s.1, s.2.to_string())
        } else if rng.chance(2, 5) && !sent.is_empty() {
            // deliver something (maybe duplicate)
            let idx = rng.below(sent.len() as u64) as usize;
            let j = rng.below(n as u64) as usize;
            deliver(out, &mut nodes, &sent, &mut log, j, idx, &mut text);
            continue;
        } else {
            (rng.below(n as u64) as usize, rng.below(6) as u8, rng.pick(&KEYS).to_string())
        };
        // keep one kind per key unless type changes are allowed in this history
        let want = if kind <= 2 { 0u8 } else { 5u8 };
        let k0 = *key_kind.entry(key.clone()).or_insert(want);
        let kind = if !allow_type_change && k0 != want { if k0 == 0 { kind % 3 } else { 3 + kind % 2 } } else { kind };
        let (line, delta): (String, Option<ReplicationDelta>) = match kind {
            0 | 1 => {
                let v = if corpus.is_some() { format!("v{}", st).into_bytes() } else { val(rng) };
                let exp = if (allow_expiry && kind == 1) && (corpus.is_some() || rng.chance(1, 2)) { Some(5000u64) } else { None };
                out.count("a:write");
                (
                    format!("L {} W {} {} {}", i, hex(key.as_bytes()), hex(&v), exp.map(|e| e.to_string()).unwrap_or("-".into())),
                    Some(nodes[i].record_write(key.clone(), SDS::new(v), exp)),
                )
            }
            2 => {
                out.count("a:delete");
                (format!("L {} D {}", i, hex(key.as_bytes())), nodes[i].record_delete(key.clone()))
            }
            3 | 4 => {
                out.count("a:hwrite");
                let nf = if corpus.is_some() { 1 } else { rng.range(1, 2) };
                let fs: Vec<(String, Vec<u8>)> = (0..nf)
                    .map(|_| {
                        fieldctr += 1;
                        let f = if corpus.is_some() { FIELDS[(fieldctr - 1) % 2].to_string() } else { rng.pick(&FIELDS).to_string() };
                        (f, if corpus.is_some() { vec![b'0' + fieldctr as u8] } else { val(rng) })
                    })
                    .collect();
                let mut l = format!("L {} HW {} {}", i, hex(key.as_bytes()), fs.len());
                for (f, v) in &fs {
                    l.push_str(&format!(" {} {}", hex(f.as_bytes()), hex(v)));
                }
                (l, Some(nodes[i].record_hash_write(key.clone(), fs.into_iter().map(|(f, v)| (f, SDS::new(v))).collect())))
            }
            _ => {
                out.count("a:hdelete");
                let fs: Vec<String> = (0..rng.range(1, 2)).map(|_| rng.pick(&FIELDS).to_string()).collect();
                let mut l = format!("L {} HD {} {}", i, hex(key.as_bytes()), fs.len());
                for f in &fs {
                    l.push_str(&format!(" {}", hex(f.as_bytes())));
                }
                (l, nodes[i].record_hash_delete(key.clone(), fs))
            }
        };
        text.push_str(&line);
        text.push(';');
        let ans = match &delta {
            Some(d) => format!("delta {}", MRv::from_real(&d.value).show()),
            None => "none".into(),
        };
        out.op(line, ans);
        if let Some(d) = delta {
            sent.push(Msg { origin: i, key, delta: d });
        }
    }
    // corpus deliveries: node 1 in order, node 2 as 2nd,3rd,1st
    if corpus == Some(0) {
        for (j, idx) in [(1, 0), (1, 1), (1, 2), (2, 1), (2, 2), (2, 0)] {
            deliver(out, &mut nodes, &sent, &mut log, j, idx, &mut text);
        }
    }
    // final phase: deliver everything still missing (random order), for most histories
    let complete = corpus.is_some() || rng.chance(5, 6);
    if complete {
        let mut todo: Vec<(usize, usize)> = Vec::new();
        for (idx, m) in sent.iter().enumerate() {
            for j in 0..n {
                if j != m.origin && !log.contains(&(j, idx)) {
                    todo.push((j, idx));
                }
            }
        }
        rng.shuffle(&mut todo);
        for (j, idx) in todo {
            deliver(out, &mut nodes, &sent, &mut log, j, idx, &mut text);
        }
    }
    // observe: full state of every node, then the per-key verdicts
    for i in 0..n {
        let mut v: Vec<(String, MRv)> = nodes[i].replicated_keys.iter().map(|(k, v)| (k.clone(), MRv::from_real(v))).collect();
        v.sort_by(|a, b| key_cmp(&a.0, &b.0));
        let mut ans = v.len().to_string();
        for (k, m) in &v {
            ans.push_str(&format!(" {} {} ;", hex(k.as_bytes()), m.show()));
        }
        out.op(format!("STATE {}", i), ans);
    }
    let mut nontrivial = false;
    for key in KEYS.iter() {
        let msgs: Vec<&Msg> = sent.iter().filter(|m| m.key == *key).collect();
        let delivered = msgs.iter().all(|m| {
            let idx_all: Vec<usize> = sent.iter().enumerate().filter(|(_, x)| x.key == *key && MRv::from_real(&x.delta.value) == MRv::from_real(&m.delta.value)).map(|(i, _)| i).collect();
            (0..n).all(|j| j == m.origin || idx_all.iter().any(|idx| log.contains(&(j, *idx)) && sent[*idx].origin != j))
        });
        let mvals: Vec<MRv> = msgs.iter().map(|m| MRv::from_real(&m.delta.value)).collect();
        let comp = compat(&mvals.iter().collect::<Vec<_>>());
        let vals: Vec<Option<MRv>> = nodes.iter().map(|nd| nd.replicated_keys.get(*key).map(MRv::from_real)).collect();
        let agree = vals.iter().all(|v| v.as_ref().map(strip) == vals[0].as_ref().map(strip));
        let agreeexp = vals.iter().all(|v| v.as_ref().map(|m| m.exp) == vals[0].as_ref().map(|m| m.exp));
        out.op(
            format!("CHECK {}", hex(key.as_bytes())),
            format!("delivered={} compat={} agree={} agreeexp={}", delivered as u8, comp.map(|k| k.to_string()).unwrap_or("-".into()), agree as u8, agreeexp as u8),
        );
        if msgs.len() >= 2 && delivered {
            nontrivial = true;
        }
        let replay = json!({"history": text, "key": key, "nodes": n});
        if delivered && !agree {
            if comp.is_some() {
                out.violation("C06:rs-diverge:compatible-deltas", "all deltas of a key delivered everywhere, one kind, consistent registers, yet replication states differ", replay);
            } else {
                out.violation("C06:cross-kind-order", "type change on a key: delivery order decides the surviving content", replay);
            }
        } else if delivered && agree && !agreeexp {
            out.violation("C06:expiry-merge-max", "expiry_ms diverges: merged by max / Some-wins on the receiver, overwritten on the writer", replay);
        }
        out.count(&format!("a:check:delivered={},compat={},agree={}", delivered as u8, comp.is_some() as u8, agree as u8));
    }
    out.case(&text, nontrivial);
    out.sample(json!({"history": text}));
}

fn deliver(out: &mut Out, nodes: &mut [ShardReplicaState], sent: &[Msg], log: &mut BTreeSet<(usize, usize)>, j: usize, idx: usize, text: &mut String) {
    out.count("a:deliver");
    if sent[idx].origin != j {
        nodes[j].apply_remote_delta(sent[idx].delta.clone());
        log.insert((j, idx));
    }
    let l = format!("V {} {}", j, idx);
    text.push_str(&l);
    text.push(';');
    out.op(l, "ok".into());
}

// ---------------------------------------------------------------------------------------------
// Part B: the command → delta glue of ReplicatedShardActor (oracle only)
// ---------------------------------------------------------------------------------------------

fn show_reply(r: &RespValue) -> String {
    match r {
        RespValue::SimpleString(s) => format!("+{}", s),
        RespValue::Error(e) => format!("-{}", e.split(' ').next().unwrap_or("")),
        RespValue::Integer(i) => format!(":{}", i),
        RespValue::BulkString(None) => "nil".into(),
        RespValue::BulkString(Some(b)) => format!("${}", hex(b)),
        RespValue::Array(None) => "nilarr".into(),
        RespValue::Array(Some(v)) => {
            let mut xs: Vec<String> = v.iter().map(show_reply).collect();
            xs.sort(); // HGETALL order is unspecified; pairs are compared as a multiset
            format!("[{}]", xs.join(","))
        }
    }
}

async fn reads(h: &ReplicatedShardHandle, key: &str) -> String {
    // (execute_readonly rejects HGETALL/TTL; reads go through the normal path and produce no delta)
    let g = h.execute(Command::Get(key.to_string())).await.0;
    let e = h.execute(Command::Exists(vec![key.to_string()])).await.0;
    let hg = h.execute(Command::HGetAll(key.to_string())).await.0;
    let t = h.execute(Command::Ttl(key.to_string())).await.0;
    format!("GET={} EXISTS={} HGETALL={} TTL={}", show_reply(&g), show_reply(&e), show_reply(&hg), show_reply(&t))
}

/// what the replication state says a client should see (for strings and hashes)
fn materialise(m: Option<&MRv>) -> String {
    match m.map(|m| &m.crdt) {
        Some(MCrdt::Lww(l)) if !l.tomb && l.v.is_some() => format!("str:{}", hex(l.v.as_ref().unwrap())),
        Some(MCrdt::H(h)) => {
            let mut fs: Vec<String> = h.iter().filter(|(_, l)| !l.tomb && l.v.is_some()).map(|(f, l)| format!("{}={}", f, hex(l.v.as_ref().unwrap()))).collect();
            fs.sort();
            if fs.is_empty() { "absent".into() } else { format!("hash:{}", fs.join(",")) }
        }
        _ => "absent".into(),
    }
}

fn served(view: &str) -> String {
    // derive the same summary from the read replies
    let get = view.split(' ').next().unwrap().trim_start_matches("GET=");
    let hg = view.split(' ').nth(2).unwrap().trim_start_matches("HGETALL=");
    if get.starts_with('$') {
        format!("str:{}", &get[1..])
    } else if hg.starts_with('[') && hg.len() > 2 {
        "hash".into()
    } else {
        "absent".into()
    }
}

#[derive(Clone)]
struct Scn {
    sig: &'static str,
    what: &'static str,
    cmds: Vec<(usize, Command)>,
    key: &'static str,
}

fn s(x: &str) -> SDS {
    SDS::from_str(x)
}

fn set_opts(key: &str, v: &str, nx: bool, xx: bool, ex: Option<i64>, px: Option<i64>) -> Command {
    Command::Set { key: key.into(), value: s(v), ex, px, exat: None, pxat: None, nx, xx, get: false, keepttl: false }
}

fn scenarios() -> Vec<Scn> {
    vec![
        Scn { sig: "C06:glue:set-nx-rejected-still-gossiped", what: "SET x first; SET x second NX on node 0: node 0 keeps 'first', peers get 'second'", key: "x",
              cmds: vec![(0, Command::set("x".into(), s("first"))), (0, set_opts("x", "second", true, false, None, None))] },
        Scn { sig: "C06:glue:del-of-hash-not-replicated", what: "HSET h f 1; DEL h on node 0: node 0 has no h, peers keep {f:1}", key: "h",
              cmds: vec![(0, Command::HSet("h".into(), vec![(s("f"), s("1"))])), (0, Command::del("h".into()))] },
        Scn { sig: "C06:glue:px-subsecond-dropped-remotely", what: "SET p v PX 500 on node 0: shipped as SETEX 0 which the receiver rejects", key: "p",
              cmds: vec![(0, set_opts("p", "v", false, false, None, Some(500)))] },
        Scn { sig: "C06:glue:hset-on-string-turns-rs-into-hash", what: "SET k v; HSET k f 1 (WRONGTYPE locally) on node 0: replication state becomes a hash, executor keeps the string", key: "k",
              cmds: vec![(0, Command::set("k".into(), s("v"))), (0, Command::HSet("k".into(), vec![(s("f"), s("1"))]))] },
        Scn { sig: "C06:glue:del-then-hset-resurrects-fields", what: "HSET h f 1; HDEL h f; DEL h; HSET h g 2 … fields deleted with the key come back remotely", key: "h",
              cmds: vec![(0, Command::HSet("h".into(), vec![(s("f"), s("1"))])), (0, Command::del("h".into())), (0, Command::HSet("h".into(), vec![(s("g"), s("2"))]))] },
        Scn { sig: "C06:glue:set-without-expiry-cannot-clear-remote-ttl", what: "SET e v EX 100; SET e w on node 0: peers keep the TTL (expiry merged by max)", key: "e",
              cmds: vec![(0, set_opts("e", "v", false, false, Some(100), None)), (0, Command::set("e".into(), s("w")))] },
    ]
}

async fn run_cluster(n: usize, cmds: &[(usize, Command)], order_seed: Option<&mut Rng>, keys: &[&str]) -> Vec<(String, Vec<String>, Vec<String>)> {
    let hs: Vec<ReplicatedShardHandle> = (0..n).map(|i| ReplicatedShardActor::spawn(ReplicaId::new(i as u64 + 1), ConsistencyLevel::Eventual, 0)).collect();
    let mut deltas: Vec<(usize, ReplicationDelta)> = Vec::new();
    for (i, c) in cmds {
        let (_r, d) = hs[*i].execute(c.clone()).await;
        if let Some(d) = d {
            deltas.push((*i, d));
        }
    }
    let mut sched: Vec<(usize, usize)> = Vec::new();
    for (idx, (o, _)) in deltas.iter().enumerate() {
        for j in 0..n {
            if j != *o {
                sched.push((j, idx));
            }
        }
    }
    if let Some(r) = order_seed {
        r.shuffle(&mut sched);
        // some duplicates
        let extra: Vec<(usize, usize)> = sched.iter().filter(|_| r.chance(1, 4)).cloned().collect();
        sched.extend(extra);
    }
    for (j, idx) in sched {
        hs[j].apply_remote_delta(deltas[idx].1.clone());
    }
    let mut res = Vec::new();
    for k in keys {
        let mut views = Vec::new();
        let mut rss = Vec::new();
        for h in &hs {
            views.push(reads(h, k).await);
            let snap = h.get_snapshot().await;
            rss.push(materialise(snap.get(*k).map(MRv::from_real).as_ref()));
        }
        res.push((k.to_string(), views, rss));
    }
    for h in &hs {
        h.shutdown().await;
    }
    res
}

fn judge(out: &mut Out, sig_div: &str, sig_srv: &str, what: &str, res: &[(String, Vec<String>, Vec<String>)], replay: serde_json::Value) -> bool {
    let mut bad = false;
    for (k, views, rss) in res {
        if views.iter().any(|v| *v != views[0]) {
            out.violation(sig_div, &format!("{} — replicas answer reads on '{}' differently after all deltas were delivered: {:?}", what, k, views), replay.clone());
            bad = true;
        }
        for (i, v) in views.iter().enumerate() {
            let sv = served(v);
            let rs = &rss[i];
            let same = if sv == "hash" { rs.starts_with("hash:") } else { sv == *rs };
            if !same {
                out.violation(sig_srv, &format!("{} — node {} serves {} for '{}' but its replication state says {}", what, i, v, k, rs), replay.clone());
                bad = true;
                break;
            }
        }
    }
    bad
}

async fn part_b(out: &mut Out, rng: &mut Rng, n_random: u64) {
    // fixed scenarios first (known findings must re-confirm; a fixed one simply stops firing)
    for sc in scenarios() {
        let res = run_cluster(2, &sc.cmds, None, &[sc.key]).await;
        out.count("b:scenario");
        let replay = json!({"scenario": sc.sig, "commands": sc.cmds.iter().map(|(i, c)| format!("node{}: {:?}", i, c)).collect::<Vec<_>>()});
        let bad = judge(out, sc.sig, sc.sig, sc.what, &res, replay);
        out.count(if bad { "b:scenario-diverges" } else { "b:scenario-converges" });
    }
    // random supported histories: no divergence is acceptable here
    for _ in 0..n_random {
        let n = rng.range(2, 3) as usize;
        let mut cmds: Vec<(usize, Command)> = Vec::new();
        // key roles are fixed so that a key never changes type and strings with TTL are only SET
        for _ in 0..rng.range(1, 8) {
            let i = rng.below(n as u64) as usize;
            let c = match rng.below(8) {
                0 | 1 => Command::set("s".into(), s(&format!("{}", rng.below(100)))),
                2 => Command::Incr("s".into()),
                3 => Command::Append("s".into(), s("7")),
                4 => Command::del("s".into()),
                5 => Command::HSet("hh".into(), vec![(s(*rng.pick(&FIELDS)), s(&format!("{}", rng.below(9))))]),
                6 => Command::HDel("hh".into(), vec![s(*rng.pick(&FIELDS))]),
                _ => set_opts("t", &format!("{}", rng.below(100)), false, false, Some(100), None),
            };
            out.count(&format!("b:cmd:{}", format!("{:?}", c).split(|ch: char| !ch.is_alphanumeric()).next().unwrap_or("")));
            cmds.push((i, c));
        }
        // concurrent writers on one key are legitimate; INCR/APPEND on different nodes race by
        // design (LWW of the resulting strings) and still converge
        let mut r2 = rng.fork();
        let res = run_cluster(n, &cmds, Some(&mut r2), &["s", "hh", "t"]).await;
        let replay = json!({"nodes": n, "commands": cmds.iter().map(|(i, c)| format!("node{}: {:?}", i, c)).collect::<Vec<_>>()});
        judge(out, "C06:glue:supported-history-diverges", "C06:glue:supported-history-served-differs-from-rs", "supported history", &res, replay);
        out.count("b:random-history");
    }
}

pub fn run(a: &Args) {
    let mut out = Out::new(&a.out);
    let mut rng = Rng::new(a.seed);
    part_a(&mut out, &mut Rng::new(0xC06), Some(0));
    part_a(&mut out, &mut Rng::new(0xC06), Some(1));
    for _ in 0..a.n {
        let mut r = rng.fork();
        part_a(&mut out, &mut r, None);
    }
    let rt = tokio::runtime::Builder::new_current_thread().enable_all().build().unwrap();
    let nb = (a.n / 4).max(20);
    rt.block_on(part_b(&mut out, &mut rng, nb));
    out.finish("case (part A) = one cluster history: 2..4 real ShardReplicaStates, 4..40 events (local SET[PX]/DEL/HSET/HDEL on 3 colliding keys; deliveries of arbitrary earlier deltas to arbitrary nodes incl. duplicates), then usually delivery of everything missing in random order; per key the flags delivered/compat/agree/agreeexp are compared with the model; distinct by history text; non-trivial iff some key has ≥ 2 deltas and is fully delivered. Part B (oracle only): 6 fixed glue scenarios + random supported command histories on real ReplicatedShardActors");
}
