//! C06 — replicas converge once updates are delivered.
//! Part A (correspondence with the Lean cluster model): n real `ShardReplicaState`s, local ops,
//! arbitrary delivery schedules (reorder, duplicate, drop + redeliver), final full delivery.
//! Part B (correspondence with the Lean glue model `Model/Glue.lean` + oracle): n real
//! `ReplicatedShardActor`s driven with client commands and deliveries.  Every step is an op line
//! for the model (reply, served keyspace, delta / merged value, supported-fragment verdict);
//! independently the oracle checks that every node serves what its replication state says and
//! that after full delivery every replica answers reads alike.
use crate::enc::{hex, key_cmp, unhex, MCrdt, MLww, MRv};
use crate::out::Out;
use crate::rng::Rng;
use crate::Args;
use redis_sim::production::{ReplicatedShardActor, ReplicatedShardHandle};
use crate::redisx::{enc_cmd, reply_order, reply_text, value_text, variant_info};
use redis_sim::redis::{Command, RespValue, Value, SDS};
use redis_sim::replication::lattice::ReplicaId;
use redis_sim::replication::state::{ReplicationDelta, ShardReplicaState};
use redis_sim::replication::ConsistencyLevel;
use serde_json::json;
use std::collections::{BTreeMap, BTreeSet};

const KEYS: [&str; 3] = ["k", "h", "é"];
const FIELDS: [&str; 6] = ["f", "g", "ab", "h1", "h2", "zz"];

fn val(rng: &mut Rng) -> Vec<u8> {
    match rng.below(4) {
        0 => vec![],
        1 => vec![0, 255],
        _ => format!("v{}", rng.below(50)).into_bytes(),
    }
}

fn strip(m: &MRv) -> MRv {
    MRv { vc: None, exp: None, rf: None, ..m.clone() }
}

fn slots(m: &MRv) -> Vec<(String, MLww)> {
    match &m.crdt {
        MCrdt::Lww(l) => vec![("".into(), l.clone())],
        MCrdt::H(h) => h.iter().map(|(k, v)| (format!("f:{}", k), v.clone())).collect(),
        _ => vec![],
    }
}

/// the model's `Compat` for the messages of one key
fn compat(msgs: &[&MRv]) -> Option<u8> {
    let k = msgs.first().map(|m| m.crdt.kind()).unwrap_or(0);
    if !msgs.iter().all(|m| m.crdt.kind() == k && m.wf()) {
        return None;
    }
    let mut seen: BTreeMap<(String, u64, u64), MLww> = BTreeMap::new();
    for m in msgs {
        for (s, l) in slots(m) {
            match seen.get(&(s.clone(), l.t, l.r)) {
                Some(o) if *o != l => return None,
                _ => {
                    seen.insert((s, l.t, l.r), l);
                }
            }
        }
    }
    Some(k)
}

/// the model's `TwoDeltas`: at most two distinct stripped deltas, tie-consistent with each other
fn two_deltas(msgs: &[&MRv]) -> bool {
    let mut d: Vec<MRv> = Vec::new();
    for m in msgs {
        let s = strip(m);
        if !d.contains(&s) {
            d.push(s);
        }
    }
    match d.len() {
        0 => true,
        1 => d[0].tie_ok(&d[0]),
        2 => d[0].tie_ok(&d[1]),
        _ => false,
    }
}

struct Msg {
    origin: usize,
    key: String,
    delta: ReplicationDelta,
}

/// a local operation of part A
enum AOp {
    W(Vec<u8>, Option<u64>),
    D,
    HW(Vec<(String, Vec<u8>)>),
    HD(Vec<String>),
}

/// run one local operation on the real `ShardReplicaState` of node `i`, emit its `L` line;
/// returns the index of the delta it issued
fn a_local(out: &mut Out, nodes: &mut [ShardReplicaState], sent: &mut Vec<Msg>, log: &mut BTreeSet<(usize, usize)>, early: &mut BTreeSet<usize>, text: &mut String, i: usize, key: &str, op: AOp) -> Option<usize> {
    // a node that writes while it lacks a delta it issued itself (it restarted empty and has not got
    // its history back) may re-use a stamp: C08's stated limitation, not C06's claim
    if sent.iter().enumerate().any(|(idx, m)| m.origin == i && !log.contains(&(i, idx))) {
        early.insert(i);
        out.count("a:write-before-own-recovery");
    }
    let hk = hex(key.as_bytes());
    let (line, delta): (String, Option<ReplicationDelta>) = match op {
        AOp::W(v, exp) => {
            out.count("a:write");
            (format!("L {} W {} {} {}", i, hk, hex(&v), exp.map(|e| e.to_string()).unwrap_or("-".into())), Some(nodes[i].record_write(key.to_string(), SDS::new(v), exp)))
        }
        AOp::D => {
            out.count("a:delete");
            (format!("L {} D {}", i, hk), nodes[i].record_delete(key.to_string()))
        }
        AOp::HW(fs) => {
            out.count("a:hwrite");
            out.count(&format!("a:hwrite-fields:{}", fs.len()));
            let mut l = format!("L {} HW {} {}", i, hk, fs.len());
            for (f, v) in &fs {
                l.push_str(&format!(" {} {}", hex(f.as_bytes()), hex(v)));
            }
            (l, Some(nodes[i].record_hash_write(key.to_string(), fs.into_iter().map(|(f, v)| (f, SDS::new(v))).collect())))
        }
        AOp::HD(fs) => {
            out.count("a:hdelete");
            out.count(&format!("a:hdel-fields:{}", fs.len()));
            let mut l = format!("L {} HD {} {}", i, hk, fs.len());
            for f in &fs {
                l.push_str(&format!(" {}", hex(f.as_bytes())));
            }
            (l, nodes[i].record_hash_delete(key.to_string(), fs))
        }
    };
    text.push_str(&line);
    text.push(';');
    let ans = match &delta {
        Some(d) => format!("delta {}", MRv::from_real(&d.value).show()),
        None => "none".into(),
    };
    out.op(line, ans);
    delta.map(|d| {
        sent.push(Msg { origin: i, key: key.to_string(), delta: d });
        // a node has absorbed what it issued (until it restarts empty)
        log.insert((i, sent.len() - 1));
        sent.len() - 1
    })
}

/// 1..6 fields, repetitions allowed (mostly few, sometimes many)
fn n_fields(rng: &mut Rng) -> u64 {
    match rng.below(6) {
        0..=2 => rng.range(1, 2),
        3 | 4 => rng.range(3, 4),
        _ => rng.range(5, 6),
    }
}

fn part_a(out: &mut Out, rng: &mut Rng, corpus: Option<u8>) {
    let n = if corpus.is_some() { 3 } else { rng.range(2, 4) as usize };
    let causal = corpus.is_none() && rng.chance(1, 4);
    let level = if causal { ConsistencyLevel::Causal } else { ConsistencyLevel::Eventual };
    let mut nodes: Vec<ShardReplicaState> =
        (0..n).map(|i| ShardReplicaState::new(ReplicaId::new(i as u64 + 1), level)).collect();
    let mut sent: Vec<Msg> = Vec::new();
    let mut log: BTreeSet<(usize, usize)> = BTreeSet::new(); // (node, msg idx) absorbed since the node's last restart
    let mut early: BTreeSet<usize> = BTreeSet::new(); // nodes that wrote before they had their own history back
    let mut restarts = 0u32;
    out.op(format!("INIT {} {}", n, causal as u8), "ok".into());
    let mut text = String::new();
    // which keys may change type in this history (cross-kind) and may carry expiry
    let allow_type_change = corpus == Some(0) || corpus == Some(2) || (corpus.is_none() && rng.chance(1, 4));
    // a fifth of the random histories open with concurrent first writes of DIFFERENT kinds on one
    // key from two fresh nodes (equal Lamport time 1 on both), and half of those stay that small
    let tie_open = corpus.is_none() && rng.chance(1, 5);
    let tie_key = rng.pick(&KEYS).to_string();
    let (tie_a, tie_b) = { let a = rng.below(n as u64) as usize; (a, (a + 1 + rng.below(n as u64 - 1) as usize) % n) };
    let tie_small = rng.chance(1, 2);
    let allow_type_change = allow_type_change || tie_open;
    let allow_expiry = corpus == Some(1) || (corpus.is_none() && rng.chance(1, 4));
    let mut key_kind: BTreeMap<String, u8> = BTreeMap::new();
    let script: Vec<(usize, u8, &str)> = match corpus {
        // HSET h f; SET h v; HSET h g on node 0 (cross-kind); deliveries below
        Some(0) => vec![(0, 3, "h"), (0, 0, "h"), (0, 3, "h")],
        // SET k v1 PX 5000; SET k v2
        Some(1) => vec![(0, 1, "k"), (0, 0, "k")],
        // concurrent first writes of two kinds with EQUAL Lamport time: node 0 SET h, node 1 HSET h
        Some(2) => vec![(0, 0, "h"), (1, 3, "h")],
        // seeded/C06-own-stamped-delta-skips-clock-update: three writes, restart + own deltas back, write
        Some(5) => vec![(0, 0, "k"), (0, 0, "k"), (0, 0, "k")],
        _ => vec![],
    };
    let steps = if corpus.is_some() { script.len() as u64 } else if tie_open && tie_small { rng.range(2, 6) } else { rng.range(4, 40) };
    let mut fieldctr = 0;
    for st in 0..steps {
        let (i, kind, key): (usize, u8, String) = if corpus.is_some() {
            let s = script[st as usize];
            (s.0, s.1, s.2.to_string())
        } else if tie_open && st < 2 {
            if st == 0 { (tie_a, if rng.chance(1, 2) { 0 } else { 1 }, tie_key.clone()) } else { (tie_b, 3, tie_key.clone()) }
        } else if tie_open && tie_small && st >= 2 {
            // only deliveries (with duplicates) after the two concurrent writes
            let idx = rng.below(sent.len().max(1) as u64) as usize;
            let j = rng.below(n as u64) as usize;
            if !sent.is_empty() {
                deliver(out, &mut nodes, &sent, &mut log, j, idx, &mut text);
            }
            continue;
        } else if !tie_open && rng.chance(1, 25) && sent.iter().any(|m| key_kind.contains_key(&m.key)) {
            // a node that has issued something crashes and comes back EMPTY; its own old deltas
            // come back to it (WAL replay = apply_remote_deltas, a peer's redelivery); usually all
            // of them before it writes again, sometimes not (then a stamp may repeat: C08's limit)
            let cand: Vec<usize> = (0..n).filter(|i| sent.iter().any(|m| m.origin == *i)).collect();
            let i = *rng.pick(&cand);
            restart_node(out, &mut nodes, &mut log, i, level, &mut text);
            restarts += 1;
            let mut own: Vec<usize> = (0..sent.len()).filter(|idx| sent[*idx].origin == i).collect();
            rng.shuffle(&mut own);
            let full = rng.chance(3, 4);
            for idx in &own {
                if full || rng.chance(1, 2) {
                    deliver(out, &mut nodes, &sent, &mut log, i, *idx, &mut text);
                }
            }
            // … and at once writes a key it had written before
            let key = sent[own[0]].key.clone();
            let op = if key_kind.get(&key).copied().unwrap_or(0) == 0 { AOp::W(val(rng), None) } else { AOp::HW(vec![(rng.pick(&FIELDS).to_string(), val(rng))]) };
            a_local(out, &mut nodes, &mut sent, &mut log, &mut early, &mut text, i, &key, op);
            continue;
        } else if rng.chance(2, 5) && !sent.is_empty() {
            // deliver something (maybe duplicate)
            let idx = rng.below(sent.len() as u64) as usize;
            let j = rng.below(n as u64) as usize;
            deliver(out, &mut nodes, &sent, &mut log, j, idx, &mut text);
            continue;
        } else {
            (rng.below(n as u64) as usize, rng.below(6) as u8, rng.pick(&KEYS).to_string())
        };
        // keep one kind per key unless type changes are allowed in this history
        let want = if kind <= 2 { 0u8 } else { 5u8 };
        let k0 = *key_kind.entry(key.clone()).or_insert(want);
        let kind = if !allow_type_change && k0 != want { if k0 == 0 { kind % 3 } else { 3 + kind % 2 } } else { kind };
        let op = match kind {
            0 | 1 => {
                let v = if corpus.is_some() { format!("v{}", st).into_bytes() } else { val(rng) };
                let exp = if (allow_expiry && kind == 1) && (corpus.is_some() || rng.chance(1, 2)) { Some(5000u64) } else { None };
                AOp::W(v, exp)
            }
            2 => AOp::D,
            3 | 4 => {
                let nf = if corpus.is_some() { 1 } else { n_fields(rng) };
                AOp::HW(
                    (0..nf)
                        .map(|_| {
                            fieldctr += 1;
                            let f = if corpus.is_some() { FIELDS[(fieldctr - 1) % 2].to_string() } else { rng.pick(&FIELDS).to_string() };
                            (f, if corpus.is_some() { vec![b'0' + fieldctr as u8] } else { val(rng) })
                        })
                        .collect(),
                )
            }
            _ => AOp::HD((0..n_fields(rng)).map(|_| rng.pick(&FIELDS).to_string()).collect()),
        };
        // the registers the op touches (for the write-after-receive pattern)
        let touched: Vec<String> = match &op {
            AOp::HW(fs) => fs.iter().map(|(f, _)| f.clone()).collect(),
            AOp::HD(fs) => fs.clone(),
            _ => vec![],
        };
        let was_hash = matches!(op, AOp::HW(_) | AOp::HD(_));
        let idx = a_local(out, &mut nodes, &mut sent, &mut log, &mut early, &mut text, i, &key, op);
        // write-after-receive: the delta reaches another node, which at once writes one of the
        // registers it touched
        if let Some(idx) = idx {
            if corpus.is_none() && !tie_open && n >= 2 && rng.chance(1, 3) {
                let j = (i + 1 + rng.below(n as u64 - 1) as usize) % n;
                deliver(out, &mut nodes, &sent, &mut log, j, idx, &mut text);
                out.count("a:write-after-receive");
                let op2 = if was_hash {
                    let f = rng.pick(&touched).clone();
                    if rng.chance(3, 4) { AOp::HW(vec![(f, val(rng))]) } else { AOp::HD(vec![f]) }
                } else if rng.chance(3, 4) {
                    AOp::W(val(rng), None)
                } else {
                    AOp::D
                };
                a_local(out, &mut nodes, &mut sent, &mut log, &mut early, &mut text, j, &key, op2);
            }
        }
    }
    // the history of seeded/C06-hdel-keeps-outer-stamp, both replica-id orders: A HSET p f1..f4; → B;
    // A HDEL p f1..f4; → B; B HSET p f4 z; → A
    if corpus == Some(3) || corpus == Some(4) {
        let (na, nb) = if corpus == Some(3) { (0, 1) } else { (1, 0) };
        let four: Vec<String> = FIELDS[..4].iter().map(|f| f.to_string()).collect();
        let i0 = a_local(out, &mut nodes, &mut sent, &mut log, &mut early, &mut text, na, "h", AOp::HW(four.iter().map(|f| (f.clone(), b"1".to_vec())).collect())).unwrap();
        deliver(out, &mut nodes, &sent, &mut log, nb, i0, &mut text);
        let i1 = a_local(out, &mut nodes, &mut sent, &mut log, &mut early, &mut text, na, "h", AOp::HD(four.clone())).unwrap();
        deliver(out, &mut nodes, &sent, &mut log, nb, i1, &mut text);
        let i2 = a_local(out, &mut nodes, &mut sent, &mut log, &mut early, &mut text, nb, "h", AOp::HW(vec![(four[3].clone(), b"z".to_vec())])).unwrap();
        deliver(out, &mut nodes, &sent, &mut log, na, i2, &mut text);
        out.count("a:write-after-receive");
    }
    // corpus deliveries: node 1 in order, node 2 as 2nd,3rd,1st
    if corpus == Some(0) {
        for (j, idx) in [(1, 0), (1, 1), (1, 2), (2, 1), (2, 2), (2, 0)] {
            deliver(out, &mut nodes, &sent, &mut log, j, idx, &mut text);
        }
    }
    if corpus == Some(5) {
        for idx in 0..3 {
            deliver(out, &mut nodes, &sent, &mut log, 1, idx, &mut text);
        }
        restart_node(out, &mut nodes, &mut log, 0, level, &mut text);
        restarts += 1;
        for idx in 0..3 {
            deliver(out, &mut nodes, &sent, &mut log, 0, idx, &mut text);
        }
        a_local(out, &mut nodes, &mut sent, &mut log, &mut early, &mut text, 0, "k", AOp::W(b"after-restart".to_vec(), None));
    }
    if corpus == Some(2) {
        for (j, idx) in [(1, 0), (0, 1), (1, 0), (2, 1), (2, 0), (2, 1)] {
            deliver(out, &mut nodes, &sent, &mut log, j, idx, &mut text);
        }
    }
    // final phase: deliver everything still missing (random order), for most histories
    let complete = corpus.is_some() || rng.chance(5, 6);
    if complete {
        let mut todo: Vec<(usize, usize)> = Vec::new();
        for (idx, m) in sent.iter().enumerate() {
            for j in 0..n {
                let _ = m;
                if !log.contains(&(j, idx)) {
                    todo.push((j, idx));
                }
            }
        }
        rng.shuffle(&mut todo);
        for (j, idx) in todo {
            deliver(out, &mut nodes, &sent, &mut log, j, idx, &mut text);
        }
    }
    // observe: full state of every node, then the per-key verdicts
    for i in 0..n {
        let mut v: Vec<(String, MRv)> = nodes[i].replicated_keys.iter().map(|(k, v)| (k.clone(), MRv::from_real(v))).collect();
        v.sort_by(|a, b| key_cmp(&a.0, &b.0));
        let mut ans = v.len().to_string();
        for (k, m) in &v {
            ans.push_str(&format!(" {} {} ;", hex(k.as_bytes()), m.show()));
        }
        out.op(format!("STATE {}", i), ans);
    }
    let mut nontrivial = false;
    for key in KEYS.iter() {
        let msgs: Vec<&Msg> = sent.iter().filter(|m| m.key == *key).collect();
        let delivered = msgs.iter().all(|m| {
            let idx_all: Vec<usize> = sent.iter().enumerate().filter(|(_, x)| x.key == *key && MRv::from_real(&x.delta.value) == MRv::from_real(&m.delta.value)).map(|(i, _)| i).collect();
            (0..n).all(|j| idx_all.iter().any(|idx| log.contains(&(j, *idx))))
        });
        let mvals: Vec<MRv> = msgs.iter().map(|m| MRv::from_real(&m.delta.value)).collect();
        let comp = compat(&mvals.iter().collect::<Vec<_>>());
        let vals: Vec<Option<MRv>> = nodes.iter().map(|nd| nd.replicated_keys.get(*key).map(MRv::from_real)).collect();
        let agree = vals.iter().all(|v| v.as_ref().map(strip) == vals[0].as_ref().map(strip));
        let agreeexp = vals.iter().all(|v| v.as_ref().map(|m| m.exp) == vals[0].as_ref().map(|m| m.exp));
        let two = two_deltas(&mvals.iter().collect::<Vec<_>>());
        out.op(
            format!("CHECK {}", hex(key.as_bytes())),
            format!("delivered={} compat={} two={} agree={} agreeexp={}", delivered as u8, comp.map(|k| k.to_string()).unwrap_or("-".into()), two as u8, agree as u8, agreeexp as u8),
        );
        if msgs.len() >= 2 && delivered {
            nontrivial = true;
        }
        let replay = json!({"history": text, "key": key, "nodes": n});
        if delivered && !agree {
            if two {
                // commutativity + idempotence suffice here (rs_converges_two_deltas): never a listed finding
                out.violation("C06:rs-diverge:two-deltas", &format!("a key with at most two distinct deltas (kinds {:?}) was delivered everywhere, yet the replication states differ: {:?}", mvals.iter().map(|m| m.crdt.kind_name()).collect::<Vec<_>>(), vals.iter().map(|v| v.as_ref().map(|m| strip(m).show())).collect::<Vec<_>>()), replay);
            } else if comp.is_none() && mvals.iter().map(|m| m.crdt.kind()).collect::<BTreeSet<u8>>().len() == 1 {
                // one kind, yet a (slot, stamp) pair names two registers: a stamp was issued twice
                if msgs.iter().any(|m| early.contains(&m.origin)) {
                    out.count("a:excluded:stamp-reused-after-write-before-own-recovery");
                } else {
                    out.violation("C06:rs-diverge:stamp-reused", &format!("all deltas of a key delivered everywhere, one kind, every node recovered its own deltas before writing — yet one (register, stamp) pair carries two values and the replication states differ: {:?}", vals.iter().map(|v| v.as_ref().map(|m| strip(m).show())).collect::<Vec<_>>()), replay);
                }
            } else if comp.is_some() {
                out.violation("C06:rs-diverge:compatible-deltas", &format!("all deltas of a key delivered everywhere, one kind, consistent registers, yet replication states differ: {:?}", vals.iter().map(|v| v.as_ref().map(|m| strip(m).show())).collect::<Vec<_>>()), replay);
            } else {
                out.violation("C06:cross-kind-order", "type change on a key: delivery order decides the surviving content", replay);
            }
        } else if delivered && agree && !agreeexp {
            out.violation("C06:expiry-merge-max", "expiry_ms diverges: merged by max / Some-wins on the receiver, overwritten on the writer", replay);
        }
        out.count(&format!("a:check:delivered={},compat={},two={},agree={}", delivered as u8, comp.is_some() as u8, two as u8, agree as u8));
        if two && msgs.len() >= 2 && comp.is_none() && delivered {
            out.count("a:two-deltas-cross-kind-delivered");
            if mvals.len() >= 2 && mvals[0].t == mvals[1].t {
                out.count("a:two-deltas-cross-kind-equal-time");
            }
        }
    }
    if restarts > 0 {
        out.count("a:history:with-restart");
    }
    out.case(&text, nontrivial);
    out.sample(json!({"history": text}));
}

/// node `i` comes back empty: a fresh `ShardReplicaState` with the same replica id
fn restart_node(out: &mut Out, nodes: &mut [ShardReplicaState], log: &mut BTreeSet<(usize, usize)>, i: usize, level: ConsistencyLevel, text: &mut String) {
    out.count("a:restart");
    nodes[i] = ShardReplicaState::new(ReplicaId::new(i as u64 + 1), level);
    log.retain(|(j, _)| *j != i);
    let l = format!("RESTART {}", i);
    text.push_str(&l);
    text.push(';');
    out.op(l, "ok".into());
}

fn deliver(out: &mut Out, nodes: &mut [ShardReplicaState], sent: &[Msg], log: &mut BTreeSet<(usize, usize)>, j: usize, idx: usize, text: &mut String) {
    out.count("a:deliver");
    // no origin check anywhere in the code: a node's own delta echoed back (peer redelivery,
    // anti-entropy, WAL replay after a restart) is merged and advances the clock like any other
    if sent[idx].origin == j {
        out.count("a:deliver:own-delta-echoed");
    }
    nodes[j].apply_remote_delta(sent[idx].delta.clone());
    log.insert((j, idx));
    let l = format!("V {} {}", j, idx);
    text.push_str(&l);
    text.push(';');
    out.op(l, "ok".into());
}

// ---------------------------------------------------------------------------------------------
// Part B: the command → delta glue of ReplicatedShardActor (correspondence + oracle)
// ---------------------------------------------------------------------------------------------

type Dump = BTreeMap<String, (i64, String)>; // key -> (pttl, value text)

fn s(x: &str) -> SDS {
    SDS::from_str(x)
}

fn bulk(r: &RespValue) -> Vec<u8> {
    match r {
        RespValue::BulkString(Some(b)) => b.clone(),
        _ => vec![],
    }
}

async fn exec(h: &ReplicatedShardHandle, c: Command) -> RespValue {
    h.execute(c).await.0
}

/// the served keyspace of one actor, read through its own command interface (reads produce no
/// delta): KEYS *, TYPE, the value per type, PTTL — in the dump syntax of the C01 driver
async fn dump(h: &ReplicatedShardHandle) -> (String, Dump) {
    let mut keys: Vec<String> = match exec(h, Command::Keys("*".into())).await {
        RespValue::Array(Some(v)) => v.iter().map(|x| String::from_utf8_lossy(&bulk(x)).to_string()).collect(),
        _ => vec![],
    };
    keys.sort_by(|a, b| key_cmp(a, b));
    let mut m = Dump::new();
    let mut text = String::new();
    let mut n = 0;
    for k in keys {
        let ty = match exec(h, Command::TypeOf(k.clone())).await {
            RespValue::SimpleString(t) => t.to_string(),
            _ => "none".into(),
        };
        let v: Option<Value> = match ty.as_str() {
            "string" => Some(Value::String(SDS::new(bulk(&exec(h, Command::Get(k.clone())).await)))),
            "hash" => match exec(h, Command::HGetAll(k.clone())).await {
                RespValue::Array(Some(v)) => {
                    let mut hv = redis_sim::redis::RedisHash::new();
                    for c in v.chunks(2) {
                        if c.len() == 2 {
                            hv.set(SDS::new(bulk(&c[0])), SDS::new(bulk(&c[1])));
                        }
                    }
                    Some(Value::Hash(hv))
                }
                _ => None,
            },
            "list" => match exec(h, Command::LRange(k.clone(), 0, -1)).await {
                RespValue::Array(Some(v)) => {
                    let mut l = redis_sim::redis::RedisList::new();
                    for x in v {
                        l.rpush(SDS::new(bulk(&x)));
                    }
                    Some(Value::List(l))
                }
                _ => None,
            },
            "set" => match exec(h, Command::SMembers(k.clone())).await {
                RespValue::Array(Some(v)) => {
                    let mut st = redis_sim::redis::RedisSet::new();
                    for x in v {
                        st.add(SDS::new(bulk(&x)));
                    }
                    Some(Value::Set(st))
                }
                _ => None,
            },
            _ => None,
        };
        let Some(v) = v else { continue };
        let pttl = match exec(h, Command::Pttl(k.clone())).await {
            RespValue::Integer(i) => i,
            _ => -3,
        };
        let vt = value_text(&v);
        n += 1;
        text.push_str(&format!(" {} {} {}", hex(k.as_bytes()), pttl, vt));
        m.insert(k, (pttl, vt));
    }
    (format!("{}{}", n, text), m)
}

/// what the replication state says a client should see: (pttl, value text) or absent
fn materialise(m: Option<&MRv>) -> Option<(i64, String)> {
    match m.map(|m| (&m.crdt, m.exp)) {
        Some((MCrdt::Lww(l), exp)) if !l.tomb && l.v.is_some() => {
            Some((exp.map(|e| e as i64).unwrap_or(-1), format!("S {}", hex(l.v.as_ref().unwrap()))))
        }
        Some((MCrdt::H(h), _)) => {
            let mut fs: Vec<(Vec<u8>, Vec<u8>)> =
                h.iter().filter(|(_, l)| !l.tomb && l.v.is_some()).map(|(f, l)| (f.as_bytes().to_vec(), l.v.clone().unwrap())).collect();
            fs.sort_by(|a, b| (a.0.len(), &a.0).cmp(&(b.0.len(), &b.0)));
            if fs.is_empty() {
                None
            } else {
                let mut t = format!("H {}", fs.len());
                for (f, v) in fs {
                    t.push_str(&format!(" {} {}", hex(&f), hex(&v)));
                }
                Some((-1, t))
            }
        }
        _ => None,
    }
}

/// readable form of an op text: hex tokens that are printable ASCII are shown as text
fn pretty(enc: &str) -> String {
    enc.split(' ')
        .map(|t| {
            if let Some(h) = t.strip_prefix('x') {
                if h.len() % 2 == 0 && h.chars().all(|c| c.is_ascii_hexdigit()) {
                    let b = unhex(t);
                    if b.iter().all(|c| (0x21..0x7f).contains(c)) {
                        return if b.is_empty() { "\"\"".to_string() } else { String::from_utf8_lossy(&b).to_string() };
                    }
                }
            }
            t.to_string()
        })
        .collect::<Vec<_>>()
        .join(" ")
}

/// keys whose served entry differs between two dumps
fn changed_keys(pre: &Dump, post: &Dump) -> Vec<String> {
    let mut ks: BTreeSet<String> = pre.keys().cloned().collect();
    ks.extend(post.keys().cloned());
    ks.into_iter().filter(|k| pre.get(k) != post.get(k)).collect()
}

fn cmd_keys(c: &Command) -> Vec<String> {
    match c {
        Command::Del(ks) | Command::Exists(ks) | Command::MGet(ks) => ks.clone(),
        Command::MSet(kv) | Command::MSetNx(kv) => kv.iter().map(|(k, _)| k.clone()).collect(),
        Command::Rename(a, b) | Command::RenameNx(a, b) => vec![a.clone(), b.clone()],
        Command::FlushAll | Command::FlushDb => vec!["*".into()],
        _ => c.get_primary_key().map(|k| vec![k.to_string()]).unwrap_or_default(),
    }
}

/// independent Rust reading of the supported fragment (`Glue.unsupported`, client events):
/// `pre`/`post` = served keyspace before/after
fn unsupported_client(c: &Command, pre: &(String, Dump), post: &(String, Dump)) -> &'static str {
    match c {
        Command::Set { .. }
        | Command::Del(_)
        | Command::GetSet(..)
        | Command::HSet(..)
        | Command::HDel(..)
        | Command::HIncrBy(..)
        | Command::Incr(_)
        | Command::Decr(_)
        | Command::IncrBy(..)
        | Command::DecrBy(..)
        | Command::Append(..) => "ok",
        _ => {
            if pre.0 != post.0 {
                "non-replicated-writer"
            } else {
                "ok"
            }
        }
    }
}

/// … delivery events: `merged` = the key's value in the replication state after the merge
fn unsupported_deliver(delta: &MRv, merged: Option<&MRv>) -> &'static str {
    if !delta.wf() {
        return "bad-delta";
    }
    let Some(m) = merged else { return "ok" };
    let proper = |l: &MLww| l.tomb || l.v.is_some();
    match &m.crdt {
        MCrdt::H(h) => {
            if !h.values().all(proper) {
                "bad-delta"
            } else {
                "ok"
            }
        }
        MCrdt::Lww(l) => {
            if !proper(l) {
                "bad-delta"
            } else if !l.tomb && l.v.is_some() && m.exp.map(|e| e < 1 || e > i64::MAX as u64).unwrap_or(false) {
                "expiry-range"
            } else {
                "ok"
            }
        }
        _ => "bad-delta",
    }
}

struct GCl {
    hs: Vec<ReplicatedShardHandle>,
    sent: Vec<(usize, ReplicationDelta)>,
    applied: BTreeSet<(usize, usize)>,
    hist: Vec<String>,
    /// unsupported steps: (node, reason, keys touched)
    bad: Vec<(usize, &'static str, Vec<String>)>,
    /// nodes on which the per-node oracle already fired (report once per node)
    fired: BTreeSet<usize>,
    cmds: usize,
    level: ConsistencyLevel,
    /// nodes that accepted a write while they lacked a delta they had issued themselves
    early: BTreeSet<usize>,
    restarts: usize,
}

impl GCl {
    fn new(out: &mut Out, n: usize, causal: bool) -> GCl {
        let level = if causal { ConsistencyLevel::Causal } else { ConsistencyLevel::Eventual };
        out.op(format!("GN {} {}", n, causal as u8), "ok".into());
        GCl {
            hs: (0..n).map(|i| ReplicatedShardActor::spawn(ReplicaId::new(i as u64 + 1), level, 0)).collect(),
            sent: Vec::new(),
            applied: BTreeSet::new(),
            hist: vec![format!("{} nodes{}", n, if causal { " (causal)" } else { "" })],
            bad: Vec::new(),
            fired: BTreeSet::new(),
            cmds: 0,
            level,
            early: BTreeSet::new(),
            restarts: 0,
        }
    }

    fn replay(&self) -> serde_json::Value {
        json!({"history": self.hist})
    }

    /// per-node oracle: the node serves (value and TTL) what its replication state says
    async fn check_served(&mut self, out: &mut Out, i: usize, d: &Dump) {
        let snap = self.hs[i].get_snapshot().await;
        let mut keys: BTreeSet<String> = d.keys().cloned().collect();
        keys.extend(snap.keys().cloned());
        for k in keys {
            let want = materialise(snap.get(&k).map(MRv::from_real).as_ref());
            let have = d.get(&k).cloned();
            if want != have && self.fired.insert(i) {
                let why = self.bad.iter().find(|b| b.0 == i).map(|b| b.1);
                let sig = match why {
                    Some(r) if r.starts_with("C01:") => r.to_string(),
                    Some(r) => format!("C06:glue:outside-supported:{}", r.trim_end_matches(":flush")),
                    None => "C06:glue:supported-history-served-differs-from-rs".to_string(),
                };
                out.violation(&sig, &format!("node {} serves (pttl, value) {:?} for '{}' but its replication state says {:?}", i, have, k, want), self.replay());
            }
        }
    }

    async fn client(&mut self, out: &mut Out, i: usize, c: Command) -> RespValue {
        let pre = dump(&self.hs[i]).await;
        // what `ReplicatedShardedState::execute` sends to the shard actor: a multi-key DEL is one
        // DEL per key (replies summed), everything else is the command itself
        let (r, ds): (RespValue, Vec<ReplicationDelta>) = match &c {
            Command::Del(ks) if ks.len() > 1 => {
                let mut n = 0i64;
                let mut ds = Vec::new();
                for k in ks {
                    let (r1, d1) = self.hs[i].execute(Command::Del(vec![k.clone()])).await;
                    if let RespValue::Integer(x) = r1 {
                        n += x;
                    }
                    ds.extend(d1);
                }
                (RespValue::Integer(n), ds)
            }
            // since e29f660 an MSET is one SET per pair (each on its key's shard, each shipping its delta)
            Command::MSet(pairs) => {
                let mut ds = Vec::new();
                for (k, v) in pairs {
                    let (_, d1) = self.hs[i].execute(Command::set(k.clone(), v.clone())).await;
                    ds.extend(d1);
                }
                (RespValue::simple("OK"), ds)
            }
            _ => {
                let (r, d) = self.hs[i].execute(c.clone()).await;
                (r, d.into_iter().collect())
            }
        };
        let post = dump(&self.hs[i]).await;
        let sup = unsupported_client(&c, &pre, &post);
        let name = format!("{:?}", c).split(|ch: char| !ch.is_alphanumeric()).next().unwrap_or("").to_string();
        out.count(&format!("b:cmd:{}", name));
        out.count(&format!("b:sup:{}", sup));
        if matches!(r, RespValue::Error(_)) {
            out.count("b:reply:error");
        }
        let enc = enc_cmd(&c, &r).expect("part B generates only commands the model knows");
        self.hist.push(format!("node{}: {}", i, pretty(&enc)));
        self.cmds += 1;
        if sup != "ok" {
            // FLUSH* explains (by cause) only the keys it dropped, and only until the node writes
            // them again: a replicated write after the flush must converge like any other
            let keys = if matches!(c, Command::FlushAll | Command::FlushDb) {
                pre.1.keys().cloned().collect()
            } else {
                let mut ks = cmd_keys(&c);
                ks.extend(changed_keys(&pre.1, &post.1));
                ks
            };
            self.bad.push((i, if matches!(c, Command::FlushAll | Command::FlushDb) { "non-replicated-writer:flush" } else { sup }, keys));
        } else {
            // (only a write that replaces the WHOLE value — a string or a tombstone; a hash write
            // after the flush merges into the fields the replication state still holds)
            for d in ds.iter().filter(|d| matches!(MRv::from_real(&d.value).crdt, MCrdt::Lww(_))) {
                for b in self.bad.iter_mut().filter(|b| b.0 == i && b.1 == "non-replicated-writer:flush") {
                    b.2.retain(|k| *k != d.key);
                }
            }
        }
        let dtext = if ds.is_empty() {
            "none".to_string()
        } else {
            ds.iter().map(|d| format!("{} {}", hex(d.key.as_bytes()), MRv::from_real(&d.value).show())).collect::<Vec<_>>().join(" ; ")
        };
        out.op(
            format!("GC {} {} ;; {}", i, enc, post.0),
            format!("{} | {} | sup={} delta={}", reply_text(&r, reply_order(&c)), post.0, sup, dtext),
        );
        if !ds.is_empty() && self.sent.iter().enumerate().any(|(idx, m)| m.0 == i && !self.applied.contains(&(i, idx))) {
            self.early.insert(i);
            out.count("b:write-before-own-recovery");
        }
        for d in ds {
            out.count("b:delta");
            self.sent.push((i, d));
            self.applied.insert((i, self.sent.len() - 1));
        }
        self.check_served(out, i, &post.1).await;
        r
    }

    /// any `Command` variant through the real actor: modelled commands as `GC` lines, the rest as
    /// `GA` lines (the recorder must ignore them; the model adopts the executor keyspace)
    async fn any(&mut self, out: &mut Out, i: usize, c: Command) {
        out.count(&format!("b:variant:{}", variant_info(&c).0));
        let probe = enc_cmd(&c, &RespValue::BulkString(None));
        if probe.is_some() && !matches!(c, Command::RandomKey | Command::SPop(..)) {
            self.client(out, i, c).await;
            return;
        }
        let pre = dump(&self.hs[i]).await;
        let (_r, d) = self.hs[i].execute(c.clone()).await;
        let post = dump(&self.hs[i]).await;
        self.hist.push(format!("node{}: {:?}", i, variant_info(&c).0));
        if let Some(d) = d {
            out.violation(&format!("C06:glue:unexpected-delta:{}", variant_info(&c).0), "a command the recorder is not known to replicate handed back a delta", json!({"history": self.hist.clone(), "key": d.key}));
        }
        if pre.0 != post.0 {
            out.count("b:sup:non-replicated-writer");
            let mut ks = cmd_keys(&c);
            ks.extend(changed_keys(&pre.1, &post.1));
            self.bad.push((i, "non-replicated-writer", ks));
        }
        out.op(format!("GA {} ;; {}", i, post.0), format!("adopt | {} | -", post.0));
        self.check_served(out, i, &post.1).await;
    }

    /// the actor of node `i` crashes and is spawned again, empty, with the same replica id
    async fn restart(&mut self, out: &mut Out, i: usize) {
        self.hs[i].shutdown().await;
        self.hs[i] = ReplicatedShardActor::spawn(ReplicaId::new(i as u64 + 1), self.level, 0);
        self.applied.retain(|(j, _)| *j != i);
        self.restarts += 1;
        out.count("b:restart");
        self.hist.push(format!("node{} restarts empty", i));
        out.op(format!("GZ {}", i), "ok".into());
    }

    async fn deliver(&mut self, out: &mut Out, j: usize, idx: usize) {
        // (no origin check: the actor applies its own delta too — WAL replay after a restart,
        // a peer's redelivery)
        if self.sent[idx].0 == j {
            out.count("b:deliver:own-delta-echoed");
        }
        let d = self.sent[idx].1.clone();
        self.hs[j].apply_remote_delta(d.clone());
        let snap = self.hs[j].get_snapshot().await;
        let post = dump(&self.hs[j]).await;
        let merged = snap.get(&d.key).map(MRv::from_real);
        let sup = unsupported_deliver(&MRv::from_real(&d.value), merged.as_ref());
        out.count("b:deliver");
        out.count(&format!("b:sup:{}", sup));
        self.applied.insert((j, idx));
        self.hist.push(format!("deliver delta#{} ('{}' from node{}) to node{}", idx, d.key, self.sent[idx].0, j));
        if sup != "ok" {
            self.bad.push((j, sup, vec![d.key.clone()]));
        }
        out.op(
            format!("GV {} {} ;; {}", j, idx, post.0),
            format!("{} | {} | sup={}", merged.map(|m| m.show()).unwrap_or("none".into()), post.0, sup),
        );
        self.check_served(out, j, &post.1).await;
    }

    /// a crafted delta that no node issued (boundary of the supported fragment)
    async fn crafted(&mut self, out: &mut Out, j: usize, key: &str, v: &MRv) {
        self.hs[j].apply_remote_delta(ReplicationDelta::new(key.to_string(), v.to_real(), ReplicaId::new(v.r)));
        let snap = self.hs[j].get_snapshot().await;
        let post = dump(&self.hs[j]).await;
        let merged = snap.get(key).map(MRv::from_real);
        let sup = unsupported_deliver(v, merged.as_ref());
        out.count("b:crafted-delta");
        out.count(&format!("b:sup:{}", sup));
        self.hist.push(format!("deliver crafted delta '{}' = {} to node{}", key, v.show(), j));
        if sup != "ok" {
            self.bad.push((j, sup, vec![key.to_string()]));
        }
        out.op(
            format!("GX {} {} {} ;; {}", j, hex(key.as_bytes()), v.show(), post.0),
            format!("{} | {} | sup={}", merged.map(|m| m.show()).unwrap_or("none".into()), post.0, sup),
        );
        self.check_served(out, j, &post.1).await;
    }

    /// `ApplyRecoveredState` (checkpoint value into the actor)
    async fn recover(&mut self, out: &mut Out, j: usize, key: &str, v: &MRv) {
        let fresh = !self.hs[j].get_snapshot().await.contains_key(key);
        self.hs[j].apply_recovered_state(key.to_string(), v.to_real());
        let post = dump(&self.hs[j]).await;
        out.count("b:recovered");
        self.hist.push(format!("recover '{}' = {} into node{}", key, v.show(), j));
        if !fresh {
            self.bad.push((j, "recover-over-existing", vec![key.to_string()]));
        }
        out.op(
            format!("GR {} {} {} ;; {}", j, hex(key.as_bytes()), v.show(), post.0),
            format!("fresh={} | {} | -", fresh as u8, post.0),
        );
        self.check_served(out, j, &post.1).await;
    }

    async fn deliver_all(&mut self, out: &mut Out, rng: Option<&mut Rng>) {
        let mut todo: Vec<(usize, usize)> = Vec::new();
        for (idx, (o, _)) in self.sent.iter().enumerate() {
            for j in 0..self.hs.len() {
                let _ = o;
                if !self.applied.contains(&(j, idx)) {
                    todo.push((j, idx));
                }
            }
        }
        if let Some(r) = rng {
            r.shuffle(&mut todo);
            let extra: Vec<(usize, usize)> = todo.iter().filter(|_| r.chance(1, 5)).cloned().collect();
            todo.extend(extra);
        }
        for (j, idx) in todo {
            self.deliver(out, j, idx).await;
        }
    }

    /// final observation: state lines, client reads on every node (through the model too), the
    /// cluster verdicts per key, and the convergence oracle
    async fn finish(self, out: &mut Out, keys: &[&str]) -> bool {
        let n = self.hs.len();
        let mut dumps: Vec<Dump> = Vec::new();
        for i in 0..n {
            let snap = self.hs[i].get_snapshot().await;
            let mut v: Vec<(String, MRv)> = snap.iter().map(|(k, v)| (k.clone(), MRv::from_real(v))).collect();
            v.sort_by(|a, b| key_cmp(&a.0, &b.0));
            let mut st = v.len().to_string();
            for (k, m) in &v {
                st.push_str(&format!(" {} {} ;", hex(k.as_bytes()), m.show()));
            }
            let d = dump(&self.hs[i]).await;
            let mut ks: BTreeSet<String> = d.1.keys().cloned().collect();
            ks.extend(snap.keys().cloned());
            let ok = ks.iter().all(|k| materialise(snap.get(k).map(MRv::from_real).as_ref()) == d.1.get(k).cloned());
            out.op(format!("GS {}", i), format!("{} | {} | served={}", st, d.0, ok as u8));
            dumps.push(d.1);
        }
        let mut bad_any = !self.fired.is_empty();
        for key in keys {
            // client reads, as commands (TTL's rounding is the executor's business: C01)
            for i in 0..n {
                for c in [Command::Get(key.to_string()), Command::Exists(vec![key.to_string()]), Command::HGetAll(key.to_string()), Command::Ttl(key.to_string())] {
                    let (r, _) = self.hs[i].execute(c.clone()).await;
                    let d = dump(&self.hs[i]).await;
                    out.op(
                        format!("GC {} {} ;; {}", i, enc_cmd(&c, &r).unwrap(), d.0),
                        format!("{} | {} | sup=ok delta=none", reply_text(&r, reply_order(&c)), d.0),
                    );
                }
            }
            let msgs: Vec<(usize, &(usize, ReplicationDelta))> = self.sent.iter().enumerate().filter(|(_, m)| m.1.key == *key).collect();
            let delivered = msgs.iter().all(|(_, m)| {
                let mv = MRv::from_real(&m.1.value);
                (0..n).all(|j| msgs.iter().any(|(idx2, m2)| self.applied.contains(&(j, *idx2)) && MRv::from_real(&m2.1.value) == mv))
            });
            let kinds: BTreeSet<u8> = msgs.iter().map(|(_, m)| MRv::from_real(&m.1.value).crdt.kind()).collect();
            let mut distinct: Vec<MRv> = Vec::new();
            for (_, m) in &msgs {
                let sv = strip(&MRv::from_real(&m.1.value));
                if !distinct.contains(&sv) {
                    distinct.push(sv);
                }
            }
            let kind = match kinds.len() {
                0 => "0".to_string(),
                1 => kinds.iter().next().unwrap().to_string(),
                _ => "-".to_string(),
            };
            let mut vals: Vec<Option<MRv>> = Vec::new();
            for h in &self.hs {
                vals.push(h.get_snapshot().await.get(*key).map(MRv::from_real));
            }
            let agree = vals.iter().all(|v| v.as_ref().map(strip) == vals[0].as_ref().map(strip));
            let val = |d: &Dump| d.get(*key).map(|e| e.1.clone());
            let reads = dumps.iter().all(|d| val(d) == val(&dumps[0]));
            let ttls = dumps.iter().all(|d| d.get(*key).map(|e| e.0) == dumps[0].get(*key).map(|e| e.0));
            out.op(
                format!("GK {}", hex(key.as_bytes())),
                format!("delivered={} kind={} agree={} reads={}", delivered as u8, kind, agree as u8, reads as u8),
            );
            out.count(&format!("b:key:delivered={},kind={},reads={}", delivered as u8, if kinds.len() <= 1 { "stable" } else { "mixed" }, reads as u8));
            if delivered && (!reads || !ttls) {
                bad_any = true;
                let why = self.bad.iter().find(|b| b.2.iter().any(|k| k == key || k == "*")).map(|b| b.1);
                let served: Vec<Option<(i64, String)>> = dumps.iter().map(|d| d.get(*key).cloned()).collect();
                let (sig, what) = if !reads {
                    match why {
                        Some(r) if r.starts_with("C01:") => (r.to_string(), "conformance defect of the executor"),
                        Some(r) => (format!("C06:glue:outside-supported:{}", r.trim_end_matches(":flush")), "outside the supported fragment; replicas diverge"),
                        None if kinds.len() > 1 && distinct.len() > 2 => ("C06:cross-kind-order".to_string(), "type change on the key (three or more deltas): delivery order decides"),
                        None if distinct.len() <= 2 => ("C06:glue:two-deltas-diverge".to_string(), "at most two distinct deltas (commutativity and idempotence suffice)"),
                        None => ("C06:glue:supported-history-diverges".to_string(), "supported history"),
                    }
                } else {
                    match why {
                        Some(r) if r.starts_with("C01:") => (r.to_string(), "conformance defect of the executor"),
                        Some(r) => (format!("C06:glue:outside-supported:{}", r.trim_end_matches(":flush")), "outside the supported fragment; TTLs diverge"),
                        None => ("C06:glue:set-without-expiry-cannot-clear-remote-ttl".to_string(), "expiry merged by max / Some-wins on the receiver, overwritten on the writer"),
                    }
                };
                // a node that wrote before it had its own history back may have re-used a stamp: C08's
                // stated limitation (recovery hands back what was durable), not a claim of C06
                if why.is_none() && !reads && msgs.iter().any(|(_, m)| self.early.contains(&m.0)) {
                    out.count("b:excluded:diverged-after-write-before-own-recovery");
                } else {
                    out.violation(&sig, &format!("{} — after all deltas of '{}' were delivered the replicas serve (pttl, value) {:?}", what, key, served), self.replay());
                }
            }
        }
        for h in &self.hs {
            h.shutdown().await;
        }
        bad_any
    }
}

fn set_opts(key: &str, v: &str, nx: bool, xx: bool, ex: Option<i64>, px: Option<i64>) -> Command {
    Command::Set { key: key.into(), value: s(v), ex, px, exat: None, pxat: None, nx, xx, get: false, keepttl: false }
}

fn hset1(k: &str, f: &str, v: &str) -> Command {
    Command::HSet(k.into(), vec![(s(f), s(v))])
}

enum St {
    C(usize, Command),
    /// deliver everything outstanding, in issue order
    Sync,
    /// deliver delta #idx to node j
    V(usize, usize),
    X(usize, &'static str, MRv),
    /// ApplyRecoveredState on node j
    R(usize, &'static str, MRv),
    /// the actor of node i restarts empty
    Z(usize),
}

fn hash_rv(fields: &[(&str, Option<&str>, u64)], r: u64) -> MRv {
    let t = fields.iter().map(|f| f.2).max().unwrap_or(0);
    MRv {
        crdt: MCrdt::H(fields.iter().map(|(f, v, t)| (f.to_string(), MLww { v: v.map(|x| x.as_bytes().to_vec()), t: *t, r, tomb: v.is_none() })).collect()),
        vc: None,
        exp: None,
        t,
        r,
        rf: None,
    }
}

fn lww_rv(v: Option<&str>, t: u64, r: u64, tomb: bool, exp: Option<u64>) -> MRv {
    MRv { crdt: MCrdt::Lww(MLww { v: v.map(|x| x.as_bytes().to_vec()), t, r, tomb }), vc: None, exp, t, r, rf: None }
}

/// fixed scenarios, run first on every run: the six historical glue defects (three repaired, they
/// must now converge), one witness per excluded class of the supported fragment (the Lean
/// `…_counterexample` theorems, replayed on the real actors), and the shapes that a stale-delta
/// shortcut in `apply_remote_delta_impl` would break
fn scenarios() -> Vec<(&'static str, usize, Vec<St>, Vec<&'static str>)> {
    use St::*;
    vec![
        ("set-nx-rejected", 2, vec![C(0, Command::set("x".into(), s("first"))), C(0, set_opts("x", "second", true, false, None, None)), Sync], vec!["x"]),
        ("del-of-hash", 2, vec![C(0, hset1("h", "f", "1")), Sync, C(0, Command::del("h".into())), Sync], vec!["h"]),
        ("px-subsecond", 2, vec![C(0, set_opts("p", "v", false, false, None, Some(500))), Sync], vec!["p"]),
        ("hset-on-string", 2, vec![C(0, Command::set("k".into(), s("v"))), C(0, hset1("k", "f", "1")), Sync], vec!["k"]),
        ("del-then-hset", 2, vec![C(0, hset1("h", "f", "1")), C(0, Command::del("h".into())), C(0, hset1("h", "g", "2")), Sync], vec!["h"]),
        ("set-clears-ttl", 2, vec![C(0, set_opts("e", "v", false, false, Some(100), None)), C(0, Command::set("e".into(), s("w"))), Sync], vec!["e"]),
        // excluded classes (x:) and the classes repaired by fix: commits (must hold now)
        ("x:non-replicated-writer", 2, vec![C(0, Command::MSet(vec![("m".into(), s("w"))])), Sync], vec!["m"]),
        ("set-pxat", 2, vec![C(0, Command::Set { key: "a".into(), value: s("v"), ex: None, px: None, exat: None, pxat: Some(5000), nx: false, xx: false, get: false, keepttl: false }), Sync], vec!["a"]),
        ("set-keepttl", 2, vec![C(0, set_opts("a", "v", false, false, Some(100), None)), C(0, Command::Set { key: "a".into(), value: s("w"), ex: None, px: None, exat: None, pxat: None, nx: false, xx: false, get: false, keepttl: true }), Sync], vec!["a"]),
        ("incr-with-ttl", 2, vec![C(0, set_opts("c", "5", false, false, Some(100), None)), C(0, Command::Incr("c".into())), Sync], vec!["c"]),
        ("hash-over-string", 2, vec![C(0, Command::set("x".into(), s("v"))), C(1, hset1("x", "f", "1")), Sync], vec!["x"]),
        ("x:expiry-zero", 2, vec![X(0, "z", lww_rv(Some("v"), 5, 9, false, Some(0)))], vec!["z"]),
        ("x:empty-register", 2, vec![C(0, Command::set("z".into(), s("v"))), X(0, "z", lww_rv(None, 5, 9, false, None))], vec!["z"]),
        // seeded/C06-own-stamped-delta-skips-clock-update: three writes, the actor restarts empty, its own
        // deltas come back (WAL replay = apply_remote_deltas), it writes again
        ("restart-own-deltas-back", 2, vec![C(0, Command::set("k".into(), s("1"))), C(0, Command::set("k".into(), s("2"))), C(0, Command::set("k".into(), s("3"))), Sync,
            Z(0), V(0, 0), V(0, 1), V(0, 2), C(0, Command::set("k".into(), s("4"))), Sync], vec!["k"]),
        ("restart-own-hash-deltas-back", 2, vec![C(0, hset1("h", "f", "1")), C(0, hset1("h", "g", "2")), C(1, hset1("h", "f", "9")), Sync,
            Z(0), V(0, 1), V(0, 0), V(0, 2), C(0, hset1("h", "f", "3")), C(0, Command::HDel("h".into(), vec![s("g")])), Sync], vec!["h"]),
        ("multi-key-del", 2, vec![C(0, Command::set("a".into(), s("1"))), C(0, Command::set("b".into(), s("2"))), Sync, C(0, Command::Del(vec!["a".into(), "b".into()])), Sync], vec!["a", "b"]),
        // ApplyRecoveredState: a checkpoint into a fresh actor, then normal traffic
        ("recover-checkpoint", 2, vec![
            R(0, "a", lww_rv(Some("v"), 4, 2, false, Some(5000))), R(0, "h", hash_rv(&[("f", Some("1"), 1), ("g", None, 2)], 2)),
            R(0, "b", lww_rv(None, 30, 2, true, None)), R(0, "c", lww_rv(Some("7"), 3, 1, false, None)),
            // the peer recovers the same checkpoint (recovered state is not gossiped)
            R(1, "a", lww_rv(Some("v"), 4, 2, false, Some(5000))), R(1, "h", hash_rv(&[("f", Some("1"), 1), ("g", None, 2)], 2)),
            R(1, "b", lww_rv(None, 30, 2, true, None)), R(1, "c", lww_rv(Some("7"), 3, 1, false, None)),
            C(0, Command::Incr("c".into())), C(0, hset1("h", "g", "3")), C(0, Command::set("b".into(), s("w"))), Sync], vec!["a", "b", "c", "h"]),
        // FLUSHALL empties the executor only: the replication state (snapshots, checkpoints) keeps the keys
        // seeded/C08-flush-resets-lamport-clock at the level of what replicas serve: the write after the
        // flush must win everywhere
        ("flush-then-rewrite", 2, vec![C(0, Command::set("k".into(), s("a"))), C(0, Command::set("k".into(), s("b"))), C(0, Command::set("k".into(), s("c"))), Sync,
            C(0, Command::FlushAll), C(0, Command::set("k".into(), s("after"))), Sync], vec!["k"]),
        ("x:flushall-lingers", 2, vec![C(0, Command::set("a".into(), s("v"))), Sync, C(0, Command::FlushAll)], vec!["a"]),
        ("x:recover-over-existing", 2, vec![C(0, Command::set("a".into(), s("v"))), R(0, "a", lww_rv(None, 30, 2, true, None))], vec!["a"]),
        // seeded/C06-hdel-keeps-outer-stamp, both replica-id orders: a multi-field HDEL reaches a
        // peer, which at once writes one of the deleted fields
        ("hdel-then-remote-hset:a-b", 2, vec![
            C(0, Command::HSet("h".into(), FIELDS[..4].iter().map(|f| (s(f), s("1"))).collect())), Sync,
            C(0, Command::HDel("h".into(), FIELDS[..4].iter().map(|f| s(f)).collect())), Sync,
            C(1, hset1("h", FIELDS[3], "z")), Sync], vec!["h"]),
        ("hdel-then-remote-hset:b-a", 2, vec![
            C(1, Command::HSet("h".into(), FIELDS[..4].iter().map(|f| (s(f), s("1"))).collect())), Sync,
            C(1, Command::HDel("h".into(), FIELDS[..4].iter().map(|f| s(f)).collect())), Sync,
            C(0, hset1("h", FIELDS[3], "z")), Sync], vec!["h"]),
        // stale / reordered deltas must still be re-materialised
        ("concurrent-hash-fields", 2, vec![C(0, hset1("h", "f", "1")), C(1, hset1("h", "g", "2")), Sync], vec!["h"]),
        ("reordered-to-third", 3, vec![C(0, Command::set("s".into(), s("1"))), C(0, Command::set("s".into(), s("2"))), V(1, 1), V(1, 0), V(2, 0), V(2, 1), V(2, 0)], vec!["s"]),
        ("hash-del-reordered", 3, vec![C(0, hset1("h", "f", "1")), C(0, Command::HDel("h".into(), vec![s("f")])), C(1, hset1("h", "g", "2")), V(2, 1), V(2, 0), V(2, 2), Sync], vec!["h"]),
    ]
}

const SKEYS: [&str; 3] = ["s", "t", "x"];
const HKEYS: [&str; 2] = ["hh", "x"];

fn sval(rng: &mut Rng) -> String {
    match rng.below(8) {
        0 => "".into(),
        1 => format!("v{}", rng.below(9)),
        2 => "9223372036854775807".into(),
        3 => format!("-{}", rng.range(1, 99)),
        _ => format!("{}", rng.below(100)),
    }
}

fn gen_cmd(rng: &mut Rng) -> Command {
    let sk = rng.pick(&SKEYS).to_string();
    let hk = rng.pick(&HKEYS).to_string();
    let fld = |rng: &mut Rng| s(*rng.pick(&FIELDS));
    match rng.below(40) {
        0..=4 => Command::set(sk, s(&sval(rng))),
        5..=10 => {
            // SET with options: NX | XX, GET, one of EX / PX / KEEPTTL / (rarely) EXAT / PXAT
            let mut c = Command::set(sk, s(&sval(rng)));
            if let Command::Set { ex, px, exat, pxat, nx, xx, get, keepttl, .. } = &mut c {
                match rng.below(12) {
                    0 | 1 => *ex = Some(*rng.pick(&[1, 100, 100, 0, -1])),
                    2..=4 => *px = Some(*rng.pick(&[1, 500, 1400, 1500, 100000, 0])),
                    5 | 6 => *keepttl = true,
                    7 => *exat = Some(*rng.pick(&[50, 0])),
                    8 => *pxat = Some(*rng.pick(&[50000, -1])),
                    _ => {}
                }
                match rng.below(5) {
                    0 => *nx = true,
                    1 => *xx = true,
                    _ => {}
                }
                *get = rng.chance(1, 4);
            }
            c
        }
        11 => Command::GetSet(sk, s(&sval(rng))),
        12 => Command::Incr(sk),
        13 => Command::Decr(sk),
        14 | 15 => Command::IncrBy(sk, *rng.pick(&[5, -7, 1, i64::MAX, i64::MIN])),
        16 => Command::DecrBy(sk, *rng.pick(&[5, -7, i64::MIN])),
        17 | 18 => Command::Append(sk, s(&sval(rng))),
        19..=21 => Command::del(if rng.chance(1, 4) { hk } else { sk }),
        22 | 23 => Command::Del((0..rng.range(2, 3)).map(|_| if rng.chance(1, 3) { rng.pick(&HKEYS).to_string() } else { rng.pick(&SKEYS).to_string() }).collect()),
        24..=28 => Command::HSet(hk, (0..n_fields(rng)).map(|_| (fld(rng), s(&sval(rng)))).collect()),
        29..=31 => Command::HDel(hk, (0..n_fields(rng)).map(|_| fld(rng)).collect()),
        32..=34 => Command::HIncrBy(hk, fld(rng), *rng.pick(&[1, -3, 10, i64::MAX])),
        35 => Command::Get(sk),
        36 => Command::HGetAll(hk),
        // writers the recorder ignores (outside the property's command list): boundary probes
        _ => match rng.below(10) {
            0 | 1 => Command::MSet((0..rng.range(1, 2)).map(|_| (rng.pick(&SKEYS).to_string(), s(&sval(rng)))).collect()),
            2 => Command::SetNx(sk, s(&sval(rng))),
            3 => Command::GetDel(sk),
            4 => Command::Expire { key: sk, seconds: 100, nx: false, xx: false, gt: false, lt: false },
            5 => Command::Persist(sk),
            6 => Command::Rename(sk, rng.pick(&SKEYS).to_string()),
            7 => Command::RPush(sk, vec![s("e")]),
            8 => Command::MSetNx(vec![(sk, s(&sval(rng)))]),
            _ => Command::FlushAll,
        },
    }
}

/// every Command variant that `ReplicatedShardedState::execute` can hand to a shard actor, once
/// per run through the real actor, interleaved with replicated writes and deliveries
async fn variant_sweep(out: &mut Out, rng: &mut Rng) {
    let all = crate::c17::all_variants(rng, "s", "x", true);
    let mut seen: BTreeSet<&'static str> = BTreeSet::new();
    let mut picks: Vec<Command> = Vec::new();
    let mut idx: Vec<usize> = (0..all.len()).collect();
    rng.shuffle(&mut idx);
    for i in idx {
        let c = &all[i];
        let reachable = c.get_primary_key().is_some() || matches!(c, Command::FlushDb | Command::FlushAll | Command::DbSize);
        // only forms a Redis-conformant parser produces (C01's generators avoid the others too)
        let conformant = match c {
            Command::Set { .. } | Command::GetEx { .. } => enc_cmd(c, &RespValue::BulkString(None)).is_some(),
            Command::Expire { nx, xx, gt, lt, .. } | Command::PExpire { nx, xx, gt, lt, .. } => !(*nx && (*xx || *gt || *lt)) && !(*gt && *lt),
            _ => true,
        };
        if reachable && conformant && !matches!(c, Command::Del(ks) if ks.len() > 1) && seen.insert(variant_info(c).0) {
            picks.push(c.clone());
        }
    }
    for chunk in picks.chunks(12) {
        let mut cl = GCl::new(out, 2, false);
        for (n, c) in chunk.iter().enumerate() {
            let i = n % 2;
            cl.client(out, i, Command::set("s".into(), s(&format!("{}", n)))).await;
            cl.any(out, i, c.clone()).await;
            cl.client(out, 1 - i, hset1("hh", FIELDS[n % 6], "1")).await;
            if n % 3 == 2 {
                cl.deliver_all(out, None).await;
            }
        }
        cl.deliver_all(out, None).await;
        let text = cl.hist.join("; ");
        cl.finish(out, &["s", "x", "hh"]).await;
        out.count("b:variant-sweep-history");
        out.case(&format!("B:sweep:{}", text), true);
    }
}

async fn part_b(out: &mut Out, rng: &mut Rng, n_random: u64) {
    system_scenarios(out).await;
    {
        let mut r = rng.fork();
        variant_sweep(out, &mut r).await;
    }
    for (name, n, steps, keys) in scenarios() {
        let mut cl = GCl::new(out, n, false);
        for st in steps {
            match st {
                St::C(i, c) => {
                    cl.client(out, i, c).await;
                }
                St::Sync => cl.deliver_all(out, None).await,
                St::V(j, idx) => cl.deliver(out, j, idx).await,
                St::X(j, k, v) => cl.crafted(out, j, k, &v).await,
                St::R(j, k, v) => cl.recover(out, j, k, &v).await,
                St::Z(i) => cl.restart(out, i).await,
            }
        }
        let text = cl.hist.join("; ");
        let bad = cl.finish(out, &keys).await;
        out.count(&format!("b:scenario:{}:{}", name, if bad { "fails" } else { "holds" }));
        out.case(&format!("B:{}", text), true);
    }
    for _ in 0..n_random {
        let mut r = rng.fork();
        let n = r.range(2, 3) as usize;
        let mut cl = GCl::new(out, n, r.chance(1, 6));
        // a history is either "clean" (recorded commands only) or carries boundary probes
        let probes = r.chance(1, 3);
        let steps = r.range(2, 10);
        for _ in 0..steps {
            if !cl.sent.is_empty() && r.chance(1, 14) {
                // a node that has issued something restarts empty, gets its own deltas back (usually
                // all of them) and at once writes a key it had written before
                let cand: Vec<usize> = (0..n).filter(|i| cl.sent.iter().any(|m| m.0 == *i)).collect();
                let i = *r.pick(&cand);
                cl.restart(out, i).await;
                let mut own: Vec<usize> = (0..cl.sent.len()).filter(|idx| cl.sent[*idx].0 == i).collect();
                r.shuffle(&mut own);
                let full = r.chance(4, 5);
                for idx in &own {
                    if full || r.chance(1, 2) {
                        cl.deliver(out, i, *idx).await;
                    }
                }
                let key = cl.sent[own[0]].1.key.clone();
                let c2 = if HKEYS.contains(&key.as_str()) && !SKEYS.contains(&key.as_str()) { Command::HSet(key, vec![(s("f"), s(&sval(&mut r)))]) } else { Command::set(key, s(&sval(&mut r))) };
                cl.client(out, i, c2).await;
                continue;
            }
            if !cl.sent.is_empty() && r.chance(1, 3) {
                let idx = r.below(cl.sent.len() as u64) as usize;
                let j = r.below(n as u64) as usize;
                cl.deliver(out, j, idx).await;
                continue;
            }
            let i = r.below(n as u64) as usize;
            let mut c = gen_cmd(&mut r);
            if !probes {
                while unsupported_syntactic(&c) {
                    c = gen_cmd(&mut r);
                }
            }
            let before = cl.sent.len();
            cl.client(out, i, c.clone()).await;
            // write-after-receive: what the command shipped reaches another node, which at once
            // writes one of the registers it touched
            if cl.sent.len() > before && r.chance(1, 4) {
                let j = (i + 1 + r.below(n as u64 - 1) as usize) % n;
                for idx in before..cl.sent.len() {
                    cl.deliver(out, j, idx).await;
                }
                let key = cl.sent[before].1.key.clone();
                let c2 = match &c {
                    Command::HSet(_, fv) => Some(Command::HSet(key, vec![(r.pick(fv).0.clone(), s(&sval(&mut r)))])),
                    Command::HDel(_, fs) => Some(Command::HSet(key, vec![(r.pick(fs).clone(), s(&sval(&mut r)))])),
                    Command::HIncrBy(_, f, _) => Some(Command::HDel(key, vec![f.clone()])),
                    Command::Del(_) => Some(Command::set(key, s(&sval(&mut r)))),
                    Command::Set { .. } | Command::Incr(_) | Command::Append(..) | Command::GetSet(..) => Some(if r.chance(1, 2) { Command::Incr(key) } else { Command::del(key) }),
                    _ => None,
                };
                if let Some(c2) = c2 {
                    out.count("b:write-after-receive");
                    cl.client(out, j, c2).await;
                }
            }
        }
        let complete = r.chance(5, 6);
        if complete {
            cl.deliver_all(out, Some(&mut r)).await;
        }
        let text = cl.hist.join("; ");
        let nontrivial = cl.sent.len() >= 2 && complete;
        if out.samples.len() < 5 {
            out.sample(json!({"glue-history": cl.hist}));
        }
        out.count(if cl.bad.is_empty() { "b:history:supported" } else { "b:history:with-unsupported-step" });
        cl.finish(out, &["s", "t", "x", "hh"]).await;
        out.count("b:random-history");
        out.case(&format!("B:{}", text), nontrivial);
    }
}

/// commands that are outside the supported fragment whatever the state (used to keep two thirds
/// of the random histories inside it)
fn unsupported_syntactic(c: &Command) -> bool {
    matches!(
        c,
        Command::MSet(_) | Command::SetNx(..) | Command::GetDel(_) | Command::Expire { .. } | Command::Persist(_) | Command::Rename(..) | Command::RPush(..) | Command::MSetNx(_) | Command::FlushAll
    )
}

/// system level: two real `ReplicatedShardedState`s (16 shard actors each); the deltas that
/// `execute` ships are captured through the delta sink and applied to the peer.  Oracle only —
/// this is the entry point that splits a multi-key DEL.
async fn system_scenarios(out: &mut Out) {
    use redis_sim::production::ReplicatedShardedState;
    use redis_sim::replication::ReplicationConfig;
    use redis_sim::streaming::delta_sink_channel;
    let mk = |id: u64| {
        let mut st = ReplicatedShardedState::new(ReplicationConfig { replica_id: id, ..ReplicationConfig::default() });
        let (tx, rx) = delta_sink_channel();
        st.set_delta_sink(tx);
        (st, rx)
    };
    let (a, arx) = mk(1);
    let (b, brx) = mk(2);
    let keys = ["a", "b", "c", "dd", "e1"];
    let mut hist: Vec<String> = Vec::new();
    for (i, k) in keys.iter().enumerate() {
        a.execute(Command::set(k.to_string(), s(&format!("{}", i)))).await;
        hist.push(format!("A: SET {} {}", k, i));
    }
    b.apply_remote_deltas(arx.drain());
    // multi-key DEL whose keys live on different shards, the last one never written
    let r = a.execute(Command::Del(vec!["a".into(), "b".into(), "dd".into(), "zz".into()])).await;
    hist.push("A: DEL a b dd zz".into());
    b.apply_remote_deltas(arx.drain());
    let _ = brx.drain();
    let mut bad = Vec::new();
    if !matches!(r, RespValue::Integer(3)) {
        bad.push(format!("reply {:?}, expected 3", r));
    }
    for k in keys {
        let ga = a.execute(Command::Get(k.to_string())).await;
        let gb = b.execute(Command::Get(k.to_string())).await;
        let want_nil = k == "a" || k == "b" || k == "dd";
        let nil = |x: &RespValue| matches!(x, RespValue::BulkString(None));
        if nil(&ga) != want_nil || nil(&gb) != want_nil {
            bad.push(format!("GET {}: A {:?}, B {:?}", k, ga, gb));
        }
    }
    // multi-key DEL by PLACEMENT of its keys on the 16 front-end shards: all on one shard, all on
    // different shards, two on one shard + one elsewhere; with and without a key that was never
    // written.  Whatever the placement, every named key must end deleted on the node that accepted
    // the DEL AND on its peer (each key ships its own tombstone), the reply counts the keys that existed.
    {
        let shard_of = |key: &str| {
            use std::hash::{Hash, Hasher};
            let mut h = std::collections::hash_map::DefaultHasher::new();
            key.hash(&mut h);
            (h.finish() as usize) % 16
        };
        let pool: Vec<String> = (0..400).map(|i| format!("p{}", i)).collect();
        let s0 = shard_of(&pool[0]);
        let same: Vec<String> = pool.iter().filter(|k| shard_of(k) == s0).take(3).cloned().collect();
        let mut distinct: Vec<String> = Vec::new();
        for k in &pool {
            if distinct.iter().all(|d| shard_of(d) != shard_of(k)) {
                distinct.push(k.clone());
            }
            if distinct.len() == 3 {
                break;
            }
        }
        let other = pool.iter().find(|k| shard_of(k) != s0).cloned().unwrap_or("zz9".into());
        let mixed = vec![same[0].clone(), other.clone(), same[1].clone()];
        for (placement, ks) in [("same-shard", same.clone()), ("distinct-shards", distinct.clone()), ("mixed", mixed.clone()), ("same-shard-pair", same[..2].to_vec())] {
            for with_missing in [false, true] {
                let (a, arx) = mk(5);
                let (b, _brx) = mk(6);
                let keep = "keepme".to_string();
                let mut h3: Vec<String> = Vec::new();
                for (i, k) in ks.iter().chain(std::iter::once(&keep)).enumerate() {
                    a.execute(Command::set(k.clone(), s(&format!("{}", i)))).await;
                    h3.push(format!("A: SET {} {} (shard {})", k, i, shard_of(k)));
                }
                b.apply_remote_deltas(arx.drain());
                let mut del = ks.clone();
                if with_missing {
                    // a key nobody wrote, placed on the first key's shard, in the middle of the list
                    let miss = pool.iter().rev().find(|k| shard_of(k) == shard_of(&ks[0]) && !ks.contains(k)).cloned().unwrap_or("never".into());
                    del.insert(1, miss);
                }
                let r = a.execute(Command::Del(del.clone())).await;
                h3.push(format!("A: DEL {} -> {:?}", del.join(" "), r));
                b.apply_remote_deltas(arx.drain());
                h3.push("B: everything A shipped is applied".into());
                let mut bad3 = Vec::new();
                if !matches!(r, RespValue::Integer(n) if n == ks.len() as i64) {
                    bad3.push(format!("reply {:?}, expected {}", r, ks.len()));
                }
                let nil = |x: &RespValue| matches!(x, RespValue::BulkString(None));
                for k in &ks {
                    let ga = a.execute(Command::Get(k.clone())).await;
                    let gb = b.execute(Command::Get(k.clone())).await;
                    if !nil(&ga) || !nil(&gb) {
                        bad3.push(format!("GET {}: A {:?}, B {:?} (both must be nil)", k, ga, gb));
                    }
                }
                let ka = a.execute(Command::Get(keep.clone())).await;
                let kb = b.execute(Command::Get(keep.clone())).await;
                if nil(&ka) || nil(&kb) {
                    bad3.push(format!("GET {}: A {:?}, B {:?} (must survive)", keep, ka, kb));
                }
                out.count(&format!("b:system:multi-key-del:{}{}", placement, if with_missing { "+missing" } else { "" }));
                out.case(&format!("B:system:multi-key-del:{}:{}", placement, with_missing), true);
                if !bad3.is_empty() {
                    out.violation(
                        &format!("C06:front-end:multi-key-del-not-replicated:{}", placement),
                        "a multi-key DEL accepted by a ReplicatedShardedState does not end with every named key deleted on that node and on its peer (each key must ship its own tombstone, wherever its keys are placed on the front-end shards)",
                        json!({"history": h3, "what": bad3}),
                    );
                }
            }
        }
    }
    // multi-key MSET / MGET / EXISTS whose keys live on different shards of the 16 (forwarded by the
    // C05 builder): `execute` routes them whole to the FIRST key's shard (get_primary_key), the
    // per-key fan-out of execute_global is never reached
    {
        let shard_of = |key: &str| {
            use std::hash::{Hash, Hasher};
            let mut h = std::collections::hash_map::DefaultHasher::new();
            key.hash(&mut h);
            (h.finish() as usize) % 16
        };
        let k1 = "ab".to_string();
        let k2 = (0..200).map(|i| format!("w{}", i)).find(|k| shard_of(k) != shard_of(&k1)).unwrap_or("w".into());
        let (c, crx) = mk(3);
        let (d, _drx) = mk(4);
        let mut h2: Vec<String> = Vec::new();
        let int = |r: &RespValue| if let RespValue::Integer(n) = r { Some(*n) } else { None };
        let r1 = c.execute(Command::Incr(k2.clone())).await;
        h2.push(format!("C: INCR {} -> {:?}", k2, int(&r1)));
        let r2 = c.execute(Command::MSet(vec![(k1.clone(), s("5")), (k2.clone(), s("-3"))])).await;
        h2.push(format!("C: MSET {} 5 {} -3 -> {:?}", k1, k2, r2));
        let g2 = c.execute(Command::Get(k2.clone())).await;
        h2.push(format!("C: GET {} -> {:?}", k2, String::from_utf8_lossy(&bulk(&g2))));
        let mg = c.execute(Command::MGet(vec![k1.clone(), k2.clone()])).await;
        let singles = vec![c.execute(Command::Get(k1.clone())).await, c.execute(Command::Get(k2.clone())).await];
        // a third key, on yet another shard than k1, written by a plain SET only
        let k3 = (0..200).map(|i| format!("x{}", i)).find(|k| shard_of(k) != shard_of(&k1)).unwrap_or("x".into());
        c.execute(Command::set(k3.clone(), s("z"))).await;
        let ex = c.execute(Command::Exists(vec![k1.clone(), k3.clone()])).await;
        let ex1 = int(&c.execute(Command::Exists(vec![k1.clone()])).await).unwrap_or(-1) + int(&c.execute(Command::Exists(vec![k3.clone()])).await).unwrap_or(-1);
        h2.push(format!("C: MGET {} {} -> {:?}; SET {} z; EXISTS {} {} -> {:?} (single EXISTS sum {})", k1, k2, mg, k3, k1, k3, int(&ex), ex1));
        // what the peer gets (MSET as the property's SETs would replicate; today nothing is shipped)
        d.apply_remote_deltas(crx.drain());
        let dg = d.execute(Command::Get(k2.clone())).await;
        h2.push(format!("D (peer, after delivery of everything C shipped): GET {} -> {:?}", k2, String::from_utf8_lossy(&bulk(&dg))));
        let mset_ok = bulk(&g2) == b"-3";
        let mget_ok = matches!(&mg, RespValue::Array(Some(v)) if v.len() == 2 && bulk(&v[0]) == bulk(&singles[0]) && bulk(&v[1]) == bulk(&singles[1]));
        let exists_ok = int(&ex) == Some(ex1);
        out.count(if mset_ok { "b:system:mset-across-shards:holds" } else { "b:system:mset-across-shards:fails" });
        out.count(if mget_ok { "b:system:mget-across-shards:holds" } else { "b:system:mget-across-shards:fails" });
        out.count(if exists_ok { "b:system:exists-across-shards:holds" } else { "b:system:exists-across-shards:fails" });
        out.case("B:system:multi-key-across-shards", true);
        for (ok, what) in [(mset_ok, "mset"), (mget_ok, "mget"), (exists_ok, "exists")] {
            if !ok {
                out.violation(
                    &format!("C06:front-end:multi-key-routed-by-first-key:{}", what),
                    "ReplicatedShardedState::execute hands a multi-key MSET / MGET / EXISTS whole to the FIRST key's shard: an acknowledged MSET pair is not readable on the node that accepted it, MGET / EXISTS do not answer what single-key reads of the same node answer",
                    json!({"history": h2.clone()}),
                );
            }
        }
        // after the repair MSET ships one delta per pair: the peer must serve the pair too
        if mset_ok && bulk(&dg) != b"-3" {
            out.violation("C06:front-end:mset-not-replicated-per-key", "MSET is executed per key but its pairs do not reach the peer", json!({"history": h2}));
        }
    }
    out.count(if bad.is_empty() { "b:system:multi-key-del:holds" } else { "b:system:multi-key-del:fails" });
    out.case("B:system:multi-key-del", true);
    if !bad.is_empty() {
        out.violation("C06:glue:multi-key-del", &format!("ReplicatedShardedState::execute: a multi-key DEL is not deleted / replicated key by key: {}", bad.join("; ")), json!({"history": hist}));
    }
}

pub fn run(a: &Args) {
    let mut out = Out::new(&a.out);
    let mut rng = Rng::new(a.seed);
    part_a(&mut out, &mut Rng::new(0xC06), Some(0));
    part_a(&mut out, &mut Rng::new(0xC06), Some(1));
    part_a(&mut out, &mut Rng::new(0xC06), Some(2));
    part_a(&mut out, &mut Rng::new(0xC06), Some(3));
    part_a(&mut out, &mut Rng::new(0xC06), Some(4));
    part_a(&mut out, &mut Rng::new(0xC06), Some(5));
    for _ in 0..a.n {
        let mut r = rng.fork();
        part_a(&mut out, &mut r, None);
    }
    let rt = tokio::runtime::Builder::new_current_thread().enable_all().build().unwrap();
    let nb = (a.n * 2).max(40);
    rt.block_on(part_b(&mut out, &mut rng, nb));
    rt.block_on(crate::c06msg::part_m(&mut out, &mut rng, (a.n / 4).max(60)));
    crate::c06sim::part_s(&mut out, &mut rng, ((a.n / 8).max(40)) as usize);
    out.extra.insert("audit".into(), crate::c06msg::audit());
    out.finish("case (part A) = one cluster history: 2..4 real ShardReplicaStates, 4..40 events (local SET[PX]/DEL/HSET/HDEL (1..6 fields, repetitions) on 3 colliding keys, a third of the local ops followed by write-after-receive (the delta reaches another node, which at once writes one of the touched registers); deliveries of arbitrary earlier deltas to arbitrary nodes incl. duplicates), then usually delivery of everything missing in random order; per key the flags delivered/compat/agree/agreeexp are compared with the model; non-trivial iff some key has ≥ 2 deltas and is fully delivered. Case (part B) = one history on 2..3 real ReplicatedShardActors: 2..10 client commands (SET with NX/XX/GET/EX/PX/KEEPTTL/EXAT/PXAT, GETSET, INCR/DECR/INCRBY/DECRBY, APPEND, DEL of 1..3 keys, HSET/HDEL/HINCRBY, on keys shared between string and hash commands; one third of the histories also MSET/SETNX/GETDEL/EXPIRE/PERSIST/RENAME/RPUSH/MSETNX/FLUSHALL) interleaved with deliveries of arbitrary earlier deltas, then usually delivery of everything missing in random order with duplicates; every step is compared with the Lean glue model (reply, served keyspace, delta / merged value, supported-fragment verdict), then GET/EXISTS/HGETALL/TTL on every node and the per-key flags delivered/kind/agree/reads; non-trivial iff ≥ 2 deltas and complete delivery; plus 23 fixed scenarios and a sweep of every Command variant a shard actor can receive (GA lines for commands outside the model). Distinct by history text");
}
