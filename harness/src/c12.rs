//! C12 — streaming persistence is crash-consistent at every step and loses nothing confirmed.
//! Correspondence: real `StreamingPersistence`, `Compactor`, `RecoveryManager` on a harness-side
//! `ObjectStore` (`FaultStore`) that counts and logs every call, injects the generated fault at
//! the generated call index and snapshots the store at every call boundary (plus a torn variant
//! inside every `put`); real recovery runs on EVERY snapshot and is compared with the model's
//! re-run of the workload crashed at that call.
//! Oracle (real code only): on every snapshot recovery succeeds, the manifest references only
//! complete objects and every update of every flush that returned Ok is absorbed by the recovered
//! fold; after a failed flush the buffer still holds the accepted updates.
use crate::c11::{coherent, fold_real, fold_recovered, show_upds, sorted_map, Upd, PREFIX};
use crate::enc::{hex, MRv};
use crate::out::Out;
use crate::rng::Rng;
use crate::Args;
use redis_sim::io::TimeSource;
use redis_sim::replication::lattice::ReplicaId;
use redis_sim::replication::state::ReplicationDelta;
use redis_sim::streaming::{
    CompactionConfig, CompactionError, Compactor, ListResult, Manifest, ManifestManager, ObjectMeta,
    ObjectStore, RecoveredState, RecoveryError, RecoveryManager, SegmentReader, StreamingPersistence,
    SimulatedClock,
};
use redis_sim::streaming::config::WriteBufferConfig;
use serde_json::json;
use std::collections::BTreeMap;
use std::future::Future;
use std::io::{Error as IoError, ErrorKind, Result as IoResult};
use std::pin::Pin;
use std::sync::{Arc, Mutex};
use std::task::{Context, Poll};

#[derive(Clone, Copy, Debug, PartialEq, Eq)]
pub enum Fault {
    Fail,
    Partial,
}

impl Fault {
    pub fn name(&self) -> &'static str {
        match self {
            Fault::Fail => "fail",
            Fault::Partial => "partial",
        }
    }
}

#[derive(Clone)]
pub struct Snapshot {
    /// store content before the call executes
    pub before: BTreeMap<String, Vec<u8>>,
    /// for a put: (key, torn bytes) — the image of a crash inside the put
    pub torn: Option<(String, Vec<u8>)>,
    pub call: String,
}

pub struct Inner {
    pub objects: BTreeMap<String, Vec<u8>>,
    pub calls: u64,
    pub faults: BTreeMap<u64, Fault>,
    pub log: Vec<String>,
    pub snapshots: Vec<Snapshot>,
    pub record: bool,
    pub unmodelled: u64,
    /// interleaving control (C13): permits per task tag; `None` = ungated
    pub gate: Option<[u64; 2]>,
}

/// harness-side object store: in-memory, counting, fault-injecting, snapshotting, gateable
#[derive(Clone)]
pub struct FaultStore {
    pub inner: Arc<Mutex<Inner>>,
    pub tag: usize,
}

struct Gate {
    inner: Arc<Mutex<Inner>>,
    tag: usize,
}

impl Future for Gate {
    type Output = ();
    fn poll(self: Pin<&mut Self>, _cx: &mut Context<'_>) -> Poll<()> {
        let mut g = self.inner.lock().unwrap();
        match g.gate.as_mut() {
            None => Poll::Ready(()),
            Some(p) => {
                if p[self.tag] > 0 {
                    p[self.tag] -= 1;
                    Poll::Ready(())
                } else {
                    Poll::Pending
                }
            }
        }
    }
}

fn torn_of(data: &[u8]) -> Vec<u8> {
    data[..data.len() / 2].to_vec()
}

impl FaultStore {
    pub fn new(faults: &[(u64, Fault)]) -> FaultStore {
        FaultStore {
            inner: Arc::new(Mutex::new(Inner {
                objects: BTreeMap::new(),
                calls: 0,
                faults: faults.iter().cloned().collect(),
                log: Vec::new(),
                snapshots: Vec::new(),
                record: true,
                unmodelled: 0,
                gate: None,
            })),
            tag: 0,
        }
    }
    pub fn with_tag(&self, tag: usize) -> FaultStore {
        FaultStore { inner: self.inner.clone(), tag }
    }
    pub fn calls(&self) -> u64 {
        self.inner.lock().unwrap().calls
    }
    pub fn image(&self) -> BTreeMap<String, Vec<u8>> {
        self.inner.lock().unwrap().objects.clone()
    }
    pub fn from_image(img: &BTreeMap<String, Vec<u8>>) -> FaultStore {
        let s = FaultStore::new(&[]);
        {
            let mut g = s.inner.lock().unwrap();
            g.objects = img.clone();
            g.record = false;
        }
        s
    }
    /// start of one call: count, log, snapshot, look the fault up
    fn begin(&self, what: String, put: Option<(&str, &[u8])>) -> Option<Fault> {
        let mut g = self.inner.lock().unwrap();
        let idx = g.calls;
        g.calls += 1;
        if g.record {
            let snap = Snapshot {
                before: g.objects.clone(),
                torn: put.map(|(k, d)| (k.to_string(), torn_of(d))),
                call: what.clone(),
            };
            g.snapshots.push(snap);
            g.log.push(format!("{}:{}", idx, what));
        }
        g.faults.get(&idx).cloned()
    }
}

fn injected() -> IoError {
    IoError::new(ErrorKind::Other, "injected fault")
}

impl ObjectStore for FaultStore {
    fn put<'a>(&'a self, key: &'a str, data: &'a [u8]) -> Pin<Box<dyn Future<Output = IoResult<()>> + Send + 'a>> {
        Box::pin(async move {
            Gate { inner: self.inner.clone(), tag: self.tag }.await;
            match self.begin(format!("put {}", key), Some((key, data))) {
                None => {
                    self.inner.lock().unwrap().objects.insert(key.to_string(), data.to_vec());
                    Ok(())
                }
                Some(Fault::Fail) => Err(injected()),
                Some(Fault::Partial) => {
                    self.inner.lock().unwrap().objects.insert(key.to_string(), torn_of(data));
                    Err(injected())
                }
            }
        })
    }
    fn get<'a>(&'a self, key: &'a str) -> Pin<Box<dyn Future<Output = IoResult<Vec<u8>>> + Send + 'a>> {
        Box::pin(async move {
            Gate { inner: self.inner.clone(), tag: self.tag }.await;
            match self.begin(format!("get {}", key), None) {
                None => self
                    .inner
                    .lock()
                    .unwrap()
                    .objects
                    .get(key)
                    .cloned()
                    .ok_or_else(|| IoError::new(ErrorKind::NotFound, format!("Key not found: {}", key))),
                Some(_) => Err(injected()),
            }
        })
    }
    fn exists<'a>(&'a self, key: &'a str) -> Pin<Box<dyn Future<Output = IoResult<bool>> + Send + 'a>> {
        Box::pin(async move {
            Gate { inner: self.inner.clone(), tag: self.tag }.await;
            self.inner.lock().unwrap().unmodelled += 1;
            match self.begin(format!("exists {}", key), None) {
                None => Ok(self.inner.lock().unwrap().objects.contains_key(key)),
                Some(_) => Err(injected()),
            }
        })
    }
    fn delete<'a>(&'a self, key: &'a str) -> Pin<Box<dyn Future<Output = IoResult<()>> + Send + 'a>> {
        Box::pin(async move {
            Gate { inner: self.inner.clone(), tag: self.tag }.await;
            match self.begin(format!("delete {}", key), None) {
                None => {
                    self.inner.lock().unwrap().objects.remove(key);
                    Ok(())
                }
                Some(_) => Err(injected()),
            }
        })
    }
    fn list<'a>(&'a self, prefix: &'a str, _t: Option<&'a str>) -> Pin<Box<dyn Future<Output = IoResult<ListResult>> + Send + 'a>> {
        Box::pin(async move {
            Gate { inner: self.inner.clone(), tag: self.tag }.await;
            match self.begin(format!("list {}", prefix), None) {
                None => {
                    let g = self.inner.lock().unwrap();
                    let objects = g
                        .objects
                        .iter()
                        .filter(|(k, _)| k.starts_with(prefix))
                        .map(|(k, v)| ObjectMeta { key: k.clone(), size_bytes: v.len() as u64, created_at_ms: 0, etag: None })
                        .collect();
                    Ok(ListResult { objects, continuation_token: None })
                }
                Some(_) => Err(injected()),
            }
        })
    }
    fn rename<'a>(&'a self, from: &'a str, to: &'a str) -> Pin<Box<dyn Future<Output = IoResult<()>> + Send + 'a>> {
        Box::pin(async move {
            Gate { inner: self.inner.clone(), tag: self.tag }.await;
            match self.begin(format!("rename {} {}", from, to), None) {
                None => {
                    let mut g = self.inner.lock().unwrap();
                    match g.objects.remove(from) {
                        Some(o) => {
                            g.objects.insert(to.to_string(), o);
                            Ok(())
                        }
                        None => Err(IoError::new(ErrorKind::NotFound, format!("Source key not found: {}", from))),
                    }
                }
                Some(_) => Err(injected()),
            }
        })
    }
    fn head<'a>(&'a self, key: &'a str) -> Pin<Box<dyn Future<Output = IoResult<ObjectMeta>> + Send + 'a>> {
        Box::pin(async move {
            Gate { inner: self.inner.clone(), tag: self.tag }.await;
            self.inner.lock().unwrap().unmodelled += 1;
            match self.begin(format!("head {}", key), None) {
                None => self
                    .inner
                    .lock()
                    .unwrap()
                    .objects
                    .get(key)
                    .map(|v| ObjectMeta { key: key.to_string(), size_bytes: v.len() as u64, created_at_ms: 0, etag: None })
                    .ok_or_else(|| IoError::new(ErrorKind::NotFound, "Key not found")),
                Some(_) => Err(injected()),
            }
        })
    }
}

/// a `TimeSource` whose `now_millis() - ttl` is the cutoff the case wants
#[derive(Clone)]
pub struct FixedTime(pub u64);
impl TimeSource for FixedTime {
    fn now_millis(&self) -> u64 {
        self.0
    }
}

pub fn wb_config() -> WriteBufferConfig {
    WriteBufferConfig {
        flush_interval: std::time::Duration::from_secs(3600),
        max_size_bytes: 1 << 30,
        max_deltas: 1 << 30,
        backpressure_threshold_bytes: 1 << 40,
        compression_enabled: false,
    }
}

#[derive(Clone, Debug)]
pub struct CCfg {
    pub target: u64,
    pub min: u64,
    pub maxper: u64,
    pub cutoff: u64,
}

pub const TTL_MS: u64 = 1000;

pub fn compactor(store: &FaultStore, c: &CCfg) -> Compactor<FaultStore, FixedTime> {
    let cfg = CompactionConfig {
        target_segment_size: c.target as usize,
        max_segments: 0,
        min_segments_to_compact: c.min as usize,
        max_segments_per_compaction: c.maxper as usize,
        tombstone_ttl: std::time::Duration::from_millis(TTL_MS),
        compression_enabled: false,
    };
    Compactor::with_time_source(
        Arc::new(store.clone()),
        PREFIX.to_string(),
        ManifestManager::new(store.clone(), PREFIX),
        cfg,
        FixedTime(c.cutoff + TTL_MS),
    )
}

pub fn show_sorted_deltas(ds: &[ReplicationDelta]) -> String {
    let mut v: Vec<String> = ds.iter().map(|d| format!("{} {} ;", hex(d.key.as_bytes()), MRv::from_real(&d.value).show())).collect();
    v.sort();
    let mut s = v.len().to_string();
    for x in v {
        s.push(' ');
        s.push_str(&x);
    }
    s
}

pub fn show_rec(r: &Result<RecoveredState, RecoveryError>) -> String {
    match r {
        Err(RecoveryError::Manifest(_)) => "err manifest".into(),
        Err(RecoveryError::Checkpoint(_)) => "err checkpoint".into(),
        Err(RecoveryError::Segment(_)) => "err segment".into(),
        Err(RecoveryError::Io(_)) => "err io".into(),
        Ok(r) => {
            let chk = match &r.checkpoint_state {
                None => "-".to_string(),
                Some(m) => show_upds(&sorted_map(m)),
            };
            format!("ok chk={} deltas {} fold {}", chk, show_sorted_deltas(&r.deltas), show_upds(&sorted_map(&fold_recovered(r))))
        }
    }
}

/// does the manifest of this image reference only complete objects (and parse itself)?
pub fn refs_complete(img: &BTreeMap<String, Vec<u8>>) -> bool {
    match img.get(&format!("{}/manifest.json", PREFIX)) {
        None => true,
        Some(bytes) => match serde_json::from_slice::<Manifest>(bytes) {
            Err(_) => false,
            Ok(m) => {
                m.segments.iter().all(|s| match img.get(&s.key) {
                    None => false,
                    Some(d) => match SegmentReader::open(d) {
                        Err(_) => false,
                        Ok(r) => r.validate().is_ok() && r.read_all().is_ok(),
                    },
                }) && m.checkpoint.as_ref().map(|c| img.contains_key(&c.key)).unwrap_or(true)
            }
        },
    }
}

pub async fn recover_image(img: &BTreeMap<String, Vec<u8>>, rid: u64) -> Result<RecoveredState, RecoveryError> {
    let st = FaultStore::from_image(img);
    RecoveryManager::new(st, PREFIX, rid).recover().await
}

/// one process under test
pub struct Proc {
    pub store: FaultStore,
    pub pers: StreamingPersistence<FaultStore, SimulatedClock>,
    pub rid: u64,
    pub text: String,
    /// updates of every flush that returned Ok
    pub acked: Vec<Upd>,
    /// updates pushed and not yet acked
    pub pending: Vec<Upd>,
    /// boundaries (store-call counts) at which an acked set became valid
    pub acked_at: Vec<(u64, usize)>,
    /// segments written by flushes that returned Ok: (id, size_bytes, updates)
    pub segs: Vec<(u64, u64, Vec<Upd>)>,
}

impl Proc {
    pub async fn new(out: &mut Out, rid: u64, faults: &[(u64, Fault)]) -> Proc {
        let store = FaultStore::new(&[]);
        // construction loads the manifest once: not part of the modelled workload
        {
            store.inner.lock().unwrap().record = false;
        }
        let pers = StreamingPersistence::with_clock(Arc::new(store.clone()), PREFIX.to_string(), rid, wb_config(), SimulatedClock::new(0))
            .await
            .expect("construct StreamingPersistence");
        {
            let mut g = store.inner.lock().unwrap();
            g.calls = 0;
            g.record = true;
            g.faults = faults.iter().cloned().collect();
        }
        let mut line = format!("NEW {} {}", rid, faults.len());
        for (i, f) in faults {
            line.push_str(&format!(" {} {}", i, f.name()));
        }
        let mut p = Proc { store, pers, rid, text: String::new(), acked: Vec::new(), pending: Vec::new(), acked_at: vec![(0, 0)], segs: Vec::new() };
        p.log(out, line, "ok".into());
        p
    }
    pub fn log(&mut self, out: &mut Out, op: String, ans: String) {
        self.text.push_str(&op);
        self.text.push(';');
        out.op(op, ans);
    }
    pub fn push(&mut self, out: &mut Out, u: &Upd) {
        let d = ReplicationDelta::new(u.0.clone(), u.1.clone(), ReplicaId::new(self.rid));
        self.pers.push(d).expect("push below backpressure threshold");
        self.pending.push(u.clone());
        let a = format!("ok pending={}", self.pers.pending_count());
        self.log(out, format!("PUSH {} {}", hex(u.0.as_bytes()), MRv::from_real(&u.1).show()), a);
    }
    /// returns true iff the flush returned Ok
    pub async fn flush(&mut self, out: &mut Out) -> bool {
        let before = self.pending.len();
        let r = self.pers.flush().await;
        let calls = self.store.calls();
        let (sz, ans, ok) = match &r {
            Ok(fr) => match &fr.segment {
                None => (0, format!("ok empty calls={}", calls), true),
                Some(s) => (s.size_bytes, format!("ok seg={} n={} pending={} calls={}", s.id, fr.deltas_flushed, self.pers.pending_count(), calls), true),
            },
            Err(_) => (0, format!("err pending={} calls={}", self.pers.pending_count(), calls), false),
        };
        if ok {
            if let Ok(fr) = &r {
                if let Some(sg) = &fr.segment {
                    self.segs.push((sg.id, sg.size_bytes, self.pending.clone()));
                }
            }
            self.acked.extend(self.pending.drain(..));
            self.acked_at.push((calls, self.acked.len()));
        } else {
            out.count("flush:err");
            // oracle: an accepted update is not silently discarded by a failed flush
            if self.pers.pending_count() < before {
                out.violation(
                    "C12:failed-flush-drops-buffer",
                    &format!("flush() returned Err and pending_count() went from {} to {}: the accepted updates are gone while the process keeps running", before, self.pers.pending_count()),
                    json!({"workload": self.text, "store_calls": self.store.inner.lock().unwrap().log.clone()}),
                );
                // the real buffer is empty now: what the process can still flush later is nothing
                self.pending.clear();
            }
        }
        self.log(out, format!("FLUSH {}", sz), ans);
        ok
    }
    pub async fn compact(&mut self, out: &mut Out, c: &CCfg) -> Result<redis_sim::streaming::CompactionResult, CompactionError> {
        let mut comp = compactor(&self.store, c);
        let r = comp.compact().await;
        let calls = self.store.calls();
        let ids = |l: &Vec<redis_sim::streaming::SegmentInfo>| format!("[{}]", l.iter().map(|s| s.id.to_string()).collect::<Vec<_>>().join(","));
        let (sz, ans) = match &r {
            Err(CompactionError::NothingToCompact) => (0, "nothing".to_string()),
            Err(_) => (0, "err".to_string()),
            Ok(cr) => match &cr.segment_created {
                Some(s) => (s.size_bytes, format!("compacted {} -> {} n={} tombs={}", ids(&cr.segments_removed), s.id, s.record_count, cr.tombstones_removed)),
                None => {
                    if cr.deltas_before == 0 && cr.bytes_reclaimed == 0 && cr.tombstones_removed == 0 && cr.deltas_after == 0 && is_cleaned(cr) {
                        (0, format!("cleaned {}", ids(&cr.segments_removed)))
                    } else {
                        (0, format!("emptied {} tombs={}", ids(&cr.segments_removed), cr.tombstones_removed))
                    }
                }
            },
        };
        self.log(out, format!("COMPACT {} {} {} {} {}", c.target, c.min, c.maxper, c.cutoff, sz), format!("{} calls={}", ans, calls));
        r
    }
    pub async fn rec(&mut self, out: &mut Out) -> Result<RecoveredState, RecoveryError> {
        let img = self.store.image();
        let r = recover_image(&img, self.rid).await;
        let a = show_rec(&r);
        self.log(out, "REC".into(), a);
        r
    }
}

/// the "only missing segments" early return of `compact` has `deltas_before == 0` and no deletes
fn is_cleaned(cr: &redis_sim::streaming::CompactionResult) -> bool {
    cr.deltas_before == 0
}

// ---------------------------------------------------------------------------------------------

const KEYS: [&str; 4] = ["k", "k2", "h", "é"];

pub fn lww_upd(key: &str, val: &[u8], t: u64, r: u64, tomb: bool) -> Upd {
    let m = MRv {
        crdt: crate::enc::MCrdt::Lww(crate::enc::MLww { v: if tomb { None } else { Some(val.to_vec()) }, t, r, tomb }),
        vc: None,
        exp: None,
        t,
        r,
        rf: None,
    };
    (key.to_string(), m.to_real())
}

/// every store-call boundary of the finished run: real recovery on the snapshot, oracle, and the
/// `CRASH` correspondence line
async fn crash_points(out: &mut Out, p: &mut Proc, all: &[Upd]) {
    let snaps: Vec<Snapshot> = p.store.inner.lock().unwrap().snapshots.clone();
    let total = snaps.len() as u64;
    let co = coherent(all);
    for (c, s) in snaps.iter().enumerate() {
        let mut variants: Vec<(u8, BTreeMap<String, Vec<u8>>)> = vec![(0, s.before.clone())];
        if let Some((k, torn)) = &s.torn {
            let mut img = s.before.clone();
            img.insert(k.clone(), torn.clone());
            variants.push((1, img));
        }
        for (tornflag, img) in variants {
            let r = recover_image(&img, p.rid).await;
            let refs = refs_complete(&img);
            let ans = format!("{} refs={}", show_rec(&r), refs as u8);
            out.op(format!("CRASH {} {}", c, tornflag), ans);
            out.count("crash-point");
            // which flushes had returned Ok when call c was issued?
            let nack = p.acked_at.iter().filter(|(at, _)| *at <= c as u64).map(|(_, n)| *n).max().unwrap_or(0);
            check_image(out, p, &r, refs, &p.acked[..nack].to_vec(), co, &format!("crash@{}{} of {} ({})", c, if tornflag == 1 { "+torn" } else { "" }, total, s.call));
        }
    }
    // the final image (no crash)
    let img = p.store.image();
    let r = recover_image(&img, p.rid).await;
    let refs = refs_complete(&img);
    out.op(format!("CRASH {} 0", total), format!("{} refs={}", show_rec(&r), refs as u8));
    let acked = p.acked.clone();
    check_image(out, p, &r, refs, &acked, co, "final image");
}

fn check_image(out: &mut Out, p: &Proc, r: &Result<RecoveredState, RecoveryError>, refs: bool, acked: &[Upd], co: bool, at: &str) {
    let replay = |extra: serde_json::Value| json!({"workload": p.text, "at": at, "store_calls": p.store.inner.lock().unwrap().log.clone(), "detail": extra});
    if !refs {
        out.violation("C12:manifest-references-incomplete-object", "the manifest references a missing or partially written object", replay(json!(null)));
    }
    match r {
        Err(e) => out.violation("C12:recovery-fails-on-crash-image", &format!("recover() fails on the store image: {}", e), replay(json!(null))),
        Ok(rs) => {
            if !co {
                out.count("excluded:incoherent-workload");
                return;
            }
            let f = fold_recovered(rs);
            let lost: Vec<String> = acked
                .iter()
                .filter(|(k, v)| match f.get(k) {
                    None => true,
                    Some(u) => MRv::from_real(&v.merge(u)) != MRv::from_real(u),
                })
                .map(|(k, v)| format!("{} {}", hex(k.as_bytes()), MRv::from_real(v).show()))
                .collect();
            if !lost.is_empty() {
                let sig = classify_loss(p);
                out.violation(&sig, "an update of a flush that returned Ok is not contained in the recovered state", replay(json!({"lost": lost})));
            }
        }
    }
}

/// signature of a confirmed-update loss: which mechanism removed it
fn classify_loss(p: &Proc) -> String {
    let g = p.store.inner.lock().unwrap();
    let faulted_get_seg = g.faults.iter().any(|(i, _)| g.log.get(*i as usize).map(|l| l.contains("get ") && l.contains("/segments/")).unwrap_or(false));
    if faulted_get_seg && p.text.contains("COMPACT") {
        "C12:compact:get-error-treated-as-missing".to_string()
    } else if p.text.contains("COMPACT") {
        "C12:compact:confirmed-update-lost".to_string()
    } else {
        "C12:flush:confirmed-update-lost".to_string()
    }
}

fn gen_workload_updates(rng: &mut Rng, n: usize) -> Vec<Upd> {
    // one replica per (key) stamps strictly increasing per key: LWW writes, a few tombstones;
    // compaction's keep-latest agrees with merge on these (C13 owns the layouts where it does not)
    let mut clock = rng.range(1, 50);
    (0..n)
        .map(|_| {
            clock += rng.range(1, 3);
            let key = *rng.pick(&KEYS);
            let tomb = rng.chance(1, 6);
            lww_upd(key, format!("v{}", rng.below(40)).as_bytes(), clock, 1, tomb)
        })
        .collect()
}

async fn case(out: &mut Out, rng: &mut Rng, corpus: Option<&str>) {
    // a first fault-free pass is not needed: faults are placed by call index over a generated
    // workload whose call count is bounded by its length
    let (script, faults): (Vec<u8>, Vec<(u64, Fault)>) = match corpus {
        // DESIGN §6.1: push 2, flush while the segment put fails
        Some("flush-put-fails") => (vec![0, 0, 1], vec![(1, Fault::Fail)]),
        // 2 segments, compaction whose get of the first segment fails transiently
        Some("compact-get-fails") => (vec![0, 1, 0, 1, 2], vec![(9, Fault::Fail)]),
        _ => {
            let n = rng.range(2, 9) as usize;
            let mut s: Vec<u8> = Vec::new();
            for _ in 0..n {
                s.push(match rng.below(10) {
                    0..=4 => 0,
                    5..=7 => 1,
                    _ => 2,
                });
            }
            s.push(1);
            if rng.chance(1, 2) {
                s.push(2);
            }
            let nf = match rng.below(4) {
                0 => 0,
                1 | 2 => 1,
                _ => 2,
            };
            let f = (0..nf)
                .map(|_| (rng.below(4 * s.len() as u64 + 2), if rng.chance(1, 2) { Fault::Fail } else { Fault::Partial }))
                .collect::<BTreeMap<u64, Fault>>()
                .into_iter()
                .collect();
            (s, f)
        }
    };
    let npush = script.iter().filter(|x| **x == 0).count();
    let ups = gen_workload_updates(rng, npush);
    let mut p = Proc::new(out, 1, &faults).await;
    let mut ui = 0;
    let mut any_err = false;
    for op in &script {
        match op {
            0 => {
                p.push(out, &ups[ui]);
                ui += 1;
                out.count("op:push");
            }
            1 => {
                let ok = p.flush(out).await;
                any_err |= !ok;
                out.count("op:flush");
            }
            _ => {
                // no tombstone GC here (cutoff 0): C13 owns GC
                let c = CCfg { target: if rng.chance(1, 5) { 300 } else { 1 << 20 }, min: rng.range(1, 3), maxper: rng.range(2, 5), cutoff: 0 };
                let r = p.compact(out, &c).await;
                any_err |= matches!(r, Err(CompactionError::Io(_)) | Err(CompactionError::Manifest(_)) | Err(CompactionError::Segment(_)));
                out.count("op:compact");
            }
        }
    }
    for (i, f) in &faults {
        let hit = p.store.inner.lock().unwrap().log.get(*i as usize).cloned();
        match hit {
            Some(l) => out.count(&format!("fault:{}:{}", f.name(), l.split(' ').next().unwrap_or("?").split(':').nth(1).unwrap_or("?"))),
            None => out.count("fault:beyond-last-call"),
        }
    }
    let um = p.store.inner.lock().unwrap().unmodelled;
    if um > 0 {
        out.violation("C12:unmodelled-store-call", "the code under test issued exists()/head(), which the model does not have", json!({"workload": p.text}));
    }
    p.rec(out).await.ok();
    crash_points(out, &mut p, &ups).await;
    let _ = fold_real(&ups);
    out.case(&p.text, !p.acked.is_empty() && (any_err || !faults.is_empty() || p.text.contains("COMPACT")));
    out.sample(json!({"workload": p.text, "store_calls": p.store.inner.lock().unwrap().log.clone()}));
}

pub fn run(a: &Args) {
    let mut out = Out::new(&a.out);
    let mut rng = Rng::new(a.seed);
    let rt = tokio::runtime::Builder::new_current_thread().enable_all().build().unwrap();
    rt.block_on(async {
        case(&mut out, &mut Rng::new(0xC12), Some("flush-put-fails")).await;
        case(&mut out, &mut Rng::new(0xC12), Some("compact-get-fails")).await;
        for _ in 0..a.n {
            let mut r = rng.fork();
            case(&mut out, &mut r, None).await;
        }
    });
    out.finish("case = one workload of 3..11 push/flush/compact operations on a real StreamingPersistence + Compactor over a counting, fault-injecting, snapshotting ObjectStore (0..2 faults {error without effect, error after a torn object} at generated call indices), followed by real recovery on the store image at EVERY call boundary (and inside every put); distinct by the op text incl. the fault placement; non-trivial iff some flush returned Ok and the run has a fault, an error or a compaction");
}
