//! C12 — streaming persistence is crash-consistent at every step and loses nothing confirmed.
//! Correspondence: real `StreamingPersistence`, `Compactor`, `RecoveryManager` on a harness-side
//! `ObjectStore` (`FaultStore`) that counts and logs every call, injects the generated fault at
//! the generated call index and snapshots the store at every call boundary (plus a torn variant
//! inside every `put`); real recovery runs on EVERY snapshot and is compared with the model's
//! re-run of the workload crashed at that call.
//! Oracle (real code only): on every snapshot recovery succeeds, the manifest references only
//! complete objects and every update of every flush that returned Ok is absorbed by the recovered
//! fold; after a failed flush the buffer still holds the accepted updates.
use crate::c11::{coherent, fold_real, fold_recovered, show_upds, sorted_map, Upd, PREFIX};
use crate::enc::{hex, MRv};
use crate::out::Out;
use crate::rng::Rng;
use crate::Args;
use redis_sim::io::TimeSource;
use redis_sim::replication::lattice::ReplicaId;
use redis_sim::replication::state::ReplicationDelta;
use redis_sim::streaming::{
    CompactionConfig, CompactionError, Compactor, ListResult, Manifest, ManifestManager, ObjectMeta,
    ObjectStore, RecoveredState, RecoveryError, RecoveryManager, SegmentReader, StreamingPersistence,
    SimulatedClock,
};
use redis_sim::streaming::config::WriteBufferConfig;
use serde_json::json;
use std::collections::BTreeMap;
use std::future::Future;
use std::io::{Error as IoError, ErrorKind, Result as IoResult};
use std::pin::Pin;
use std::sync::{Arc, Mutex};
use std::task::{Context, Poll};

/// Does the compactor SKIP a segment whose body validates but does not decode completely?
/// `false`: the unchanged tree merges the readable prefix and removes the segment (known finding
/// C12:compact:partially-decoded-segment-removed); such cases are oracle-only because the model
/// (`Fault.readCorrupt`: any body that does not parse is skipped) describes the repaired code.
/// Set to `true` once /repo has the fix (branch fixes-stream-2, e3c4c78): the cases are then
/// compared with the model as `corrupt` reads.
pub const PARTIAL_DECODE_SKIPS: bool = true;

#[derive(Clone, Copy, Debug, PartialEq, Eq, PartialOrd, Ord)]
pub enum Fault {
    /// the call returns an error, nothing changed
    Fail,
    /// a put leaves a torn object and returns an error
    Partial,
    /// READ corruption (get only; any other call: no effect): the body is cut at `permille` of its length
    ReadTrunc { permille: u16, persistent: bool },
    /// READ corruption: `n` bytes flipped (xor `mask`) starting at `permille` of the length, 7 bytes apart
    ReadFlip { permille: u16, n: u8, mask: u8, persistent: bool },
    /// READ corruption: the byte at absolute position `pos` xor `mask` (targeted corpus cases)
    ReadFlipAbs { pos: u32, mask: u8 },
    /// READ corruption: the body is cut to exactly `len` bytes (targeted corpus cases)
    ReadTruncAbs { len: u32 },
    /// READ corruption: empty body
    ReadEmpty { persistent: bool },
    /// READ returns the previous version of the object (if the key was ever overwritten)
    ReadStale,
}

impl Fault {
    pub fn name(&self) -> &'static str {
        match self {
            Fault::Fail => "fail",
            Fault::Partial => "partial",
            Fault::ReadTrunc { .. } | Fault::ReadTruncAbs { .. } => "read-trunc",
            Fault::ReadFlip { .. } | Fault::ReadFlipAbs { .. } => "read-flip",
            Fault::ReadEmpty { .. } => "read-empty",
            Fault::ReadStale => "read-stale",
        }
    }
    pub fn is_read(&self) -> bool {
        !matches!(self, Fault::Fail | Fault::Partial)
    }
    pub fn persistent(&self) -> bool {
        matches!(self, Fault::ReadTrunc { persistent: true, .. } | Fault::ReadFlip { persistent: true, .. } | Fault::ReadEmpty { persistent: true })
    }
    /// the mangled body
    pub fn mangle(&self, data: &[u8], previous: Option<&Vec<u8>>) -> Vec<u8> {
        match self {
            Fault::ReadTrunc { permille, .. } => data[..(data.len() * *permille as usize / 1000).min(data.len())].to_vec(),
            Fault::ReadFlip { permille, n, mask, .. } => {
                let mut d = data.to_vec();
                if !d.is_empty() {
                    let start = (d.len() * *permille as usize / 1000).min(d.len() - 1);
                    for i in 0..*n as usize {
                        let p = start + 7 * i;
                        if p < d.len() {
                            d[p] ^= if *mask == 0 { 1 } else { *mask };
                        }
                    }
                }
                d
            }
            Fault::ReadTruncAbs { len } => data[..(*len as usize).min(data.len())].to_vec(),
            Fault::ReadFlipAbs { pos, mask } => {
                let mut d = data.to_vec();
                if (*pos as usize) < d.len() {
                    d[*pos as usize] ^= *mask;
                }
                d
            }
            Fault::ReadEmpty { .. } => Vec::new(),
            Fault::ReadStale => previous.cloned().unwrap_or_else(|| data.to_vec()),
            _ => data.to_vec(),
        }
    }
}

/// what became of one injected read fault
#[derive(Clone, Debug)]
pub struct ReadFaultRec {
    pub idx: u64,
    pub key: String,
    pub kind: &'static str,
    pub persistent: bool,
    /// "manifest" | "segment" | "other"
    pub object: &'static str,
    /// "rejected" (every parser refuses the body), "validates-undecodable" (segment: opens and
    /// validates, the records do not decode completely), "benign" (parses to the same content),
    /// "accepted-different" (parses to DIFFERENT content: the format cannot detect it)
    pub outcome: &'static str,
}

fn decode_segment(d: &[u8]) -> Option<Vec<String>> {
    let r = SegmentReader::open(d).ok()?;
    r.validate().ok()?;
    let ds = r.read_all().ok()?;
    // canonical text (hash values hold HashMaps: byte-wise serialisation is not canonical)
    Some(ds.iter().map(|x| format!("{} {} {}", hex(x.key.as_bytes()), MRv::from_real(&x.value).show(), x.source_replica.0)).collect())
}

fn classify_read(key: &str, orig: &[u8], mangled: &[u8]) -> (&'static str, &'static str) {
    if key.ends_with("manifest.json") {
        let a = serde_json::from_slice::<Manifest>(orig).ok();
        let b = serde_json::from_slice::<Manifest>(mangled).ok();
        ("manifest", match (a, b) {
            (_, None) => "rejected",
            (Some(x), Some(y)) if x == y => "benign",
            _ => "accepted-different",
        })
    } else if key.contains("/segments/") {
        let validates = SegmentReader::open(mangled).ok().map(|r| r.validate().is_ok()).unwrap_or(false);
        ("segment", match (decode_segment(orig), decode_segment(mangled)) {
            // opens and validates (checksums fine) but the records do not decode completely
            (_, None) if validates => "validates-undecodable",
            (_, None) => "rejected",
            (Some(x), Some(y)) if x == y => "benign",
            _ => "accepted-different",
        })
    } else {
        ("other", if orig == mangled { "benign" } else { "rejected" })
    }
}

#[derive(Clone)]
pub struct Snapshot {
    /// store content before the call executes
    pub before: BTreeMap<String, Vec<u8>>,
    /// for a put: (key, torn bytes) — the image of a crash inside the put
    pub torn: Option<(String, Vec<u8>)>,
    pub call: String,
}

pub struct Inner {
    pub objects: BTreeMap<String, Vec<u8>>,
    pub calls: u64,
    pub faults: BTreeMap<u64, Fault>,
    pub log: Vec<String>,
    /// which handle (task tag) issued each logged call
    pub log_tags: Vec<usize>,
    pub snapshots: Vec<Snapshot>,
    pub record: bool,
    /// read-only probes (`exists` / `head` / `list`): calls the modelled operations of the current
    /// tree do not issue.  They are NOT numbered with the modelled calls (no fault index, no crash
    /// point of their own: a crash before or after a read-only call leaves the image of the
    /// neighbouring boundary), so code that merely adds such a probe is indistinguishable here;
    /// they have their own counter, log and (oracle-only) fault schedule.
    pub probes: u64,
    pub probe_log: Vec<String>,
    pub probe_faults: BTreeMap<u64, Fault>,
    pub probe_faults_hit: u64,
    pub unmodelled: u64,
    /// previous version of every key that was overwritten (for stale reads)
    pub previous: BTreeMap<String, Vec<u8>>,
    /// what became of every injected read fault that hit a `get`
    pub read_faults: Vec<ReadFaultRec>,
    /// interleaving control (C13): permits per task tag; `None` = ungated
    pub gate: Option<[u64; 2]>,
    /// a runtime-friendly stall (c12x: the persistence actor blocked inside a store call while the
    /// bridge keeps filling its mailbox): every call first takes a permit of this semaphore
    pub hold: Option<Arc<tokio::sync::Semaphore>>,
    /// every modelled call returns an error without effect while this is set (the call is counted)
    pub fail_all: bool,
}

/// harness-side object store: in-memory, counting, fault-injecting, snapshotting, gateable
#[derive(Clone)]
pub struct FaultStore {
    pub inner: Arc<Mutex<Inner>>,
    pub tag: usize,
}

struct Gate {
    inner: Arc<Mutex<Inner>>,
    tag: usize,
}

impl Future for Gate {
    type Output = ();
    fn poll(self: Pin<&mut Self>, _cx: &mut Context<'_>) -> Poll<()> {
        let mut g = self.inner.lock().unwrap();
        match g.gate.as_mut() {
            None => Poll::Ready(()),
            Some(p) => {
                if p[self.tag] > 0 {
                    p[self.tag] -= 1;
                    Poll::Ready(())
                } else {
                    Poll::Pending
                }
            }
        }
    }
}

fn torn_of(data: &[u8]) -> Vec<u8> {
    data[..data.len() / 2].to_vec()
}

impl FaultStore {
    pub fn new(faults: &[(u64, Fault)]) -> FaultStore {
        FaultStore {
            inner: Arc::new(Mutex::new(Inner {
                objects: BTreeMap::new(),
                calls: 0,
                faults: faults.iter().cloned().collect(),
                log: Vec::new(),
                log_tags: Vec::new(),
                snapshots: Vec::new(),
                record: true,
                probes: 0,
                probe_log: Vec::new(),
                probe_faults: BTreeMap::new(),
                probe_faults_hit: 0,
                unmodelled: 0,
                previous: BTreeMap::new(),
                read_faults: Vec::new(),
                gate: None,
                hold: None,
                fail_all: false,
            })),
            tag: 0,
        }
    }
    pub fn with_tag(&self, tag: usize) -> FaultStore {
        FaultStore { inner: self.inner.clone(), tag }
    }
    pub fn calls(&self) -> u64 {
        self.inner.lock().unwrap().calls
    }
    pub fn image(&self) -> BTreeMap<String, Vec<u8>> {
        self.inner.lock().unwrap().objects.clone()
    }
    pub fn from_image(img: &BTreeMap<String, Vec<u8>>) -> FaultStore {
        let s = FaultStore::new(&[]);
        {
            let mut g = s.inner.lock().unwrap();
            g.objects = img.clone();
            g.record = false;
        }
        s
    }
    /// start of one call: count, log, snapshot, look the fault up
    fn begin(&self, what: String, put: Option<(&str, &[u8])>) -> Option<Fault> {
        let mut g = self.inner.lock().unwrap();
        let idx = g.calls;
        g.calls += 1;
        if g.record {
            let snap = Snapshot {
                before: g.objects.clone(),
                torn: put.map(|(k, d)| (k.to_string(), torn_of(d))),
                call: what.clone(),
            };
            g.snapshots.push(snap);
            g.log.push(format!("{}:{}", idx, what));
            g.log_tags.push(self.tag);
        }
        if g.fail_all {
            return Some(Fault::Fail);
        }
        g.faults.get(&idx).cloned()
    }
    /// wait for a permit when the store is held
    async fn held(&self) {
        let h = self.inner.lock().unwrap().hold.clone();
        if let Some(h) = h {
            if let Ok(p) = h.acquire().await {
                p.forget();
            }
        }
    }
}

impl FaultStore {
    /// a read-only probe: counted separately, faultable only through `probe_faults`
    fn probe(&self, what: String) -> bool {
        let mut g = self.inner.lock().unwrap();
        let k = g.probes;
        g.probes += 1;
        g.probe_log.push(format!("p{}:{}", k, what));
        if g.probe_faults.contains_key(&k) {
            g.probe_faults_hit += 1;
            true
        } else {
            false
        }
    }
}

fn injected() -> IoError {
    IoError::new(ErrorKind::Other, "injected fault")
}

impl ObjectStore for FaultStore {
    fn put<'a>(&'a self, key: &'a str, data: &'a [u8]) -> Pin<Box<dyn Future<Output = IoResult<()>> + Send + 'a>> {
        Box::pin(async move {
            Gate { inner: self.inner.clone(), tag: self.tag }.await;
            self.held().await;
            match self.begin(format!("put {}", key), Some((key, data))).filter(|f| !f.is_read()) {
                None => {
                    let mut g = self.inner.lock().unwrap();
                    if let Some(old) = g.objects.insert(key.to_string(), data.to_vec()) {
                        g.previous.insert(key.to_string(), old);
                    }
                    Ok(())
                }
                Some(Fault::Partial) => {
                    self.inner.lock().unwrap().objects.insert(key.to_string(), torn_of(data));
                    Err(injected())
                }
                Some(_) => Err(injected()),
            }
        })
    }
    fn get<'a>(&'a self, key: &'a str) -> Pin<Box<dyn Future<Output = IoResult<Vec<u8>>> + Send + 'a>> {
        Box::pin(async move {
            Gate { inner: self.inner.clone(), tag: self.tag }.await;
            self.held().await;
            match self.begin(format!("get {}", key), None) {
                None => self
                    .inner
                    .lock()
                    .unwrap()
                    .objects
                    .get(key)
                    .cloned()
                    .ok_or_else(|| IoError::new(ErrorKind::NotFound, format!("Key not found: {}", key))),
                Some(f) if f.is_read() => {
                    let mut g = self.inner.lock().unwrap();
                    let idx = g.calls - 1;
                    match g.objects.get(key).cloned() {
                        None => Err(IoError::new(ErrorKind::NotFound, format!("Key not found: {}", key))),
                        Some(orig) => {
                            let mangled = f.mangle(&orig, g.previous.get(key));
                            let (object, outcome) = classify_read(key, &orig, &mangled);
                            g.read_faults.push(ReadFaultRec { idx, key: key.to_string(), kind: f.name(), persistent: f.persistent(), object, outcome });
                            if f.persistent() {
                                g.objects.insert(key.to_string(), mangled.clone());
                            }
                            Ok(mangled)
                        }
                    }
                }
                Some(_) => Err(injected()),
            }
        })
    }
    fn exists<'a>(&'a self, key: &'a str) -> Pin<Box<dyn Future<Output = IoResult<bool>> + Send + 'a>> {
        Box::pin(async move {
            Gate { inner: self.inner.clone(), tag: self.tag }.await;
            self.held().await;
            if self.probe(format!("exists {}", key)) {
                return Err(injected());
            }
            Ok(self.inner.lock().unwrap().objects.contains_key(key))
        })
    }
    fn delete<'a>(&'a self, key: &'a str) -> Pin<Box<dyn Future<Output = IoResult<()>> + Send + 'a>> {
        Box::pin(async move {
            Gate { inner: self.inner.clone(), tag: self.tag }.await;
            self.held().await;
            match self.begin(format!("delete {}", key), None).filter(|f| !f.is_read()) {
                None => {
                    self.inner.lock().unwrap().objects.remove(key);
                    Ok(())
                }
                Some(_) => Err(injected()),
            }
        })
    }
    fn list<'a>(&'a self, prefix: &'a str, _t: Option<&'a str>) -> Pin<Box<dyn Future<Output = IoResult<ListResult>> + Send + 'a>> {
        Box::pin(async move {
            Gate { inner: self.inner.clone(), tag: self.tag }.await;
            self.held().await;
            if self.probe(format!("list {}", prefix)) {
                return Err(injected());
            }
            let g = self.inner.lock().unwrap();
            let objects = g
                .objects
                .iter()
                .filter(|(k, _)| k.starts_with(prefix))
                .map(|(k, v)| ObjectMeta { key: k.clone(), size_bytes: v.len() as u64, created_at_ms: 0, etag: None })
                .collect();
            Ok(ListResult { objects, continuation_token: None })
        })
    }
    fn rename<'a>(&'a self, from: &'a str, to: &'a str) -> Pin<Box<dyn Future<Output = IoResult<()>> + Send + 'a>> {
        Box::pin(async move {
            Gate { inner: self.inner.clone(), tag: self.tag }.await;
            self.held().await;
            match self.begin(format!("rename {} {}", from, to), None).filter(|f| !f.is_read()) {
                None => {
                    let mut g = self.inner.lock().unwrap();
                    match g.objects.remove(from) {
                        Some(o) => {
                            if let Some(old) = g.objects.insert(to.to_string(), o) {
                                g.previous.insert(to.to_string(), old);
                            }
                            Ok(())
                        }
                        None => Err(IoError::new(ErrorKind::NotFound, format!("Source key not found: {}", from))),
                    }
                }
                Some(_) => Err(injected()),
            }
        })
    }
    fn head<'a>(&'a self, key: &'a str) -> Pin<Box<dyn Future<Output = IoResult<ObjectMeta>> + Send + 'a>> {
        Box::pin(async move {
            Gate { inner: self.inner.clone(), tag: self.tag }.await;
            self.held().await;
            if self.probe(format!("head {}", key)) {
                return Err(injected());
            }
            self.inner
                .lock()
                .unwrap()
                .objects
                .get(key)
                .map(|v| ObjectMeta { key: key.to_string(), size_bytes: v.len() as u64, created_at_ms: 0, etag: None })
                .ok_or_else(|| IoError::new(ErrorKind::NotFound, "Key not found"))
        })
    }
}

/// Runs one case so that a panic inside it — an `unwrap` / `expect` of this harness on a call into the
/// code under test that "cannot fail", or a panic of the code under test itself — does not take the
/// whole run down (which the check could only report as `no-failing-input-found`): the panic
/// becomes a violation carrying the message and the op lines the case had produced so far, and
/// the remaining cases still run.
pub struct Guarded<F> {
    inner: Pin<Box<F>>,
}

impl<F: Future> Future for Guarded<F> {
    type Output = Result<F::Output, String>;
    fn poll(mut self: Pin<&mut Self>, cx: &mut Context<'_>) -> Poll<Self::Output> {
        let inner = &mut self.inner;
        match std::panic::catch_unwind(std::panic::AssertUnwindSafe(|| inner.as_mut().poll(cx))) {
            Ok(Poll::Pending) => Poll::Pending,
            Ok(Poll::Ready(v)) => Poll::Ready(Ok(v)),
            Err(pl) => Poll::Ready(Err(pl.downcast_ref::<String>().cloned().or_else(|| pl.downcast_ref::<&str>().map(|s| s.to_string())).unwrap_or_else(|| "panic".into()))),
        }
    }
}

pub fn guarded<F: Future>(f: F) -> Guarded<F> {
    Guarded { inner: Box::pin(f) }
}

/// the verdict for a case that panicked: a violation of the property's check, never a silent skip
pub fn report_panic(out: &mut Out, prop: &str, kind: &str, seed_info: &str, ops_before: usize, msg: &str) {
    let (ops, imp) = out.lines();
    let tail: Vec<String> = ops[ops_before.min(ops.len())..].iter().zip(imp[ops_before.min(imp.len())..].iter()).map(|(o, a)| format!("{} => {}", o, a)).collect();
    let tail = if tail.len() > 60 { tail[tail.len() - 60..].to_vec() } else { tail };
    out.violation(&format!("{}:case-panicked:{}", prop, kind),
        &format!("a case of the harness panicked — a call into the code under test that the harness expects to succeed failed, or the code under test panicked: {}", msg),
        json!({"case": seed_info, "panic": msg, "ops_of_the_case_so_far": tail}));
}

/// a `TimeSource` whose `now_millis() - ttl` is the cutoff the case wants
#[derive(Clone)]
pub struct FixedTime(pub u64);
impl TimeSource for FixedTime {
    fn now_millis(&self) -> u64 {
        self.0
    }
}

/// `compression_enabled` of the next configuration this harness builds: alternates (deterministic:
/// the harness is single-threaded).  The `compression` feature is not part of this build, so both
/// values must behave alike (Compression::None either way) — a flag that changed anything a
/// property observes shows up as a disagreement on every second case.
pub fn compress_flag() -> bool {
    use std::sync::atomic::{AtomicU64, Ordering};
    static N: AtomicU64 = AtomicU64::new(0);
    N.fetch_add(1, Ordering::Relaxed) % 2 == 1
}

pub fn wb_config() -> WriteBufferConfig {
    WriteBufferConfig {
        flush_interval: std::time::Duration::from_secs(3600),
        max_size_bytes: 1 << 30,
        max_deltas: 1 << 30,
        backpressure_threshold_bytes: 1 << 40,
        compression_enabled: compress_flag(),
    }
}

#[derive(Clone, Debug)]
pub struct CCfg {
    pub target: u64,
    pub min: u64,
    pub maxper: u64,
    /// `time_source.now_millis()` of the pass
    pub now: u64,
    /// `tombstone_ttl`
    pub ttl: std::time::Duration,
}

impl CCfg {
    /// the cutoff the code's u64 arithmetic yields (`now.saturating_sub(ttl.as_millis() as u64)`),
    /// used only to classify differences by cause
    pub fn cutoff(&self) -> u64 {
        self.now.saturating_sub(self.ttl.as_millis() as u64)
    }
}

pub fn compactor(store: &FaultStore, c: &CCfg) -> Compactor<FaultStore, FixedTime> {
    compactor_ms(store, c, 0)
}

/// … with the `max_segments` threshold `needs_compaction` / `compact_if_needed` read
pub fn compactor_ms(store: &FaultStore, c: &CCfg, max_segments: u64) -> Compactor<FaultStore, FixedTime> {
    let cfg = CompactionConfig {
        target_segment_size: c.target as usize,
        max_segments: max_segments as usize,
        min_segments_to_compact: c.min as usize,
        max_segments_per_compaction: c.maxper as usize,
        tombstone_ttl: c.ttl,
        compression_enabled: compress_flag(),
    };
    Compactor::with_time_source(
        Arc::new(store.clone()),
        PREFIX.to_string(),
        ManifestManager::new(store.clone(), PREFIX),
        cfg,
        FixedTime(c.now),
    )
}

pub fn show_sorted_deltas(ds: &[ReplicationDelta]) -> String {
    let mut v: Vec<String> = ds.iter().map(|d| format!("{} {} ;", hex(d.key.as_bytes()), MRv::from_real(&d.value).show())).collect();
    v.sort();
    let mut s = v.len().to_string();
    for x in v {
        s.push(' ');
        s.push_str(&x);
    }
    s
}

pub fn show_rec(r: &Result<RecoveredState, RecoveryError>) -> String {
    match r {
        Err(RecoveryError::Manifest(_)) => "err manifest".into(),
        Err(RecoveryError::Checkpoint(_)) => "err checkpoint".into(),
        Err(RecoveryError::Segment(_)) => "err segment".into(),
        Err(RecoveryError::Io(_)) => "err io".into(),
        Ok(r) => {
            let chk = match &r.checkpoint_state {
                None => "-".to_string(),
                Some(m) => show_upds(&sorted_map(m)),
            };
            format!("ok chk={} deltas {} fold {}", chk, show_sorted_deltas(&r.deltas), show_upds(&sorted_map(&fold_recovered(r))))
        }
    }
}

/// every field of the manifest object of an image
pub fn show_manifest(img: &BTreeMap<String, Vec<u8>>) -> String {
    match img.get(&format!("{}/manifest.json", PREFIX)) {
        None => "man none".into(),
        Some(b) => match serde_json::from_slice::<Manifest>(b) {
            Err(_) => "man unparsable".into(),
            Ok(m) => {
                let chk = match &m.checkpoint {
                    None => "-".to_string(),
                    Some(c) => format!("{}:{}", c.timestamp_ms, c.last_segment_id),
                };
                let segs: Vec<String> = m.segments.iter().map(|s| format!("{}:{}:{}:{}:{}", s.id, s.record_count, s.size_bytes, s.min_timestamp, s.max_timestamp)).collect();
                // the object key is derived from the id in the model: check it here
                let keys_ok = m.segments.iter().all(|s| s.key == crate::c11::seg_key(s.id));
                format!("man v={} rid={} next={} chk={} segs=[{}]{}", m.version, m.replica_id, m.next_segment_id, chk, segs.join(","), if keys_ok { "" } else { " KEY-NOT-DERIVED-FROM-ID" })
            }
        },
    }
}

/// does the manifest of this image reference only complete objects (and parse itself)?
pub fn refs_complete(img: &BTreeMap<String, Vec<u8>>) -> bool {
    match img.get(&format!("{}/manifest.json", PREFIX)) {
        None => true,
        Some(bytes) => match serde_json::from_slice::<Manifest>(bytes) {
            Err(_) => false,
            Ok(m) => {
                m.segments.iter().all(|s| match img.get(&s.key) {
                    None => false,
                    Some(d) => match SegmentReader::open(d) {
                        Err(_) => false,
                        Ok(r) => r.validate().is_ok() && r.read_all().is_ok(),
                    },
                }) && m.checkpoint.as_ref().map(|c| img.contains_key(&c.key)).unwrap_or(true)
            }
        },
    }
}

/// why the manifest of an image does not reference only complete objects
pub fn refs_status(img: &BTreeMap<String, Vec<u8>>) -> Option<(&'static str, String)> {
    match img.get(&format!("{}/manifest.json", PREFIX)) {
        None => None,
        Some(bytes) => match serde_json::from_slice::<Manifest>(bytes) {
            Err(_) => Some(("manifest-unparsable", "manifest.json".into())),
            Ok(m) => {
                for s in &m.segments {
                    match img.get(&s.key) {
                        None => return Some(("missing-segment", s.key.clone())),
                        Some(d) => {
                            if decode_segment(d).is_none() {
                                return Some(("invalid-segment", s.key.clone()));
                            }
                        }
                    }
                }
                None
            }
        },
    }
}

pub async fn recover_image(img: &BTreeMap<String, Vec<u8>>, rid: u64) -> Result<RecoveredState, RecoveryError> {
    let st = FaultStore::from_image(img);
    RecoveryManager::new(st, PREFIX, rid).recover().await
}

/// one process under test
pub struct Proc {
    pub store: FaultStore,
    pub pers: StreamingPersistence<FaultStore, SimulatedClock>,
    pub rid: u64,
    pub text: String,
    /// updates of every flush that returned Ok
    pub acked: Vec<Upd>,
    /// updates pushed and not yet acked
    pub pending: Vec<Upd>,
    /// boundaries (store-call counts) at which an acked set became valid
    pub acked_at: Vec<(u64, usize)>,
    /// segments written by flushes that returned Ok: (id, size_bytes, updates)
    pub segs: Vec<(u64, u64, Vec<Upd>)>,
    /// op lines of this case, emitted by `commit` (the NEW line depends on what became of the
    /// read faults)
    pub lines: Vec<(String, String)>,
    pub faults: Vec<(u64, Fault)>,
    /// first op line instead of `NEW …` (a process restarted on a crash image: `RESTART c p`)
    pub header: Option<String>,
    pub committed: bool,
    /// a compaction of this process panicked (message)
    pub panicked: Option<String>,
}

impl Proc {
    pub async fn new(out: &mut Out, rid: u64, faults: &[(u64, Fault)]) -> Proc {
        let store = FaultStore::new(&[]);
        // construction loads the manifest once: not part of the modelled workload
        {
            store.inner.lock().unwrap().record = false;
        }
        let pers = StreamingPersistence::with_clock(Arc::new(store.clone()), PREFIX.to_string(), rid, wb_config(), SimulatedClock::new(0))
            .await
            .expect("construct StreamingPersistence");
        {
            let mut g = store.inner.lock().unwrap();
            g.calls = 0;
            g.record = true;
            g.faults = faults.iter().cloned().collect();
        }
        let _ = &out;
        let mut text = format!("NEW {} {}", rid, faults.len());
        for (i, f) in faults {
            text.push_str(&format!(" {} {:?}", i, f));
        }
        text.push(';');
        Proc { store, pers, rid, text, acked: Vec::new(), pending: Vec::new(), acked_at: vec![(0, 0)], segs: Vec::new(), lines: Vec::new(), faults: faults.to_vec(), header: None, committed: false, panicked: None }
    }
    /// a NEW process on a store image (the crash image of call `c` of `prev`'s workload)
    /// `Err`: the real code cannot even start on the image (a finding, not a harness failure)
    pub async fn restart(prev: &Proc, c: u64, torn: bool, img: &BTreeMap<String, Vec<u8>>) -> Result<Proc, String> {
        let store = FaultStore::from_image(img);
        let pers = match StreamingPersistence::with_clock(Arc::new(store.clone()), PREFIX.to_string(), prev.rid, wb_config(), SimulatedClock::new(0)).await {
            Ok(p) => p,
            Err(e) => return Err(e.to_string()),
        };
        {
            let mut g = store.inner.lock().unwrap();
            g.calls = 0;
            g.record = true;
            g.log.clear();
            g.snapshots.clear();
        }
        let header = format!("RESTART {} {}", c, torn as u8);
        Ok(Proc { store, pers, rid: prev.rid, text: format!("{}{};", prev.text, header), acked: Vec::new(), pending: Vec::new(), acked_at: vec![(0, 0)], segs: Vec::new(), lines: Vec::new(), faults: Vec::new(), header: Some(header), committed: false, panicked: None })
    }
    pub fn log(&mut self, _out: &mut Out, op: String, ans: String) {
        self.text.push_str(&op);
        self.text.push(';');
        self.lines.push((op, ans));
    }
    /// inject a fault at a (future) call index
    pub fn set_fault(&mut self, idx: u64, f: Fault) {
        self.faults.push((idx, f));
        self.store.inner.lock().unwrap().faults.insert(idx, f);
        self.text.push_str(&format!("FAULT {} {:?};", idx, f));
    }
    /// read faults whose mangled body the format could not tell from valid different content, or
    /// that damaged the object at rest
    pub fn undetectable(&self) -> Vec<ReadFaultRec> {
        self.store.inner.lock().unwrap().read_faults.iter().filter(|r| r.outcome == "accepted-different" || r.persistent).cloned().collect()
    }
    /// emit the op lines of this case for the model — unless a read fault had no counterpart in
    /// the model (accepted as different content, or at-rest damage): then the case is oracle-only
    pub fn commit(&mut self, out: &mut Out) {
        let recs = self.store.inner.lock().unwrap().read_faults.clone();
        for r in &recs {
            out.count(&format!("read-fault:{}{}:{}:{}", r.kind, if r.persistent { "(at-rest)" } else { "" }, r.object, r.outcome));
        }
        if self.store.inner.lock().unwrap().probe_faults_hit > 0 {
            out.count("correspondence:oracle-only-case(fault on a read-only probe)");
            return;
        }
        if !self.undetectable().is_empty() {
            out.count("correspondence:oracle-only-case(read fault without model counterpart)");
            return;
        }
        if !PARTIAL_DECODE_SKIPS && recs.iter().any(|r| r.outcome == "validates-undecodable") {
            out.count("correspondence:oracle-only-case(partially decodable read, fix pending)");
            return;
        }
        let mut eff: Vec<(u64, &'static str)> = Vec::new();
        let mut fs = self.faults.clone();
        fs.sort();
        for (i, f) in &fs {
            if !f.is_read() {
                eff.push((*i, f.name()));
            } else if let Some(r) = recs.iter().find(|r| r.idx == *i) {
                if r.outcome == "rejected" || r.outcome == "validates-undecodable" {
                    eff.push((*i, "corrupt"));
                }
            }
        }
        let mut line = format!("NEW {} {}", self.rid, eff.len());
        for (i, n) in &eff {
            line.push_str(&format!(" {} {}", i, n));
        }
        if let Some(h) = &self.header {
            line = h.clone();
        }
        self.committed = true;
        out.op(line, "ok".into());
        for (o, a) in self.lines.drain(..) {
            out.op(o, a);
        }
    }
    pub fn push(&mut self, out: &mut Out, u: &Upd) {
        let d = ReplicationDelta::new(u.0.clone(), u.1.clone(), ReplicaId::new(self.rid));
        self.pers.push(d).expect("push below backpressure threshold");
        self.pending.push(u.clone());
        let a = format!("ok pending={}", self.pers.pending_count());
        self.log(out, format!("PUSH {} {}", hex(u.0.as_bytes()), MRv::from_real(&u.1).show()), a);
    }
    /// returns true iff the flush returned Ok
    pub async fn flush(&mut self, out: &mut Out) -> bool {
        let before = self.pending.len();
        let r = self.pers.flush().await;
        let calls = self.store.calls();
        let (sz, ans, ok) = match &r {
            Ok(fr) => match &fr.segment {
                None => (0, format!("ok empty calls={}", calls), true),
                Some(s) => (s.size_bytes, format!("ok seg={} n={} pending={} calls={}", s.id, fr.deltas_flushed, self.pers.pending_count(), calls), true),
            },
            Err(_) => (0, format!("err pending={} calls={}", self.pers.pending_count(), calls), false),
        };
        if ok {
            if let Ok(fr) = &r {
                if let Some(sg) = &fr.segment {
                    self.segs.push((sg.id, sg.size_bytes, self.pending.clone()));
                }
            }
            self.acked.extend(self.pending.drain(..));
            self.acked_at.push((calls, self.acked.len()));
        } else {
            out.count("flush:err");
            // oracle: an accepted update is not silently discarded by a failed flush
            if self.pers.pending_count() < before {
                out.violation(
                    "C12:failed-flush-drops-buffer",
                    &format!("flush() returned Err and pending_count() went from {} to {}: the accepted updates are gone while the process keeps running", before, self.pers.pending_count()),
                    json!({"workload": self.text, "store_calls": self.store.inner.lock().unwrap().log.clone()}),
                );
                // the real buffer is empty now: what the process can still flush later is nothing
                self.pending.clear();
            }
        }
        self.log(out, format!("FLUSH {}", sz), ans);
        ok
    }
    pub async fn compact(&mut self, out: &mut Out, c: &CCfg) -> Result<redis_sim::streaming::CompactionResult, CompactionError> {
        let mut comp = compactor(&self.store, c);
        // a panic inside the pass is a crash of the code under test, not of the harness
        let r = match tokio::spawn(async move { comp.compact().await }).await {
            Ok(r) => r,
            Err(e) => {
                let msg = if e.is_panic() {
                    let pl = e.into_panic();
                    pl.downcast_ref::<String>().cloned().or_else(|| pl.downcast_ref::<&str>().map(|s| s.to_string())).unwrap_or_else(|| "panic".into())
                } else {
                    "task cancelled".to_string()
                };
                self.panicked = Some(msg.clone());
                let calls = self.store.calls();
                self.log(out, format!("COMPACT {} {} {} {} {} {}", c.target, c.min, c.maxper, c.now, c.ttl.as_millis(), 0), format!("crash calls={}", calls));
                return Err(CompactionError::Io(IoError::new(ErrorKind::Other, format!("compaction panicked: {}", msg))));
            }
        };
        let calls = self.store.calls();
        let ids = |l: &Vec<redis_sim::streaming::SegmentInfo>| format!("[{}]", l.iter().map(|s| s.id.to_string()).collect::<Vec<_>>().join(","));
        let (sz, ans) = match &r {
            Err(CompactionError::NothingToCompact) => (0, "nothing".to_string()),
            Err(_) => (0, "err".to_string()),
            Ok(cr) => match &cr.segment_created {
                Some(s) => (s.size_bytes, format!("compacted {} -> {} n={} tombs={}", ids(&cr.segments_removed), s.id, s.record_count, cr.tombstones_removed)),
                None => {
                    if !cr.segments_removed.is_empty() && cr.deltas_before == 0 && cr.bytes_reclaimed == 0 && cr.tombstones_removed == 0 && cr.deltas_after == 0 && is_cleaned(cr) {
                        (0, format!("cleaned {}", ids(&cr.segments_removed)))
                    } else {
                        (0, format!("emptied {} tombs={}", ids(&cr.segments_removed), cr.tombstones_removed))
                    }
                }
            },
        };
        self.log(out, format!("COMPACT {} {} {} {} {} {}", c.target, c.min, c.maxper, c.now, c.ttl.as_millis(), sz), format!("{} calls={}", ans, calls));
        r
    }
    /// `Compactor::compact_if_needed` with the `max_segments` threshold (op line CIFNEEDED)
    pub async fn compact_if_needed(&mut self, out: &mut Out, c: &CCfg, max_segments: u64) -> Result<Option<redis_sim::streaming::CompactionResult>, CompactionError> {
        let mut comp = compactor_ms(&self.store, c, max_segments);
        let r = comp.compact_if_needed().await;
        let calls = self.store.calls();
        let ids = |l: &Vec<redis_sim::streaming::SegmentInfo>| format!("[{}]", l.iter().map(|s| s.id.to_string()).collect::<Vec<_>>().join(","));
        let (sz, ans) = match &r {
            Ok(None) => (0, "nothing".to_string()),
            // compact_if_needed maps NothingToCompact to Ok(None): an Err here is a difference
            Err(CompactionError::NothingToCompact) => (0, "err-nothing-to-compact".to_string()),
            Err(_) => (0, "err".to_string()),
            Ok(Some(cr)) => match &cr.segment_created {
                Some(s) => (s.size_bytes, format!("compacted {} -> {} n={} tombs={}", ids(&cr.segments_removed), s.id, s.record_count, cr.tombstones_removed)),
                None => {
                    if !cr.segments_removed.is_empty() && cr.deltas_before == 0 && cr.bytes_reclaimed == 0 && cr.tombstones_removed == 0 && cr.deltas_after == 0 {
                        (0, format!("cleaned {}", ids(&cr.segments_removed)))
                    } else {
                        (0, format!("emptied {} tombs={}", ids(&cr.segments_removed), cr.tombstones_removed))
                    }
                }
            },
        };
        self.log(out, format!("CIFNEEDED {} {} {} {} {} {} {}", c.target, c.min, c.maxper, c.now, c.ttl.as_millis(), max_segments, sz), format!("{} calls={}", ans, calls));
        r
    }
    /// every field of the stored manifest (op line MAN)
    pub fn man(&mut self, out: &mut Out) {
        let a = show_manifest(&self.store.image());
        self.log(out, "MAN".into(), a);
    }
    pub async fn rec(&mut self, out: &mut Out) -> Result<RecoveredState, RecoveryError> {
        let img = self.store.image();
        let r = recover_image(&img, self.rid).await;
        let a = show_rec(&r);
        self.log(out, "REC".into(), a);
        r
    }
}

/// the "only missing segments" early return of `compact` has `deltas_before == 0` and no deletes
fn is_cleaned(cr: &redis_sim::streaming::CompactionResult) -> bool {
    cr.deltas_before == 0
}

// ---------------------------------------------------------------------------------------------

const KEYS: [&str; 4] = ["k", "k2", "h", "é"];

pub fn lww_upd(key: &str, val: &[u8], t: u64, r: u64, tomb: bool) -> Upd {
    let m = MRv {
        crdt: crate::enc::MCrdt::Lww(crate::enc::MLww { v: if tomb { None } else { Some(val.to_vec()) }, t, r, tomb }),
        vc: None,
        exp: None,
        t,
        r,
        rf: None,
    };
    (key.to_string(), m.to_real())
}

/// every store-call boundary of the finished run: real recovery on the snapshot, oracle, and the
/// `CRASH` correspondence line
async fn crash_points(out: &mut Out, p: &mut Proc, all: &[Upd]) {
    let snaps: Vec<Snapshot> = p.store.inner.lock().unwrap().snapshots.clone();
    let total = snaps.len() as u64;
    let co = coherent(all);
    for (c, s) in snaps.iter().enumerate() {
        let mut variants: Vec<(u8, BTreeMap<String, Vec<u8>>)> = vec![(0, s.before.clone())];
        if let Some((k, torn)) = &s.torn {
            let mut img = s.before.clone();
            img.insert(k.clone(), torn.clone());
            variants.push((1, img));
        }
        for (tornflag, img) in variants {
            let r = recover_image(&img, p.rid).await;
            let refs = refs_complete(&img);
            let ans = format!("{} refs={}", show_rec(&r), refs as u8);
            p.lines.push((format!("CRASH {} {}", c, tornflag), ans));
            out.count("crash-point");
            // which flushes had returned Ok when call c was issued?
            let nack = p.acked_at.iter().filter(|(at, _)| *at <= c as u64).map(|(_, n)| *n).max().unwrap_or(0);
            check_image_at(out, p, &img, &r, &p.acked[..nack].to_vec(), co, &format!("crash@{}{} of {} ({})", c, if tornflag == 1 { "+torn" } else { "" }, total, s.call), c as u64);
        }
    }
    // the final image (no crash)
    let img = p.store.image();
    let r = recover_image(&img, p.rid).await;
    let refs = refs_complete(&img);
    p.lines.push((format!("CRASH {} 0", total), format!("{} refs={}", show_rec(&r), refs as u8)));
    let acked = p.acked.clone();
    check_image_at(out, p, &img, &r, &acked, co, "final image", total);
}

/// oracle on one store image (crash point `call`, or the final image).
/// Cause first: if a read fault of this run was accepted by the format as DIFFERENT valid content
/// (the format cannot detect it) every violation of the case carries that cause; images taken
/// after an at-rest corruption may fail to recover (the environment destroyed the object) but
/// must never recover to a state that silently lacks confirmed updates (laundering).
fn check_image_at(out: &mut Out, p: &Proc, img: &BTreeMap<String, Vec<u8>>, r: &Result<RecoveredState, RecoveryError>, acked: &[Upd], co: bool, at: &str, call: u64) {
    let replay = |extra: serde_json::Value| json!({"workload": p.text, "at": at, "store_calls": p.store.inner.lock().unwrap().log.clone(), "read_faults": format!("{:?}", p.store.inner.lock().unwrap().read_faults), "detail": extra});
    let und = p.undetectable();
    let accepted: Option<&ReadFaultRec> = und.iter().find(|r| r.outcome == "accepted-different" && r.idx < call);
    let at_rest: Option<&ReadFaultRec> = und.iter().find(|r| r.persistent && r.idx < call);
    let cause = |normal: &str| -> String {
        match accepted {
            Some(a) => format!("C12:read-corruption-accepted:{}:{}", a.object, a.kind),
            None => normal.to_string(),
        }
    };
    let refs = refs_status(img);
    if at_rest.is_some() && accepted.is_none() {
        // the object at rest was destroyed by the environment: failing recovery is the correct
        // answer; a recovery that succeeds without the confirmed updates is laundering
        match r {
            Err(_) => out.count("excluded:image-after-at-rest-corruption(recovery fails, detected)"),
            Ok(rs) => {
                if co && !lost_updates(rs, acked).is_empty() {
                    out.violation("C12:at-rest-corruption-laundered", "after an object was damaged at rest recovery SUCCEEDS but the state lacks updates of flushes that returned Ok: the damage was laundered into valid objects", replay(json!({"lost": lost_updates(rs, acked)})));
                }
            }
        }
        return;
    }
    if let Some((why, key)) = &refs {
        out.violation(&cause(&format!("C12:manifest-references-{}", why)), "the manifest references a missing or partially written / invalid object", replay(json!({"object": key})));
    }
    match r {
        Err(e) => out.violation(&cause("C12:recovery-fails-on-crash-image"), &format!("recover() fails on the store image: {}", e), replay(json!(null))),
        Ok(rs) => {
            if !co {
                out.count("excluded:incoherent-workload");
                return;
            }
            let lost = lost_updates(rs, acked);
            if !lost.is_empty() {
                let sig = cause(&classify_loss(p));
                out.violation(&sig, "an update of a flush that returned Ok is not contained in the recovered state", replay(json!({"lost": lost})));
            }
        }
    }
}

fn lost_updates(rs: &RecoveredState, acked: &[Upd]) -> Vec<String> {
    let f = fold_recovered(rs);
    acked
        .iter()
        .filter(|(k, v)| match f.get(k) {
            None => true,
            Some(u) => MRv::from_real(&v.merge(u)) != MRv::from_real(u),
        })
        .map(|(k, v)| format!("{} {}", hex(k.as_bytes()), MRv::from_real(v).show()))
        .collect()
}

/// signature of a confirmed-update loss: which mechanism removed it
fn classify_loss(p: &Proc) -> String {
    let g = p.store.inner.lock().unwrap();
    let faulted_get_seg = g.faults.iter().any(|(i, f)| !f.is_read() && g.log.get(*i as usize).map(|l| l.contains("get ") && l.contains("/segments/")).unwrap_or(false));
    let read_fault_seg = g.read_faults.iter().any(|r| r.object == "segment");
    if g.read_faults.iter().any(|r| r.outcome == "validates-undecodable") && p.text.contains("COMPACT") {
        // a read that opens and validates but decodes only a prefix of the records
        "C12:compact:partially-decoded-segment-removed".to_string()
    } else if read_fault_seg && p.text.contains("COMPACT") {
        "C12:compact:read-fault:confirmed-update-lost".to_string()
    } else if faulted_get_seg && p.text.contains("COMPACT") {
        "C12:compact:get-error-treated-as-missing".to_string()
    } else if p.text.contains("COMPACT") {
        "C12:compact:confirmed-update-lost".to_string()
    } else {
        "C12:flush:confirmed-update-lost".to_string()
    }
}

/// recovery itself under read faults: for every `get` of a recovery of the final image and a set
/// of mangling kinds — the result must be an error or the state a clean recovery returns
async fn recover_under_read_faults(out: &mut Out, p: &Proc, rng: &mut Rng) {
    let img = p.store.image();
    let clean = recover_image(&img, p.rid).await;
    let clean_fold = match &clean {
        Ok(rs) => sorted_map(&fold_recovered(rs)),
        Err(_) => return,
    };
    let ncalls = {
        let st = FaultStore::from_image(&img);
        let _ = RecoveryManager::new(st.clone(), PREFIX, p.rid).recover().await;
        st.calls()
    };
    for idx in 0..ncalls {
        let kinds = [
            Fault::Fail,
            Fault::ReadEmpty { persistent: false },
            Fault::ReadTrunc { permille: rng.range(1, 999) as u16, persistent: false },
            Fault::ReadFlip { permille: rng.below(1000) as u16, n: 1, mask: 1 << rng.below(8), persistent: false },
            Fault::ReadFlip { permille: rng.below(1000) as u16, n: rng.range(1, 3) as u8, mask: rng.range(1, 255) as u8, persistent: false },
        ];
        for f in kinds {
            let st = FaultStore::from_image(&img);
            st.inner.lock().unwrap().faults.insert(idx, f);
            let r = RecoveryManager::new(st.clone(), PREFIX, p.rid).recover().await;
            let rec = st.inner.lock().unwrap().read_faults.first().cloned();
            let (object, outcome) = rec.as_ref().map(|r| (r.object, r.outcome)).unwrap_or(("-", "error"));
            out.count(&format!("recover-read-fault:{}:{}:{}", f.name(), object, outcome));
            if let Ok(rs) = &r {
                let got = sorted_map(&fold_recovered(rs));
                if got != clean_fold {
                    let sig = if outcome == "accepted-different" {
                        format!("C12:read-corruption-accepted:{}:{}", object, f.name())
                    } else {
                        "C12:recover:read-fault:silently-different-state".to_string()
                    };
                    out.violation(&sig, "recover() under a read fault returns Ok with a state different from a clean recovery (it must fail or return the same state)",
                        json!({"workload": p.text, "recovery_call": idx, "fault": format!("{:?}", f), "read_fault": format!("{:?}", rec), "clean": show_upds(&clean_fold), "got": show_upds(&got)}));
                }
            }
        }
    }
}

/// two deltas such that the segment [d1, d2] cut right after d1's record + 24 bytes passes
/// `SegmentReader::open` + `validate` (the first 24 bytes of d2's record read as a footer whose
/// checksum is crc32(record 1)) but decodes only d1 — the input of /repo fix 82824d5.
/// Returns (d1, d2, length of d2's record incl. its 4-byte length prefix).
fn embedded_footer_pair() -> (Upd, Upd, usize) {
    let ser_len = |u: &Upd| bincode::serialize(&ReplicationDelta::new(u.0.clone(), u.1.clone(), ReplicaId::new(1))).unwrap().len();
    let base_key = "AAAAAAAAGESR";
    let base = ser_len(&lww_upd(base_key, b"v2", 3, 1, false));
    for n in 0u64.. {
        let d1 = lww_upd("a", format!("n{}", n).as_bytes(), 2, 1, false);
        let body = bincode::serialize(&ReplicationDelta::new(d1.0.clone(), d1.1.clone(), ReplicaId::new(1))).unwrap();
        let mut rec1 = (body.len() as u32).to_le_bytes().to_vec();
        rec1.extend_from_slice(&body);
        let crc = crc32fast::hash(&rec1) as usize;
        if crc >= base && crc < base + 60000 {
            let key2 = format!("{}{}", base_key, "x".repeat(crc - base));
            let d2 = lww_upd(&key2, b"v2", 3, 1, false);
            debug_assert_eq!(ser_len(&d2), crc);
            return (d1, d2, 4 + crc);
        }
    }
    unreachable!()
}

/// crash variant: the process dies inside the flush that has just uploaded its segment (before or
/// inside the manifest temp put / before the rename); a NEW process starts on that image, runs a
/// compaction and a flush, recovery must keep every update confirmed before the crash
async fn restart_on_orphan_images(out: &mut Out, p: &Proc, ups: &[Upd]) {
    let snaps: Vec<Snapshot> = p.store.inner.lock().unwrap().snapshots.clone();
    let co = coherent(ups);
    for (c, s) in snaps.iter().enumerate() {
        // boundaries right after a segment put of a flush: the orphan exists, the manifest does not list it
        let after_seg_put = c > 0 && snaps[c - 1].call.starts_with("put ") && snaps[c - 1].call.contains("/segments/") && s.call.contains("manifest.json.tmp");
        let before_rename = s.call.starts_with("rename ");
        if !(after_seg_put || before_rename) {
            continue;
        }
        for torn in [false, true] {
            if torn && s.torn.is_none() {
                continue;
            }
            let mut img = s.before.clone();
            if torn {
                let (k, t) = s.torn.clone().unwrap();
                img.insert(k, t);
            }
            let nack = p.acked_at.iter().filter(|(at, _)| *at <= c as u64).map(|(_, n)| *n).max().unwrap_or(0);
            let acked: Vec<Upd> = p.acked[..nack].to_vec();
            let mut q = match Proc::restart(p, c as u64, torn, &img).await {
                Ok(q) => q,
                Err(e) => {
                    out.violation("C12:restart-fails-on-crash-image", &format!("a new process cannot start on the store image a crash left behind: StreamingPersistence::with_clock fails: {}", e),
                        json!({"workload": p.text, "crash_at_call": c, "torn_put": torn, "store_calls": p.store.inner.lock().unwrap().log.clone(), "objects": img.keys().collect::<Vec<_>>()}));
                    continue;
                }
            };
            let cfg = CCfg { target: 1 << 20, min: 1, maxper: 5, now: 0, ttl: std::time::Duration::ZERO };
            let _ = q.compact(out, &cfg).await;
            q.rec(out).await.ok();
            q.push(out, &lww_upd("zz", b"after-restart", 999, 1, false));
            q.flush(out).await;
            let img2 = q.store.image();
            let r = recover_image(&img2, q.rid).await;
            q.lines.push(("REC".into(), show_rec(&r)));
            out.count("pattern:restart-on-crash-image-with-orphan");
            let mut all_acked = acked.clone();
            all_acked.extend(q.acked.iter().cloned());
            check_image_at(out, &q, &img2, &r, &all_acked, co, &format!("restart on the crash image of call {}{}: compact, flush", c, if torn { "+torn" } else { "" }), u64::MAX);
            if p.committed {
                q.commit(out);
            }
        }
    }
}

fn gen_fault(rng: &mut Rng) -> Fault {
    let persistent = rng.chance(1, 6);
    match rng.below(11) {
        0..=2 => Fault::Fail,
        3..=4 => Fault::Partial,
        5 => Fault::ReadEmpty { persistent },
        6 => Fault::ReadTrunc { permille: rng.below(1001) as u16, persistent },
        // positions spread over header / record region / footer; single-bit and multi-byte flips
        7..=9 => Fault::ReadFlip { permille: *rng.pick(&[0u16, 10, 40, 90, 150, 300, 450, 600, 750, 900, 960, 990, 999]), n: rng.range(1, 3) as u8, mask: if rng.chance(1, 2) { 1 << rng.below(8) } else { rng.range(1, 255) as u8 }, persistent },
        _ => Fault::ReadStale,
    }
}

fn gen_workload_updates(rng: &mut Rng, n: usize) -> Vec<Upd> {
    // one replica per (key) stamps strictly increasing per key: LWW writes, a few tombstones;
    // compaction's keep-latest agrees with merge on these (C13 owns the layouts where it does not)
    let mut clock = rng.range(1, 50);
    (0..n)
        .map(|_| {
            clock += rng.range(1, 3);
            let key = *rng.pick(&KEYS);
            let tomb = rng.chance(1, 6);
            lww_upd(key, format!("v{}", rng.below(40)).as_bytes(), clock, 1, tomb)
        })
        .collect()
}

async fn case(out: &mut Out, rng: &mut Rng, corpus: Option<&str>) {
    // a first fault-free pass is not needed: faults are placed by call index over a generated
    // workload whose call count is bounded by its length
    let mut orphan_pattern = corpus == Some("orphan-then-compaction");
    let (script, faults): (Vec<u8>, Vec<(u64, Fault)>) = match corpus {
        // DESIGN §6.1: push 2, flush while the segment put fails
        Some("flush-put-fails") => (vec![0, 0, 1], vec![(1, Fault::Fail)]),
        // a 256 KiB value under a 4 KiB key next to an empty value under the empty key, a torn put, a compaction
        Some("huge-value") => (vec![0, 0, 1, 0, 1, 0, 1, 3], vec![(5, Fault::Partial)]),
        // 2 segments, compaction whose get of the first segment fails transiently
        Some("compact-get-fails") => (vec![0, 1, 0, 1, 2], vec![(9, Fault::Fail)]),
        // 3 segments, compaction (min 2) whose READ of segment 1 comes back mangled once (the
        // object at rest is intact): the segment must be skipped — stay listed AND stay stored
        Some("compact-read-flip") => (vec![0, 1, 0, 1, 0, 1, 3], vec![(14, Fault::ReadFlip { permille: 600, n: 1, mask: 4, persistent: false })]),
        Some("compact-read-trunc") => (vec![0, 1, 0, 1, 0, 1, 3], vec![(14, Fault::ReadTrunc { permille: 700, persistent: false })]),
        // third flush reads a STALE manifest (the version before the second flush): it re-allocates id 1
        Some("flush-stale-manifest") => (vec![0, 1, 0, 1, 0, 1], vec![(8, Fault::ReadStale)]),
        Some("recover-manifest-digit-flip") => (vec![0, 1, 0, 1], vec![]),
        // segment 0 = [d1, d2] built so that a read cut right after d1's record (+24 bytes) still
        // opens and validates but decodes only d1; the fault is set after the first flush
        Some("compact-read-cut-at-record-boundary") => (vec![0, 0, 1, 0, 1, 3], vec![]),
        Some("compact-read-empty") => (vec![0, 1, 0, 1, 0, 1, 3], vec![(13, Fault::ReadEmpty { persistent: false })]),
        // flush A ok; flush B ok; flush C: segment put ok, manifest temp put / rename FAILS → the
        // segment stays behind as an unlisted orphan under the id the next allocation returns;
        // then a compaction BEFORE the next successful flush (which would overwrite the orphan)
        Some("orphan-then-compaction") => (vec![0, 1, 0, 1, 0, 1, 4], vec![(10, Fault::Fail)]),
        None if rng.chance(1, 6) => {
            let k = rng.range(1, 3) as usize;
            let mut s: Vec<u8> = Vec::new();
            for _ in 0..k {
                s.extend_from_slice(&[0, 1]);
            }
            s.extend_from_slice(&[0, 1, 4]);
            if rng.chance(1, 2) {
                s.extend_from_slice(&[0, 1]);
            }
            let at = 4 * k as u64 + if rng.chance(1, 2) { 2 } else { 3 };
            orphan_pattern = true;
            (s, vec![(at, if rng.chance(1, 3) { Fault::Partial } else { Fault::Fail })])
        }
        _ => {
            let n = rng.range(2, 9) as usize;
            let mut s: Vec<u8> = Vec::new();
            for _ in 0..n {
                s.push(match rng.below(10) {
                    0..=4 => 0,
                    5..=7 => 1,
                    _ => 2,
                });
            }
            s.push(1);
            if rng.chance(1, 2) {
                s.push(2);
            }
            let nf = match rng.below(4) {
                0 => 0,
                1 | 2 => 1,
                _ => 2,
            };
            let f = (0..nf)
                .map(|_| (rng.below(4 * s.len() as u64 + 2), gen_fault(rng)))
                .collect::<BTreeMap<u64, Fault>>()
                .into_iter()
                .collect();
            (s, f)
        }
    };
    let npush = script.iter().filter(|x| **x == 0).count();
    let mut ups = gen_workload_updates(rng, npush);
    let mut cut_rec2: Option<usize> = None;
    if corpus == Some("compact-read-cut-at-record-boundary") {
        let (d1, d2, rec2) = embedded_footer_pair();
        ups = vec![d1, d2, lww_upd("z", b"other", 9, 1, false)];
        cut_rec2 = Some(rec2);
    }
    if corpus == Some("huge-value") {
        let big_key: String = std::iter::repeat("k\u{e9}y-").take(4096 / 5).collect();
        ups[0] = lww_upd(&big_key, &vec![0xA5u8; 256 * 1024], 7, 1, false);
        ups[1] = lww_upd("", b"", 8, 1, false);
        out.count("pattern:huge-value-and-key");
    }
    let mut p = Proc::new(out, 1, &faults).await;
    let mut ui = 0;
    let mut any_err = false;
    for op in &script {
        match op {
            0 => {
                p.push(out, &ups[ui]);
                ui += 1;
                out.count("op:push");
            }
            1 => {
                let ok = p.flush(out).await;
                any_err |= !ok;
                out.count("op:flush");
                if let (Some(rec2), 1) = (cut_rec2, p.segs.len()) {
                    // the compaction's get of segment 0 is store call 9
                    let len = p.segs[0].1 as usize - rec2;
                    p.set_fault(9, Fault::ReadTruncAbs { len: len as u32 });
                }
            }
            4 => {
                let c = CCfg { target: 1 << 20, min: 1, maxper: 5, now: 0, ttl: std::time::Duration::ZERO };
                // is there an unlisted segment object (an orphan of a failed flush)?
                let img = p.store.image();
                let listed: Vec<String> = img.get(&format!("{}/manifest.json", PREFIX)).and_then(|b| serde_json::from_slice::<Manifest>(b).ok()).map(|m| m.segments.iter().map(|s| s.key.clone()).collect()).unwrap_or_default();
                if img.keys().any(|k| k.contains("/segments/") && !listed.contains(k)) {
                    out.count("pattern:compaction-with-orphan-segment-present");
                }
                let _ = p.compact(out, &c).await;
                out.count("op:compact");
            }
            3 => {
                let c = CCfg { target: 1 << 20, min: 2, maxper: 5, now: 0, ttl: std::time::Duration::ZERO };
                let _ = p.compact(out, &c).await;
                out.count("op:compact");
            }
            _ => {
                // no tombstone GC here (cutoff 0): C13 owns GC
                let c = CCfg { target: if rng.chance(1, 5) { 300 } else { 1 << 20 }, min: rng.range(1, 3), maxper: rng.range(2, 5), now: 0, ttl: std::time::Duration::ZERO };
                let r = p.compact(out, &c).await;
                any_err |= matches!(r, Err(CompactionError::Io(_)) | Err(CompactionError::Manifest(_)) | Err(CompactionError::Segment(_)));
                out.count("op:compact");
            }
        }
    }
    for (i, f) in &faults {
        let hit = p.store.inner.lock().unwrap().log.get(*i as usize).cloned();
        match hit {
            Some(l) => {
                // fault kind × store operation × object × which high-level operation issued the call
                let opname = l.split(' ').next().unwrap_or("?").split(':').nth(1).unwrap_or("?").to_string();
                let object = if l.contains("manifest.json.tmp") { "tmp" } else if l.contains("manifest.json") { "manifest" } else if l.contains("/segments/") { "segment" } else { "other" };
                out.count(&format!("fault:{}{}:{}:{}", f.name(), if f.persistent() { "(at-rest)" } else { "" }, opname, object));
                out.count(&format!("fault-call-index:{}", if *i < 4 { "0-3" } else if *i < 8 { "4-7" } else if *i < 16 { "8-15" } else { "16+" }));
            }
            None => out.count("fault:beyond-last-call"),
        }
    }
    {
        let g = p.store.inner.lock().unwrap();
        if g.probes > 0 {
            // not a violation: read-only probes are invisible to the correspondence
            out.count_n("store:read-only-probes(exists/head/list)", g.probes);
        }
    }
    if let Some(msg) = &p.panicked {
        out.violation("C12:compaction:panic", &format!("Compactor::compact panicked: {}", msg), json!({"workload": p.text}));
    }
    p.rec(out).await.ok();
    p.man(out);
    crash_points(out, &mut p, &ups).await;
    if corpus.is_some() || rng.chance(1, 4) {
        recover_under_read_faults(out, &p, rng).await;
    }
    if corpus == Some("recover-manifest-digit-flip") {
        // one bit of the manifest body flips on the read of a recovery: "segment-00000001" -> "…0"
        let img = p.store.image();
        let man = img.get(&format!("{}/manifest.json", PREFIX)).cloned().unwrap_or_default();
        let needle = b"segment-00000001";
        if let Some(at) = man.windows(needle.len()).position(|w| w == needle) {
            let st = FaultStore::from_image(&img);
            st.inner.lock().unwrap().faults.insert(0, Fault::ReadFlipAbs { pos: (at + needle.len() - 1) as u32, mask: 1 });
            let r = RecoveryManager::new(st.clone(), PREFIX, p.rid).recover().await;
            let clean = recover_image(&img, p.rid).await;
            if let (Ok(a), Ok(b)) = (&r, &clean) {
                if sorted_map(&fold_recovered(a)) != sorted_map(&fold_recovered(b)) {
                    out.violation("C12:read-corruption-accepted:manifest:read-flip",
                        "recover() under a read fault returns Ok with a state different from a clean recovery (it must fail or return the same state)",
                        json!({"workload": p.text, "fault": "one bit of the manifest body flipped on read: segment key …00000001.seg read as …00000000.seg", "clean": show_upds(&sorted_map(&fold_recovered(b))), "got": show_upds(&sorted_map(&fold_recovered(a)))}));
                }
            }
        }
    }
    p.commit(out);
    if orphan_pattern {
        out.count("pattern:failed-flush-orphan-then-compaction");
        restart_on_orphan_images(out, &p, &ups).await;
    }
    let _ = fold_real(&ups);
    out.case(&p.text, !p.acked.is_empty() && (any_err || !faults.is_empty() || p.text.contains("COMPACT")));
    out.sample(json!({"workload": p.text, "store_calls": p.store.inner.lock().unwrap().log.clone()}));
}

pub fn run(a: &Args) {
    let mut out = Out::new(&a.out);
    let mut rng = Rng::new(a.seed);
    let rt = tokio::runtime::Builder::new_current_thread().enable_all().build().unwrap();
    rt.block_on(async {
        { let mark = out.n_ops(); if let Err(msg) = guarded(case(&mut out, &mut Rng::new(0xC12), Some("flush-put-fails"))).await { report_panic(&mut out, "C12", "corpus", "flush-put-fails", mark, &msg); } }
        { let mark = out.n_ops(); if let Err(msg) = guarded(case(&mut out, &mut Rng::new(0xC12), Some("compact-get-fails"))).await { report_panic(&mut out, "C12", "corpus", "compact-get-fails", mark, &msg); } }
        { let mark = out.n_ops(); if let Err(msg) = guarded(case(&mut out, &mut Rng::new(0xC12), Some("compact-read-flip"))).await { report_panic(&mut out, "C12", "corpus", "compact-read-flip", mark, &msg); } }
        { let mark = out.n_ops(); if let Err(msg) = guarded(case(&mut out, &mut Rng::new(0xC12), Some("compact-read-trunc"))).await { report_panic(&mut out, "C12", "corpus", "compact-read-trunc", mark, &msg); } }
        { let mark = out.n_ops(); if let Err(msg) = guarded(case(&mut out, &mut Rng::new(0xC12), Some("compact-read-empty"))).await { report_panic(&mut out, "C12", "corpus", "compact-read-empty", mark, &msg); } }
        { let mark = out.n_ops(); if let Err(msg) = guarded(case(&mut out, &mut Rng::new(0xC12), Some("flush-stale-manifest"))).await { report_panic(&mut out, "C12", "corpus", "flush-stale-manifest", mark, &msg); } }
        { let mark = out.n_ops(); if let Err(msg) = guarded(case(&mut out, &mut Rng::new(0xC12), Some("recover-manifest-digit-flip"))).await { report_panic(&mut out, "C12", "corpus", "recover-manifest-digit-flip", mark, &msg); } }
        { let mark = out.n_ops(); if let Err(msg) = guarded(case(&mut out, &mut Rng::new(0xC12), Some("compact-read-cut-at-record-boundary"))).await { report_panic(&mut out, "C12", "corpus", "compact-read-cut-at-record-boundary", mark, &msg); } }
        { let mark = out.n_ops(); if let Err(msg) = guarded(case(&mut out, &mut Rng::new(0xC12), Some("orphan-then-compaction"))).await { report_panic(&mut out, "C12", "corpus", "orphan-then-compaction", mark, &msg); } }
        { let mark = out.n_ops(); if let Err(msg) = guarded(case(&mut out, &mut Rng::new(0xC12), Some("huge-value"))).await { report_panic(&mut out, "C12", "corpus", "huge-value", mark, &msg); } }
        for i in 0..a.n {
            let mut r = rng.fork();
            let mark = out.n_ops();
            if let Err(msg) = guarded(case(&mut out, &mut r, None)).await {
                report_panic(&mut out, "C12", "workload", &format!("seed {} case {}", a.seed, i), mark, &msg);
            }
        }
        // the layer above the writer: step functions of StreamingPersistence on a virtual clock, WriteBuffer
        { let mark = out.n_ops(); if let Err(msg) = guarded(crate::c12x::run_all(&mut out, &mut rng, (a.n / 10 + 20).min(20_000), false)).await { report_panic(&mut out, "C12", "step-functions", &format!("seed {}", a.seed), mark, &msg); } }
        // the concrete ObjectStore implementations (InMemory, LocalFs, FaultStore) under the model's store
        { let mark = out.n_ops(); if let Err(msg) = guarded(crate::c12fs::run_all(&mut out, &mut rng, (a.n / 30 + 10).min(1_500))).await { report_panic(&mut out, "C12", "object-stores", &format!("seed {}", a.seed), mark, &msg); } }
        for _ in 0..(a.n / 2000 + 2).min(40) {
            let mut r = rng.fork();
            { let mark = out.n_ops(); if let Err(msg) = guarded(crate::c12fs::localfs_pipeline(&mut out, &mut r)).await { report_panic(&mut out, "C12", "localfs-pipeline", &format!("seed {}", a.seed), mark, &msg); } }
        }
    });
    // the real worker pipeline (sink, bridge, bounded mailbox, actor) under tokio's paused clock
    let rt2 = tokio::runtime::Builder::new_current_thread().enable_all().start_paused(true).build().unwrap();
    rt2.block_on(async {
        { let mark = out.n_ops(); if let Err(msg) = guarded(crate::c12x::run_all(&mut out, &mut rng, (a.n / 20 + 10).min(4_000), true)).await { report_panic(&mut out, "C12", "worker-pipeline", &format!("seed {}", a.seed), mark, &msg); } }
    });
    // the manifest object byte for byte (serde_json of `Manifest` vs model M4j)
    {
        let mark = out.n_ops();
        let r = std::panic::catch_unwind(std::panic::AssertUnwindSafe(|| crate::c12j::run_all(&mut out, &mut rng, (a.n / 400 + 6).min(2_000))));
        if let Err(e) = r {
            let msg = e.downcast_ref::<String>().cloned().or_else(|| e.downcast_ref::<&str>().map(|s| s.to_string())).unwrap_or_else(|| "panic".into());
            report_panic(&mut out, "C12", "manifest-json", &format!("seed {}", a.seed), mark, &msg);
        }
    }
    crate::stream_api::report(&mut out, "C12");
    out.finish("case = one workload of 3..11 push/flush/compact operations on a real StreamingPersistence + Compactor over a counting, fault-injecting, snapshotting ObjectStore (0..2 faults {error without effect, error after a torn object} at generated call indices), followed by real recovery on the store image at EVERY call boundary (and inside every put); distinct by the op text incl. the fault placement; non-trivial iff some flush returned Ok and the run has a fault, an error or a compaction");
}
