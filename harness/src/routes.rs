//! Route probes: EVERY `Command` variant that names a key must be sent to that key's home shard.
//! For each key-bearing variant (exhaustive classification in `routes_gen.rs`) and several keys
//! (plain, tagged, punctuated, long …): on a fresh 1-shard and 4-shard instance the key is written
//! through the FAST path (`fast_set k "5"`), the command is executed through `execute()`, and the
//! key is read back through the fast path; reply and read-back must not depend on the shard
//! count.  A variant routed anywhere but to the key's home (e.g. to shard 0) sees a missing key.
use crate::c03::{new_state, special_keys, State};
use crate::out::Out;
use crate::routes_gen::{names_a_key, variant_name, KEY_BEARING_VARIANTS};
use redis_sim::redis::{Command, RespValue, SDS};
use serde_json::json;
use std::collections::{BTreeMap, BTreeSet};

fn sd(v: &str) -> SDS {
    SDS::new(v.as_bytes().to_vec())
}

/// one representative command per key-bearing variant (two-key variants with dst = src: one shard)
fn probes(k: &str, sha: &str) -> Vec<Command> {
    let k = k.to_string();
    let kk = || k.clone();
    vec![
        Command::Get(kk()),
        Command::set(kk(), sd("7")),
        Command::SetNx(kk(), sd("7")),
        Command::GetRange(kk(), 0, -1),
        Command::SetRange(kk(), 1, sd("z")),
        Command::SetBit(kk(), 7, 1),
        Command::GetBit(kk(), 2),
        Command::GetEx { key: kk(), ex: None, px: None, exat: None, pxat: None, persist: false },
        Command::GetDel(kk()),
        Command::TypeOf(kk()),
        Command::Expire { key: kk(), seconds: 100, nx: false, xx: false, gt: false, lt: false },
        Command::ExpireAt(kk(), 4_000_000_000),
        Command::PExpire { key: kk(), milliseconds: 100_000, nx: false, xx: false, gt: false, lt: false },
        Command::PExpireAt(kk(), 4_000_000_000_000),
        Command::Ttl(kk()),
        Command::Pttl(kk()),
        Command::ExpireTime(kk()),
        Command::PExpireTime(kk()),
        Command::Persist(kk()),
        Command::Incr(kk()),
        Command::Decr(kk()),
        Command::IncrBy(kk(), 3),
        Command::DecrBy(kk(), 3),
        Command::IncrByFloat(kk(), 1.5),
        Command::Append(kk(), sd("x")),
        Command::GetSet(kk(), sd("9")),
        Command::StrLen(kk()),
        Command::LPush(kk(), vec![sd("a")]),
        Command::RPush(kk(), vec![sd("a")]),
        Command::LPop(kk()),
        Command::RPop(kk()),
        Command::LLen(kk()),
        Command::LIndex(kk(), 0),
        Command::LRange(kk(), 0, -1),
        Command::LSet(kk(), 0, sd("a")),
        Command::LTrim(kk(), 0, 1),
        Command::RPopLPush(kk(), kk()),
        Command::LMove { source: kk(), dest: kk(), wherefrom: "LEFT".into(), whereto: "RIGHT".into() },
        Command::SAdd(kk(), vec![sd("m")]),
        Command::SRem(kk(), vec![sd("m")]),
        Command::SMembers(kk()),
        Command::SIsMember(kk(), sd("m")),
        Command::SCard(kk()),
        Command::SPop(kk(), None),
        Command::HSet(kk(), vec![(sd("f"), sd("v"))]),
        Command::HGet(kk(), sd("f")),
        Command::HDel(kk(), vec![sd("f")]),
        Command::HGetAll(kk()),
        Command::HKeys(kk()),
        Command::HVals(kk()),
        Command::HLen(kk()),
        Command::HExists(kk(), sd("f")),
        Command::HIncrBy(kk(), sd("f"), 1),
        Command::ZAdd { key: kk(), pairs: vec![(1.0, sd("m"))], nx: false, xx: false, gt: false, lt: false, ch: false },
        Command::ZRem(kk(), vec![sd("m")]),
        Command::ZRange(kk(), 0, -1, false),
        Command::ZRevRange(kk(), 0, -1, false),
        Command::ZScore(kk(), sd("m")),
        Command::ZRank(kk(), sd("m")),
        Command::ZCard(kk()),
        Command::ZCount(kk(), "-inf".into(), "+inf".into()),
        Command::ZRangeByScore { key: kk(), min: "-inf".into(), max: "+inf".into(), with_scores: false, limit: None },
        Command::HScan { key: kk(), cursor: 0, pattern: None, count: None },
        Command::ZScan { key: kk(), cursor: 0, pattern: None, count: None },
        Command::Del(vec![kk()]),
        Command::Exists(vec![kk()]),
        Command::MGet(vec![kk()]),
        Command::MSet(vec![(kk(), sd("8"))]),
        Command::MSetNx(vec![(kk(), sd("8"))]),
        Command::BatchSet(vec![(kk(), sd("8"))]),
        Command::BatchGet(vec![kk()]),
        Command::Watch(vec![kk()]),
        Command::Eval { script: "return redis.pcall('GET', KEYS[1])".into(), keys: vec![kk()], args: vec![] },
        Command::EvalSha { sha1: sha.to_string(), keys: vec![kk()], args: vec![] },
        Command::ObjectEncoding(kk()),
        Command::ObjectRefCount(kk()),
        Command::ObjectIdleTime(kk()),
        Command::ObjectFreq(kk()),
        Command::DebugObject(kk()),
        Command::Sort { key: kk(), store: None },
        Command::Rename(kk(), kk()),
        Command::RenameNx(kk(), kk()),
    ]
}

/// variants whose reply and effect do not depend on the key's content at the `ShardedActorState`
/// level (nothing to observe): WATCH records a snapshot in the shard executor's transaction state,
/// which only the connection-level transaction code (C05) consults
fn unobservable(c: &Command) -> bool {
    matches!(c, Command::Watch(_))
}

async fn observe(st: &State, k: &str, cmd: &Command) -> String {
    let kb = bytes::Bytes::copy_from_slice(k.as_bytes());
    st.execute(&Command::FlushDb).await;
    st.fast_set(kb.clone(), bytes::Bytes::from_static(b"5")).await;
    if matches!(cmd, Command::Persist(_)) {
        // PERSIST answers 0 both for "no TTL" and for "no key": give the key a TTL first
        st.execute(&Command::Expire { key: k.to_string(), seconds: 1000, nx: false, xx: false, gt: false, lt: false }).await;
    }
    let r = st.execute(cmd).await;
    let back = st.fast_get(kb).await;
    let size = st.execute(&Command::DbSize).await;
    format!("reply={:?} fast_get={:?} dbsize={:?}", r, back, size)
}

pub async fn run(out: &mut Out) {
    let n = 4usize;
    let st1 = new_state(1);
    let stn = new_state(n);
    let script = "return redis.pcall('GET', KEYS[1])";
    let mut shas = Vec::new();
    for st in [&st1, &stn] {
        shas.push(match st.execute(&Command::ScriptLoad(script.to_string())).await {
            RespValue::BulkString(Some(x)) => String::from_utf8_lossy(&x).to_string(),
            _ => String::new(),
        });
    }
    // keys: plain ones on every shard, and one of every special class
    let mut keys: Vec<String> = (0..8).map(|i| format!("rk{}", i)).collect();
    let mut seen: BTreeSet<&'static str> = BTreeSet::new();
    for (class, k) in special_keys() {
        if seen.insert(class) || class == "tag-nonempty" || class == "tag-family" {
            keys.push(String::from_utf8(k).unwrap());
        }
    }
    let mut cov: BTreeMap<String, u64> = BTreeMap::new();
    let mut variants: BTreeSet<&'static str> = BTreeSet::new();
    for k in &keys {
        let p1 = probes(k, &shas[0]);
        let pn = probes(k, &shas[1]);
        for (c1, cn) in p1.iter().zip(pn.iter()) {
            let name = variant_name(c1);
            if !names_a_key(c1) {
                out.violation("C03:route-probe-incomplete", &format!("probe for {} which names no key", name), json!({}));
                continue;
            }
            variants.insert(name);
            if unobservable(c1) {
                *cov.entry(format!("{} (not observable at this layer: C05)", name)).or_insert(0) += 1;
                continue;
            }
            let a = observe(&st1, k, c1).await;
            let b = observe(&stn, k, cn).await;
            *cov.entry(name.to_string()).or_insert(0) += 1;
            out.count("route-probe");
            if a != b {
                out.violation(
                    &format!("C03:route-probe:{}", name),
                    &format!("after fast_set({:?}, \"5\"): {} on {} shards gives {} where one shard gives {} — the command is not executed on the key's home shard", k, name, n, b, a),
                    json!({"shards": n, "key": k, "ops": [format!("fast_set {:?} 5", k), format!("{:?}", cn), format!("fast_get {:?}", k), "DBSIZE"], "one_shard": a, "n_shards": b}),
                );
            }
        }
    }
    if variants.len() != KEY_BEARING_VARIANTS {
        out.violation(
            "C03:route-probe-incomplete",
            &format!("{} key-bearing Command variants are classified in routes_gen.rs but {} have a route probe", KEY_BEARING_VARIANTS, variants.len()),
            json!({"probed": variants.iter().collect::<Vec<_>>()}),
        );
    }
    // other node-global state that is not the keyspace: written through one command, read through
    // another; 1 vs N shards must agree (CONFIG lives in shard 0's executor and both commands are
    // key-less; client names are stubs; INFO counts keys over all shards)
    {
        let mut globals: BTreeMap<String, String> = BTreeMap::new();
        for (name, seq) in [
            ("CONFIG SET/GET", vec![Command::ConfigSet("maxmemory".into(), "12345".into()), Command::ConfigGet("maxmemory".into())]),
            ("CLIENT SETNAME/GETNAME", vec![Command::ClientSetName("probe".into()), Command::ClientGetName]),
            ("SCRIPT LOAD/EXISTS/FLUSH/EXISTS", vec![
                Command::ScriptLoad("return 1".into()),
                Command::ScriptExists(vec!["e0e1f9fabfc9d4800c877a703b823ac0578ff8db".into()]),
                Command::ScriptFlush,
                Command::ScriptExists(vec!["e0e1f9fabfc9d4800c877a703b823ac0578ff8db".into()]),
            ]),
            ("DBSIZE after writes on several shards", vec![Command::MSet((0..8).map(|i| (format!("g{}", i), sd("v"))).collect()), Command::DbSize, Command::FlushAll, Command::DbSize]),
        ] {
            let mut a = Vec::new();
            let mut b = Vec::new();
            for c in &seq {
                a.push(format!("{:?}", st1.execute(c).await));
                b.push(format!("{:?}", stn.execute(c).await));
            }
            globals.insert(name.to_string(), if a == b { "equal on 1 and 4 shards".into() } else { format!("DIFFERS: one shard {:?}, 4 shards {:?}", a, b) });
            if a != b {
                out.violation(
                    &format!("C03:global-state:{}", name.replace(' ', "_")),
                    &format!("{}: 4 shards answer {:?} where one shard answers {:?}", name, b, a),
                    json!({"shards": n, "ops": seq.iter().map(|c| format!("{:?}", c)).collect::<Vec<_>>(), "one_shard": a, "n_shards": b}),
                );
            }
        }
        out.extra.insert("node_global_state_probes".into(), json!(globals));
    }
    // configuration as input: shard counts incl. 0, non-powers of two, the maximum and beyond
    // (clamped to 1..=256), adaptive features on, and PerformanceConfig instances with a response
    // pool of capacity 1 — a short session must answer like one shard
    {
        use crate::c03::new_state_perf;
        use redis_sim::io::simulation::SimulationContext;
        use redis_sim::production::{ShardConfig, ShardedActorState};
        let session = |k: usize| -> Vec<Command> {
            let mut v = Vec::new();
            for i in 0..k {
                v.push(Command::set(format!("cfg{}", i), sd("v")));
            }
            v.push(Command::DbSize);
            v.push(Command::MGet((0..k).map(|i| format!("cfg{}", i)).collect()));
            v.push(Command::Del((0..k / 2).map(|i| format!("cfg{}", i)).collect()));
            v.push(Command::DbSize);
            v.push(Command::Exists((0..k).map(|i| format!("cfg{}", i)).collect()));
            v
        };
        let mut reference = Vec::new();
        for c in session(24) {
            reference.push(format!("{:?}", st1.execute(&c).await));
        }
        st1.execute(&Command::FlushAll).await;
        let mut cfgs: BTreeMap<String, String> = BTreeMap::new();
        for want in [0usize, 1, 2, 3, 5, 7, 64, 256, 1000] {
            let ctx = std::sync::Arc::new(SimulationContext::new(0, redis_sim::buggify::FaultConfig::disabled()));
            let st = ShardedActorState::with_config_and_time_source(ShardConfig::with_shards(want), redis_sim::io::SimulatedTimeSource::new_default(ctx));
            let got = st.num_shards();
            let mut r = Vec::new();
            for c in session(24) {
                r.push(format!("{:?}", st.execute(&c).await));
            }
            let pooled = format!("{:?}", st.pooled_fast_get(bytes::Bytes::from_static(b"cfg20")).await);
            let ok = got == want.clamp(1, 256) && r == reference && pooled.contains("118");
            cfgs.insert(format!("with_shards({})", want), format!("num_shards = {}, session {}", got, if ok { "equals one shard" } else { "DIFFERS" }));
            if !ok {
                out.violation("C03:config:shard-count", &format!("ShardConfig::with_shards({}): num_shards() = {}, session replies {:?} (one shard: {:?})", want, got, r, reference), json!({"with_shards": want}));
            }
        }
        {
            let ctx_adaptive = std::sync::Arc::new(SimulationContext::new(0, redis_sim::buggify::FaultConfig::disabled()));
            let set_now_local = crate::c03::set_now;
            let st = ShardedActorState::with_config_and_time_source(ShardConfig::with_shards(4).with_adaptive(), redis_sim::io::SimulatedTimeSource::new_default(ctx_adaptive.clone()));
            let mut r = Vec::new();
            for c in session(24) {
                r.push(format!("{:?}", st.execute(&c).await));
            }
            st.observe_access("cfg1", true);
            let _ = st.get_rf_for_key("cfg1").await;
            let _ = st.get_hot_keys().await;
            let _ = st.check_scaling().await;
            st.update_shard_metrics(0, 10, 1.0);
            let _ = st.get_adaptive_info().await;
            let ok = r == reference && st.is_adaptive_enabled() && st.adaptive_handle().is_some();
            cfgs.insert("with_shards(4).with_adaptive()".into(), if ok { "session equals one shard; metrics calls do not disturb it".into() } else { "DIFFERS".into() });
            if !ok {
                out.violation("C03:config:adaptive", "adaptive features change the replies of a plain session", json!({"replies": r}));
            }
            // a rebalance: the load balancer is shown one overloaded shard until it RECOMMENDS
            // scaling; nothing applies the recommendation (source-derived: no consumer), so the shard
            // count and the home of every key must be what they were
            let before: Vec<String> = {
                let mut v = Vec::new();
                for i in 12..24 {
                    v.push(format!("{:?}", st.execute(&Command::Get(format!("cfg{}", i))).await));
                }
                v
            };
            let mut decisions: std::collections::BTreeSet<String> = std::collections::BTreeSet::new();
            for round in 0..40u64 {
                st.update_shard_metrics(0, 5_000_000, 1.0e9);
                for sh in 1..4 {
                    st.update_shard_metrics(sh, 0, 0.0);
                }
                set_now_local(&ctx_adaptive, 10_000 * (round + 1));
                decisions.insert(format!("{:?}", st.check_scaling().await));
            }
            let after: Vec<String> = {
                let mut v = Vec::new();
                for i in 12..24 {
                    v.push(format!("{:?}", st.execute(&Command::Get(format!("cfg{}", i))).await));
                }
                v
            };
            let pooled = format!("{:?}", st.pooled_fast_get(bytes::Bytes::from_static(b"cfg20")).await);
            let stable = st.num_shards() == 4 && before == after && pooled.contains("118") && format!("{:?}", st.execute(&Command::DbSize).await).contains("12");
            cfgs.insert(
                "rebalance: one overloaded shard for 40 load-check intervals".into(),
                format!("decisions seen {:?}; num_shards = {}; every key still answers from its home: {}", decisions, st.num_shards(), stable),
            );
            if !stable {
                out.violation(
                    "C03:rebalance-changes-routing",
                    "after the load balancer was driven to a scaling decision the shard count or the home of a key changed: keys written before are not found where the route now points",
                    json!({"decisions": decisions, "num_shards": st.num_shards(), "before": before, "after": after, "pooled_get_cfg20": pooled}),
                );
            }
        }
        for (cap, pre) in [(1usize, 0usize), (1, 1), (2, 1), (256, 64), (0, 0), (4, 5)] {
            match new_state_perf(4, cap, pre) {
                None => {
                    cfgs.insert(format!("PerformanceConfig pool capacity={} prewarm={}", cap, pre), "rejected by validate()".into());
                }
                Some((st, _)) => {
                    let mut ok = true;
                    for i in 0..40 {
                        let k = bytes::Bytes::from(format!("pp{}", i % 7));
                        let v = bytes::Bytes::from(format!("v{}", i));
                        ok &= format!("{:?}", st.pooled_fast_set(k.clone(), v.clone()).await).contains("OK");
                        ok &= st.pooled_fast_get(k).await == RespValue::BulkString(Some(v.to_vec()));
                    }
                    cfgs.insert(format!("PerformanceConfig pool capacity={} prewarm={}", cap, pre), if ok { "40 pooled SET/GET rounds answer their own requests".into() } else { "WRONG REPLY".into() });
                    if !ok {
                        out.violation("C03:config:response-pool", &format!("response pool capacity={} prewarm={}: a pooled request received a reply that is not its own", cap, pre), json!({"capacity": cap, "prewarm": pre}));
                    }
                }
            }
        }
        out.extra.insert("configuration_probes".into(), json!(cfgs));
    }
    out.extra.insert("route_probe_coverage(variant → keys probed, 1 vs 4 shards after a fast-path write)".into(), json!(cov));
    out.extra.insert("route_probe_keys".into(), json!(keys));
}
