//! C06, `MultiNodeSimulation` — correspondence of the Lean model `Model/SimCluster.lean` with the
//! real simulator cluster (`src/simulator/multi_node.rs`): client `SET[EX]` / `DEL` on any node,
//! `gossip_round` (outbox drained, broadcast or selective routing through the real `GossipRouter`s
//! over the real `HashRing`, per-send loss and delay drawn from the simulator's rng — replayed by a
//! twin rng and handed to the model as an oracle —, partitions checked at send AND at delivery,
//! the FIFO `message_queue` whose head blocks what is behind it), `partition`, `heal_partition`
//! (× `auto_anti_entropy`), `run_anti_entropy_sync`, `run_full_anti_entropy` (real digests: the
//! model hashes with its own SipHash), `advance_time_ms`.  After every step the touched nodes'
//! replication state (Lamport clock, every key's full value) AND what their executor serves are
//! compared with the model; per key the ghost flag "every update reached every responsible
//! replica — as a delta or inside a transferred value" comes from the model and the property is
//! evaluated on the real nodes (responsible replicas that got everything hold the same value and
//! serve the same GET; a node serves what its replication state says).
use crate::enc::{hex, key_cmp, MRv};
use crate::out::Out;
use crate::rng::Rng;
use redis_sim::redis::{Command, RespValue, SDS};
use redis_sim::replication::anti_entropy::{AntiEntropyConfig, AntiEntropyManager};
use redis_sim::replication::lattice::ReplicaId;
use redis_sim::replication::state::ReplicationDelta;
use redis_sim::replication::{ConsistencyLevel, ReplicationConfig};
use redis_sim::simulator::multi_node::{MultiNodeSimulation, SimulatedNode};
use redis_sim::simulator::DeterministicRng;
use serde_json::json;
use std::collections::BTreeSet;

const KEYS: [&str; 6] = ["k", "h", "é", "zz", "k2", "q"];

fn did(d: &ReplicationDelta) -> String {
    format!("{}/{}/{}.{}", d.source_replica.0.wrapping_sub(1), hex(d.key.as_bytes()), d.value.timestamp.time, d.value.timestamp.replica_id.0)
}

fn summary(v: &[String]) -> String {
    if v.len() <= 8 {
        v.join(" ")
    } else {
        let mut s: Vec<String> = v[..3].to_vec();
        s.push("…".into());
        s.extend_from_slice(&v[v.len() - 3..]);
        s.join(" ")
    }
}

pub struct Shape {
    pub n: usize,
    pub rf: Option<usize>,
    pub causal: bool,
    pub auto: bool,
    pub depth: usize,
    pub limit: usize,
    pub keys: usize,
}

pub struct World {
    pub sim: MultiNodeSimulation,
    pub shape: Shape,
    pub text: String,
    pub cap: u64,
    /// every delta a node recorded (taken from the tail of its outbox right after `execute`)
    pub issued: Vec<ReplicationDelta>,
    /// (node, key) of every conditional SET the executor refused and `execute` recorded all the same
    pub refused_recorded: Vec<(usize, String)>,
    round: u64,
}

impl World {
    pub fn new(out: &mut Out, shape: Shape, cap: u64, seed: u64) -> World {
        let n = shape.n;
        let mut sim = match shape.rf {
            Some(rf) => MultiNodeSimulation::new_partitioned(n, rf, seed),
            None => MultiNodeSimulation::new(n, seed),
        };
        sim = sim.with_auto_anti_entropy(shape.auto);
        for i in 0..n {
            if shape.causal {
                let peers: Vec<String> = (0..n).filter(|j| *j != i).map(|j| format!("127.0.0.1:{}", 3000 + j)).collect();
                let mut cfg = match shape.rf {
                    Some(rf) => ReplicationConfig::new_partitioned_cluster(i as u64 + 1, peers, rf),
                    None => ReplicationConfig::new_cluster(i as u64 + 1, peers),
                };
                cfg.consistency_level = ConsistencyLevel::Causal;
                sim.nodes[i] = SimulatedNode::new(i, cfg);
            }
            sim.nodes[i].anti_entropy = AntiEntropyManager::new(
                ReplicaId::new(i as u64 + 1),
                AntiEntropyConfig { sync_interval_ms: 1000, max_keys_per_sync: shape.limit, merkle_tree_depth: shape.depth, auto_sync_on_heal: true },
            );
        }
        let mut line = format!("SN {} {} {} {} {} {}", n, shape.causal as u8, shape.auto as u8, shape.depth, shape.limit, cap);
        for i in 0..n {
            match (&sim.hash_ring, sim.gossip_routers.get(&i)) {
                (Some(ring), Some(r)) => {
                    let g = ring.read().unwrap();
                    let mut keys: Vec<&str> = KEYS[..shape.keys].to_vec();
                    keys.sort_by(|a, b| key_cmp(a, b));
                    line.push_str(&format!(" R {} {}", r.is_selective() as u8, keys.len()));
                    for k in keys {
                        let t: Vec<u64> = g.get_gossip_targets(k, ReplicaId::new(i as u64 + 1)).into_iter().map(|r| r.0).filter(|r| *r != i as u64 + 1 && *r >= 1 && *r <= n as u64).collect();
                        line.push_str(&format!(" {} {}", hex(k.as_bytes()), t.len()));
                        for x in t {
                            line.push_str(&format!(" {}", x));
                        }
                    }
                }
                _ => line.push_str(" -"),
            }
        }
        let mut w = World { sim, shape, text: String::new(), cap, issued: Vec::new(), refused_recorded: Vec::new(), round: seed.wrapping_mul(0x9E37_79B9_7F4A_7C15) };
        w.op(out, line, "ok".into());
        w
    }

    fn op(&mut self, out: &mut Out, line: String, ans: String) {
        self.text.push_str(&line);
        self.text.push(';');
        out.op(line, ans);
    }

    pub fn owners(&self, key: &str) -> Vec<usize> {
        match &self.sim.hash_ring {
            Some(ring) => {
                let g = ring.read().unwrap();
                let mut v: Vec<usize> = g.get_replicas(key).into_iter().map(|r| r.0 as usize - 1).collect();
                v.sort();
                v.dedup();
                v
            }
            None => (0..self.shape.n).collect(),
        }
    }

    pub fn exec_set(&mut self, out: &mut Out, i: usize, key: &str, v: &[u8], ex: Option<i64>) {
        let cmd = match ex {
            Some(s) => Command::setex(key.to_string(), s, SDS::new(v.to_vec())),
            None => Command::set(key.to_string(), SDS::new(v.to_vec())),
        };
        self.sim.execute(0, i, cmd);
        let nd = &self.sim.nodes[i];
        self.issued.extend(nd.replica_state.pending_deltas.last().cloned());
        let ans = format!("d=1 pend={} {}", nd.replica_state.pending_deltas.len(), nd.replica_state.pending_deltas.last().map(did).unwrap_or("-".into()));
        self.op(out, format!("SX {} SET {} {} {}", i, hex(key.as_bytes()), hex(v), ex.map(|e| e.to_string()).unwrap_or("-".into())), ans);
        out.count("sim:exec:set");
    }

    /// `SET key v NX` / `XX` through `SimulatedNode::execute`
    pub fn exec_set_cond(&mut self, out: &mut Out, i: usize, key: &str, v: &[u8], nx: bool, get: bool) {
        let before = self.sim.nodes[i].replica_state.pending_deltas.len();
        let cmd = Command::Set { key: key.to_string(), value: SDS::new(v.to_vec()), ex: None, px: None, exat: None, pxat: None, nx, xx: !nx, get, keepttl: false };
        let r = self.sim.execute(0, i, cmd);
        // with GET the reply is the old value: NX applied iff there was none, XX applied iff there was one
        let applied = match (get, nx) {
            (false, _) => matches!(r, RespValue::SimpleString(_)),
            (true, true) => matches!(r, RespValue::BulkString(None)),
            (true, false) => matches!(r, RespValue::BulkString(Some(_))),
        };
        let nd = &self.sim.nodes[i];
        let after = nd.replica_state.pending_deltas.len();
        // (the outbox is far from its capacity in these scenarios: its growth is the number of deltas)
        let d = after.saturating_sub(before);
        if d > 0 {
            self.issued.extend(nd.replica_state.pending_deltas.last().cloned());
        }
        if !applied && d > 0 {
            self.refused_recorded.push((i, key.to_string()));
        }
        let ans = format!("applied={} d={} pend={}", applied as u8, d, after);
        self.op(out, format!("SXC {} {} {} {}", i, hex(key.as_bytes()), hex(v), if nx { "NX" } else { "XX" }), ans);
        out.count(if applied { "sim:exec:set-cond:applied" } else { "sim:exec:set-cond:refused" });
    }

    /// `SET key v EX 0`: the executor answers with an error; nothing may be recorded (no model op:
    /// the next state dump must still agree)
    pub fn exec_rejected(&mut self, out: &mut Out, i: usize, key: &str) {
        let before = self.sim.nodes[i].replica_state.pending_deltas.len();
        let r = self.sim.execute(0, i, Command::setex(key.to_string(), 0, SDS::new(b"rejected".to_vec())));
        let after = self.sim.nodes[i].replica_state.pending_deltas.len();
        out.count("sim:exec:set-rejected-with-error");
        if !matches!(r, RespValue::Error(_)) || after != before {
            out.violation(
                "C06:sim:rejected-set-recorded",
                "SET k v EX 0 through SimulatedNode::execute: the executor must answer with an error and nothing may be recorded",
                json!({"history": self.text.clone(), "node": i, "key": key, "reply_is_error": matches!(r, RespValue::Error(_)), "outbox_before": before, "outbox_after": after}),
            );
        }
    }

    pub fn exec_del(&mut self, out: &mut Out, i: usize, keys: &[&str]) {
        // a key yields a delta iff the replication state knows it when its turn comes (a tombstone counts)
        let d = keys.iter().filter(|k| self.sim.nodes[i].replica_state.replicated_keys.contains_key(**k)).count();
        self.sim.execute(0, i, Command::Del(keys.iter().map(|k| k.to_string()).collect()));
        let nd = &self.sim.nodes[i];
        let pl = nd.replica_state.pending_deltas.len();
        self.issued.extend(nd.replica_state.pending_deltas[pl - d.min(pl)..].iter().cloned());
        let last = if d > 0 { nd.replica_state.pending_deltas.last().map(did).unwrap_or("-".into()) } else { "-".into() };
        let ans = format!("d={} pend={} {}", d, nd.replica_state.pending_deltas.len(), last);
        let mut line = format!("SX {} DEL {}", i, keys.len());
        for k in keys {
            line.push_str(&format!(" {}", hex(k.as_bytes())));
        }
        self.op(out, line, ans);
        out.count("sim:exec:del");
    }

    /// one `gossip_round` with loss rate `rate` and delays in `lo..=hi`; the draws of `send_deltas`
    /// are replayed on a twin rng and handed to the model
    pub fn gossip(&mut self, out: &mut Out, rate: f64, lo: u64, hi: u64) {
        self.round = self.round.wrapping_mul(6364136223846793005).wrapping_add(1442695040888963407);
        let seed = self.round;
        self.sim.packet_loss_rate = rate;
        self.sim.message_delay_range = (lo, hi);
        self.sim.rng = DeterministicRng::new(seed);
        let mut twin = DeterministicRng::new(seed);
        let mut line = "SG 48".to_string();
        let mut lost = 0;
        for _ in 0..48 {
            let l = twin.gen_bool(rate);
            let d = if l { 0 } else { twin.gen_range(lo, hi + 1) };
            lost += l as u64;
            line.push_str(&format!(" {} {}", l as u8, d));
        }
        let _ = lost;
        self.sim.gossip_round();
        let fl: Vec<String> = self
            .sim
            .message_queue
            .iter()
            .map(|m| format!("{}>{}:[{}]@{}", m.from, m.to, m.deltas.iter().map(did).collect::<Vec<_>>().join(","), m.delivery_time.as_millis()))
            .collect();
        let pend: usize = self.sim.nodes.iter().map(|n| n.replica_state.pending_deltas.len()).sum();
        let ans = format!("q={} [{}] pend={}", fl.len(), summary(&fl), pend);
        self.op(out, line, ans);
        out.count(if rate == 0.0 { "sim:gossip:no-loss" } else if rate >= 1.0 { "sim:gossip:all-lost" } else { "sim:gossip:some-lost" });
    }

    pub fn advance(&mut self, out: &mut Out, ms: u64) {
        self.sim.advance_time_ms(ms);
        let ans = format!("now={}", self.sim.current_time.as_millis());
        self.op(out, format!("SA {}", ms), ans);
    }

    fn sync_ans(&self) -> String {
        format!("syncs={} parts={}", self.sim.anti_entropy_syncs, self.sim.partitions.len())
    }

    pub fn partition(&mut self, out: &mut Out, a: usize, b: usize) {
        self.sim.partition(a, b);
        let ans = self.sync_ans();
        self.op(out, format!("SP {} {}", a, b), ans);
        out.count("sim:partition");
    }

    pub fn heal(&mut self, out: &mut Out, a: usize, b: usize) {
        let before = self.sim.anti_entropy_syncs;
        self.sim.heal_partition(a, b);
        let ans = self.sync_ans();
        self.op(out, format!("SH {} {}", a, b), ans);
        out.count(if self.sim.anti_entropy_syncs > before { "sim:heal:synced" } else { "sim:heal:no-sync" });
    }

    pub fn sync(&mut self, out: &mut Out, a: usize, b: usize) {
        let before = self.sim.anti_entropy_syncs;
        self.sim.run_anti_entropy_sync(a, b);
        let ans = self.sync_ans();
        self.op(out, format!("SY {} {}", a, b), ans);
        out.count(if self.sim.anti_entropy_syncs > before { "sim:sync:exchanged" } else { "sim:sync:in-sync" });
    }

    pub fn full_sync(&mut self, out: &mut Out) {
        self.sim.run_full_anti_entropy();
        let ans = self.sync_ans();
        self.op(out, "SF".into(), ans);
        out.count("sim:full-sync");
    }

    fn get(&mut self, i: usize, key: &str) -> Option<Vec<u8>> {
        match self.sim.nodes[i].executor.execute(&Command::Get(key.to_string())) {
            RespValue::BulkString(Some(b)) => Some(b),
            _ => None,
        }
    }

    /// replication state + served strings of node `i`; also the node-local half of the property
    pub fn state(&mut self, out: &mut Out, i: usize) {
        let nd = &self.sim.nodes[i];
        let mut v: Vec<(String, MRv)> = nd.replica_state.replicated_keys.iter().map(|(k, v)| (k.clone(), MRv::from_real(v))).collect();
        v.sort_by(|a, b| key_cmp(&a.0, &b.0));
        let mut ans = format!("clock={}.{} {}", nd.replica_state.lamport_clock.time, nd.replica_state.lamport_clock.replica_id.0, v.len());
        for (k, m) in &v {
            ans.push_str(&format!(" {} {} ;", hex(k.as_bytes()), m.show()));
        }
        let mut keys: Vec<&str> = KEYS.to_vec();
        keys.sort_by(|a, b| key_cmp(a, b));
        let mut served = Vec::new();
        for k in keys {
            if let Some(b) = self.get(i, k) {
                served.push((k.to_string(), b));
            }
        }
        ans.push_str(&format!(" kv {}", served.len()));
        for (k, b) in &served {
            ans.push_str(&format!(" {} {}", hex(k.as_bytes()), hex(b)));
        }
        // what the node serves equals what its replication state says
        for k in KEYS {
            let rep = self.sim.nodes[i].replica_state.replicated_keys.get(k).and_then(|rv| if rv.is_tombstone() { None } else { rv.get().map(|s| s.as_bytes().to_vec()) });
            let got = served.iter().find(|(x, _)| x == k).map(|(_, b)| b.clone());
            if rep != got && self.refused_recorded.iter().any(|(n, key)| *n == i && key == k) {
                // by cause: this node executed a conditional SET of this key that the executor refused
                // and `execute` recorded all the same
                out.violation(
                    "C06:sim:refused-set-recorded",
                    "SimulatedNode::execute records a SET the executor refused (NX on an existing key / XX on a missing one): the node serves the old value, its replication state and its peers hold the refused one",
                    json!({"history": self.text.clone(), "node": i, "key": k, "served": got.map(|b| hex(&b)), "replicated": rep.map(|b| hex(&b))}),
                );
            } else if rep != got {
                out.violation(
                    "C06:sim:served-differs-from-replicated",
                    "a SimulatedNode serves a GET that differs from the live value of its replication state",
                    json!({"history": self.text.clone(), "node": i, "key": k, "served": got.map(|b| hex(&b)), "replicated": rep.map(|b| hex(&b))}),
                );
            }
        }
        self.op(out, format!("SS {}", i), ans);
    }

    pub fn states(&mut self, out: &mut Out) {
        for i in 0..self.shape.n {
            self.state(out, i);
        }
    }

    fn strip(&self, j: usize, key: &str) -> Option<String> {
        self.sim.nodes[j].replica_state.replicated_keys.get(key).map(|v| {
            let mut m = MRv::from_real(v);
            m.vc = None;
            m.exp = None;
            m.rf = None;
            m.show()
        })
    }

    /// per key: `above` = every replica of `owners` holds a value that absorbs every delta ever
    /// recorded for the key (merging the delta in changes nothing: the update has reached it, as a
    /// delta or inside a transferred value), `among` = they hold the same content and stamp,
    /// `served` = they answer GET alike; the property on the real nodes.
    pub fn check(&mut self, out: &mut Out, key: &str, owners: &[usize]) -> (bool, bool, bool) {
        let show = |v: &redis_sim::replication::state::ReplicatedValue| {
            let mut m = MRv::from_real(v);
            m.vc = None;
            m.exp = None;
            m.rf = None;
            m.show()
        };
        let above = owners.iter().all(|j| {
            let cur = self.sim.nodes[*j].replica_state.replicated_keys.get(key);
            self.issued.iter().filter(|d| d.key == key).all(|d| match cur {
                Some(v) => show(&v.merge(&d.value)) == show(v),
                None => false,
            })
        });
        let vs: BTreeSet<Option<String>> = owners.iter().map(|j| self.strip(*j, key)).collect();
        let among = vs.len() <= 1;
        let mut reads = BTreeSet::new();
        for j in owners {
            reads.insert(self.get(*j, key));
        }
        let served = reads.len() <= 1;
        let mut line = format!("SK {} {}", hex(key.as_bytes()), owners.len());
        for o in owners {
            line.push_str(&format!(" {}", o));
        }
        if above && !among {
            out.violation(
                "C06:sim:owners-diverge",
                "every update of the key has reached every responsible replica (as a gossiped delta or inside an anti-entropy transfer), yet the responsible replicas hold different values",
                json!({"history": self.text.clone(), "key": key, "owners": owners}),
            );
        } else if above && !served {
            out.violation(
                "C06:sim:owners-serve-differently",
                "every update of the key has reached every responsible replica and their replication states agree, yet they answer GET differently",
                json!({"history": self.text.clone(), "key": key, "owners": owners}),
            );
        }
        self.op(out, line, format!("above={} among={} served={}", above as u8, among as u8, served as u8));
        (above, among, served)
    }
}

fn val(rng: &mut Rng) -> Vec<u8> {
    match rng.below(6) {
        0 => vec![],
        1 => vec![0, 255, 10],
        _ => format!("v{}", rng.below(50)).into_bytes(),
    }
}

fn random_history(out: &mut Out, rng: &mut Rng, cap: u64) {
    let n = rng.range(2, 5) as usize;
    let rf = if rng.chance(1, 3) { Some(rng.range(1, n as u64) as usize) } else { None };
    let shape = Shape {
        n,
        rf,
        causal: rng.chance(1, 4),
        auto: rng.chance(2, 3),
        depth: *rng.pick(&[0usize, 1, 3, 8, 8]),
        limit: *rng.pick(&[0usize, 1, 2, 1000, 1000, 1000]),
        keys: rng.range(1, KEYS.len() as u64) as usize,
    };
    let nk = shape.keys;
    let seed = rng.next();
    let mut w = World::new(out, shape, cap, seed);
    let steps = rng.range(6, 36);
    for _ in 0..steps {
        match rng.below(20) {
            0..=7 => {
                let i = rng.below(n as u64) as usize;
                let k = KEYS[rng.below(nk as u64) as usize];
                if rng.chance(1, 4) {
                    let m = rng.range(1, 3) as usize;
                    let ks: Vec<&str> = (0..m).map(|_| KEYS[rng.below(nk as u64) as usize]).collect();
                    w.exec_del(out, i, &ks);
                } else {
                    let ex = if rng.chance(1, 5) { Some(rng.range(1, 100) as i64) } else { None };
                    let v = val(rng);
                    w.exec_set(out, i, k, &v, ex);
                }
                w.state(out, i);
            }
            8..=11 => {
                let rate = *rng.pick(&[0.0, 0.0, 0.0, 0.3, 0.6, 1.0]);
                let lo = rng.range(0, 3);
                let hi = lo + rng.range(0, 12);
                w.gossip(out, rate, lo, hi);
                w.states(out);
            }
            12 | 13 => {
                let ms = *rng.pick(&[0u64, 1, 5, 10, 20]);
                w.advance(out, ms);
            }
            14 | 15 => {
                let a = rng.below(n as u64) as usize;
                let b = rng.below(n as u64) as usize;
                w.partition(out, a, b);
            }
            16 | 17 => {
                let (a, b) = if !w.sim.partitions.is_empty() && rng.chance(3, 4) {
                    let mut ps: Vec<(usize, usize)> = w.sim.partitions.iter().cloned().collect();
                    ps.sort();
                    let p = ps[rng.below(ps.len() as u64) as usize];
                    if rng.chance(1, 2) { p } else { (p.1, p.0) }
                } else {
                    (rng.below(n as u64) as usize, rng.below(n as u64) as usize)
                };
                w.heal(out, a, b);
                w.states(out);
            }
            18 => {
                let a = rng.below(n as u64) as usize;
                let b = rng.below(n as u64) as usize;
                w.sync(out, a, b);
                w.states(out);
            }
            _ => {
                w.full_sync(out);
                w.states(out);
            }
        }
    }
    // quiescence: usually heal everything, let the queue drain, often run anti-entropy
    let finish = rng.below(4);
    if finish >= 1 {
        let mut ps: Vec<(usize, usize)> = w.sim.partitions.iter().cloned().collect();
        ps.sort();
        for (a, b) in ps {
            w.heal(out, a, b);
        }
        for _ in 0..3 {
            w.advance(out, 20);
            w.gossip(out, 0.0, 1, 1);
        }
        if finish >= 2 {
            w.full_sync(out);
        }
        w.states(out);
    }
    let mut nontrivial = false;
    for k in &KEYS[..nk] {
        let owners = w.owners(k);
        let (above, among, served) = w.check(out, k, &owners);
        let writes = w.issued.iter().filter(|d| d.key == *k).count();
        nontrivial |= writes >= 2 && above && among && served;
        if above {
            out.count("sim:key:everything-reached-the-owners");
        }
    }
    let text = w.text.clone();
    out.case(&text, nontrivial);
    if rng.chance(1, 50) {
        out.sample(json!({"part": "S", "history": text}));
    }
}

/// loss, then anti-entropy: every delta of a burst is lost (loss rate 1 or a partition), then the
/// simulator's own repair runs — heal with auto anti-entropy, or `run_full_anti_entropy` — with a
/// limit that covers the keys: every node must end with the same value for every key and serve it
fn loss_then_anti_entropy(out: &mut Out, rng: &mut Rng, cap: u64) {
    let n = rng.range(2, 5) as usize;
    let shape = Shape { n, rf: None, causal: rng.chance(1, 4), auto: true, depth: *rng.pick(&[0usize, 2, 8]), limit: 1000, keys: KEYS.len() };
    let seed = rng.next();
    let mut w = World::new(out, shape, cap, seed);
    let by_partition = rng.chance(1, 2);
    if by_partition {
        for a in 0..n {
            for b in (a + 1)..n {
                w.partition(out, a, b);
            }
        }
    }
    let writes = rng.range(2, 14);
    for _ in 0..writes {
        let i = rng.below(n as u64) as usize;
        let k = *rng.pick(&KEYS);
        if rng.chance(1, 5) {
            w.exec_del(out, i, &[k]);
        } else {
            let v = val(rng);
            w.exec_set(out, i, k, &v, None);
        }
        if rng.chance(1, 3) {
            w.gossip(out, if by_partition { 0.0 } else { 1.0 }, 1, 3);
        }
    }
    w.gossip(out, if by_partition { 0.0 } else { 1.0 }, 1, 3);
    w.states(out);
    if by_partition {
        // heal in a random order: each heal runs one pairwise exchange
        let mut ps: Vec<(usize, usize)> = w.sim.partitions.iter().cloned().collect();
        ps.sort();
        while !ps.is_empty() {
            let p = ps.remove(rng.below(ps.len() as u64) as usize);
            w.heal(out, p.0, p.1);
        }
    }
    w.full_sync(out);
    w.states(out);
    let all: Vec<usize> = (0..n).collect();
    let mut ok = true;
    for k in KEYS {
        let (_, among, served) = w.check(out, k, &all);
        if !among || !served {
            ok = false;
            out.violation(
                "C06:sim:diverged-after-full-anti-entropy",
                "every delta was lost (loss rate 1 / a full partition), then the partitions healed and run_full_anti_entropy ran with a limit above the number of keys: the nodes still hold or serve different values",
                json!({"history": w.text.clone(), "key": k}),
            );
        }
    }
    let text = w.text.clone();
    out.case(&text, ok && writes >= 2);
    out.count("sim:loss-then-anti-entropy");
}

/// the bounded outbox inside the cluster: one node accepts cap-3 … cap+6 writes between two gossip
/// rounds (`MAX_PENDING_DELTAS` crossed, oldest dropped), the round ships what is left; keys that
/// were only written early never reach the peers by gossip — anti-entropy repairs it
fn burst_over_outbox(out: &mut Out, rng: &mut Rng, cap: u64) {
    let n = rng.range(2, 3) as usize;
    let shape = Shape { n, rf: None, causal: false, auto: true, depth: 8, limit: 1000, keys: KEYS.len() };
    let seed = rng.next();
    let mut w = World::new(out, shape, cap, seed);
    let writes = cap - 3 + rng.below(10);
    let early = rng.range(1, 3);
    for t in 0..writes {
        // the first few writes go to keys that are not touched again
        let k = if t < early { KEYS[4 + (t % 2) as usize] } else { KEYS[rng.below(4) as usize] };
        if t >= early && rng.chance(1, 8) {
            w.exec_del(out, 0, &[k]);
        } else {
            let v = val(rng);
            w.exec_set(out, 0, k, &v, None);
        }
    }
    w.state(out, 0);
    w.gossip(out, 0.0, 1, 2);
    w.advance(out, 5);
    w.gossip(out, 0.0, 1, 1);
    w.states(out);
    let all: Vec<usize> = (0..n).collect();
    for k in KEYS {
        w.check(out, k, &all);
    }
    w.full_sync(out);
    w.states(out);
    let mut ok = true;
    for k in KEYS {
        let (_, among, served) = w.check(out, k, &all);
        if !among || !served {
            ok = false;
            out.violation(
                "C06:sim:diverged-after-full-anti-entropy",
                "deltas dropped by the bounded outbox, then run_full_anti_entropy with a limit above the number of keys: the nodes still hold or serve different values",
                json!({"history": w.text.clone(), "key": k}),
            );
        }
    }
    let text = w.text.clone();
    out.case(&text, ok);
    out.count(if writes > cap { "sim:burst:over-the-outbox-capacity" } else { "sim:burst:within-the-outbox-capacity" });
}

/// corpus (runs first, must reproduce C06:sim:refused-set-recorded while the finding is listed):
/// `SET k a; SET k b NX` on node 0, one gossip exchange; then the XX twin on a missing key
fn refused_set_corpus(out: &mut Out, cap: u64) {
    let shape = Shape { n: 2, rf: None, causal: false, auto: false, depth: 8, limit: 1000, keys: KEYS.len() };
    let mut w = World::new(out, shape, cap, 7);
    w.exec_set(out, 0, "k", b"a", None);
    w.exec_set_cond(out, 0, "k", b"b", true, false);
    w.exec_set_cond(out, 0, "h", b"c", true, false);
    w.exec_set_cond(out, 0, "zz", b"d", false, false);
    w.exec_set_cond(out, 0, "h", b"e", false, false);
    // the GET variants: the reply is the old value
    w.exec_set_cond(out, 0, "k", b"f", true, true);
    w.exec_set_cond(out, 0, "q", b"g", true, true);
    w.exec_set_cond(out, 0, "k2", b"h", false, true);
    w.exec_set_cond(out, 0, "q", b"i", false, true);
    // a SET the executor rejects with an error changes nothing and is not recorded
    w.exec_rejected(out, 0, "k");
    w.exec_rejected(out, 0, "é");
    w.state(out, 0);
    w.gossip(out, 0.0, 1, 1);
    w.advance(out, 5);
    w.gossip(out, 0.0, 1, 1);
    w.states(out);
    let text = w.text.clone();
    out.case(&text, true);
}

pub fn part_s(out: &mut Out, rng: &mut Rng, n: usize) {
    let cap = crate::c06msg::read_src("src/replication/state/shard_state.rs")
        .and_then(|s| crate::c06msg::scan_const(&s, "MAX_PENDING_DELTAS"))
        .unwrap_or(100);
    refused_set_corpus(out, cap);
    for _ in 0..n {
        let mut r = rng.fork();
        random_history(out, &mut r, cap);
    }
    for _ in 0..(n / 3).max(10) {
        let mut r = rng.fork();
        loss_then_anti_entropy(out, &mut r, cap);
    }
    for _ in 0..(n / 40).max(4) {
        let mut r = rng.fork();
        burst_over_outbox(out, &mut r, cap);
    }
}
