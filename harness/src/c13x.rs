//! C13 over histories and through the entry points the compaction worker uses.
//!
//! H1 — `Compactor::needs_compaction` / `compact_if_needed` with the `max_segments` threshold just
//!      below / at / above the number of listed segments (and 0, 1, huge): model
//!      `Stream.compactIfNeeded` (op CIFNEEDED), recovery before / after.
//! H2 — long histories: pushes, flushes and REPEATED compactions (compactions of compacted
//!      segments, `compact` and `compact_if_needed` mixed, a store fault now and then); after every
//!      pass the recovered state must be EXACTLY the merge of the updates of the flushes that
//!      returned Ok (`history_exact`) — not merely unchanged by the last pass.
//! H3 — the real `CompactionWorker::run` under tokio's paused clock: a pass at start-up, one per
//!      check interval, none after `shutdown()`; each pass compared with the model's
//!      `compactIfNeeded` through the store it leaves.
use crate::c11::{coherent, fold_real, fold_recovered, show_upds, sorted_map, Upd, PREFIX};
use crate::c12::{compactor_ms, lww_upd, recover_image, CCfg, Fault, Proc};
use crate::out::Out;
use crate::rng::Rng;
use redis_sim::streaming::{CompactionWorker, Manifest};
use serde_json::json;
use std::time::Duration;

fn no_gc() -> (u64, Duration) {
    (0, Duration::ZERO)
}

fn gen_upd(rng: &mut Rng, t: &mut u64) -> Upd {
    *t += rng.range(1, 3);
    let key = *rng.pick(&["k", "k2", "é", "t", "h"]);
    let r = rng.range(1, 2);
    lww_upd(key, format!("v{}", rng.below(50)).as_bytes(), *t, r, rng.chance(1, 6))
}

fn listed(p: &Proc) -> Vec<(u64, u64)> {
    p.store.image().get(&format!("{}/manifest.json", PREFIX)).and_then(|b| serde_json::from_slice::<Manifest>(b).ok()).map(|m| m.segments.iter().map(|s| (s.id, s.size_bytes)).collect()).unwrap_or_default()
}

/// exactness oracle of `history_exact`
async fn exact_oracle(out: &mut Out, p: &Proc, all: &[Upd], at: &str) {
    if !coherent(all) {
        out.count("hist:excluded:incoherent");
        return;
    }
    let r = recover_image(&p.store.image(), p.rid).await;
    match r {
        Err(e) => out.violation("C13:history:recovery-fails", &format!("recover() fails in the middle of a history of flushes and compactions: {}", e), json!({"workload": p.text, "at": at})),
        Ok(rs) => {
            let got = sorted_map(&fold_recovered(&rs));
            let want = sorted_map(&fold_real(&p.acked));
            out.count("hist:exactness-checked");
            if got != want {
                out.violation("C13:history:recovered-state-not-the-merge-of-confirmed", "after a history of flushes and repeated compactions (no tombstone GC) the recovered state is not exactly the merge of the updates of the flushes that returned Ok",
                    json!({"workload": p.text, "at": at, "recovered": show_upds(&got), "merge_of_confirmed": show_upds(&want)}));
            }
        }
    }
}

async fn if_needed_case(out: &mut Out, rng: &mut Rng) {
    let mut p = Proc::new(out, 1, &[]).await;
    let mut t = rng.range(1, 20);
    let mut all: Vec<Upd> = Vec::new();
    let nseg = rng.range(1, 5);
    for _ in 0..nseg {
        for _ in 0..rng.range(1, 3) {
            let u = gen_upd(rng, &mut t);
            p.push(out, &u);
            all.push(u);
        }
        p.flush(out).await;
    }
    let k = listed(&p).len() as u64;
    // the threshold just below / at / above the number of listed segments, and the extremes
    let ms = match rng.below(8) {
        0 => k.saturating_sub(1),
        1 | 2 => k,
        3 => k + 1,
        4 => 0,
        5 => 1,
        6 => 1 << 40,
        _ => rng.below(7),
    };
    out.count(&format!("ifneeded:max_segments:{}", if ms == k { "=len" } else if ms + 1 == k { "=len-1" } else if ms == k + 1 { "=len+1" } else if ms == 0 { "0" } else if ms > 1 << 30 { "huge" } else { "other" }));
    let (now, ttl) = no_gc();
    let c = CCfg { target: if rng.chance(1, 4) { 300 } else { 1 << 20 }, min: rng.range(1, 3), maxper: rng.range(2, 5), now, ttl };
    // direct oracle on the threshold comparison
    let need = compactor_ms(&p.store, &c, ms).needs_compaction().await;
    let calls = p.store.calls();
    p.log(out, format!("CNEEDS {}", ms), format!("{} calls={}", match &need { Ok(b) => (*b as u8).to_string(), Err(_) => "err".into() }, calls));
    match need {
        Ok(b) => {
            if b != (k >= ms) {
                out.violation("C13:needs-compaction:threshold", "needs_compaction() is not `listed segments >= max_segments`", json!({"workload": p.text, "listed": k, "max_segments": ms, "answer": b}));
            }
        }
        Err(e) => out.violation("C13:needs-compaction:error", &format!("needs_compaction() failed without a fault: {}", e), json!({"workload": p.text})),
    }
    p.rec(out).await.ok();
    let r = p.compact_if_needed(out, &c, ms).await;
    if k < ms && !matches!(r, Ok(None)) {
        out.violation("C13:compact-if-needed:ran-below-threshold", "compact_if_needed() did something although fewer than max_segments segments are listed", json!({"workload": p.text, "listed": k, "max_segments": ms}));
    }
    p.rec(out).await.ok();
    exact_oracle(out, &p, &all, "after compact_if_needed").await;
    p.commit(out);
    out.count("hist:case:compact-if-needed");
    out.case(&p.text, k >= ms && k >= 2);
}

async fn history_case(out: &mut Out, rng: &mut Rng) {
    let faults: Vec<(u64, Fault)> = if rng.chance(1, 3) { vec![(rng.below(60), if rng.chance(1, 3) { Fault::Partial } else { Fault::Fail })] } else { vec![] };
    let mut p = Proc::new(out, 1, &faults).await;
    let mut t = rng.range(1, 20);
    let mut all: Vec<Upd> = Vec::new();
    let rounds = rng.range(2, 5);
    let mut passes = 0;
    for _ in 0..rounds {
        for _ in 0..rng.range(1, 3) {
            for _ in 0..rng.range(1, 3) {
                let u = gen_upd(rng, &mut t);
                p.push(out, &u);
                all.push(u);
            }
            p.flush(out).await;
        }
        let (now, ttl) = if rng.chance(1, 3) { (rng.below(1000), Duration::MAX) } else { no_gc() };
        let c = CCfg { target: *rng.pick(&[260u64, 400, 1 << 20, 1 << 20]), min: rng.range(1, 3), maxper: rng.range(2, 6), now, ttl };
        if rng.chance(1, 3) {
            let k = listed(&p).len() as u64;
            let ms = *rng.pick(&[0, k.saturating_sub(1), k, k + 1]);
            let _ = p.compact_if_needed(out, &c, ms).await;
        } else {
            let _ = p.compact(out, &c).await;
        }
        passes += 1;
        p.rec(out).await.ok();
        exact_oracle(out, &p, &all, &format!("after pass {}", passes)).await;
    }
    // a final flush of whatever a failed flush left in the buffer, then once more
    p.flush(out).await;
    p.rec(out).await.ok();
    p.man(out);
    exact_oracle(out, &p, &all, "end of history").await;
    if let Some(msg) = &p.panicked {
        out.violation("C13:compaction:panic", &format!("Compactor::compact panicked: {}", msg), json!({"workload": p.text}));
    }
    p.commit(out);
    out.count(&format!("hist:case:history:passes={}", passes));
    out.case(&p.text, passes >= 2);
    out.sample(json!({"workload": p.text}));
}

/// the comparisons of a pass at equality: `size_bytes < target_segment_size` with the target just
/// below / at / above the size of a listed segment, and `time < tombstone_cutoff` with the cutoff
/// just below / at / above the stamp of a tombstone (sizes learnt from a dry run of the same flushes)
async fn boundary_case(out: &mut Out, rng: &mut Rng) {
    let mut t = rng.range(1, 20);
    let mut groups: Vec<Vec<Upd>> = Vec::new();
    let mut tomb_stamps: Vec<u64> = Vec::new();
    for _ in 0..rng.range(2, 5) {
        let mut g = Vec::new();
        for _ in 0..rng.range(1, 4) {
            t += rng.range(1, 3);
            let key = *rng.pick(&["k", "k2", "é", "t"]);
            if rng.chance(1, 3) {
                tomb_stamps.push(t);
                g.push(crate::c13::tomb_upd(key, t, 1));
            } else {
                g.push(lww_upd(key, format!("v{}", rng.below(400)).as_bytes(), t, 1, false));
            }
        }
        groups.push(g);
    }
    // dry run: the sizes the flushes will report
    let mut sizes: Vec<u64> = Vec::new();
    {
        let mut scratch = Proc::new(out, 1, &[]).await;
        for g in &groups {
            for u in g {
                scratch.push(out, u);
            }
            scratch.flush(out).await;
        }
        sizes = listed(&scratch).iter().map(|x| x.1).collect::<Vec<_>>().into_iter().chain(sizes).collect();
    }
    let target = if rng.chance(2, 3) && !sizes.is_empty() {
        out.count("boundary:target-at-a-segment-size");
        (*rng.pick(&sizes) + rng.below(3)).saturating_sub(1)
    } else {
        1 << 20
    };
    let (now, ttl) = if rng.chance(2, 3) && !tomb_stamps.is_empty() {
        out.count("boundary:cutoff-at-a-tombstone-stamp");
        let c = (*rng.pick(&tomb_stamps) + rng.below(3)).saturating_sub(1);
        // the same cutoff through different (now, ttl) pairs
        let d = *rng.pick(&[0u64, 1, 1000]);
        (c.saturating_add(d), Duration::from_millis(d))
    } else {
        no_gc()
    };
    let c = CCfg { target, min: rng.range(1, 2), maxper: rng.range(2, 6), now, ttl };
    crate::c13::layout_case(out, &groups, &c, None, "boundary(target / cutoff at equality)", false).await;
}

/// emptied, then refilled: every listed segment holds only expired tombstones → the pass removes
/// them all and creates nothing; later flushes and a second pass work on the emptied manifest
async fn emptied_then_refilled(out: &mut Out) {
    let mut p = Proc::new(out, 1, &[]).await;
    for (k, t) in [("a", 3u64), ("b", 4), ("a", 5)] {
        p.push(out, &crate::c13::tomb_upd(k, t, 1));
        p.flush(out).await;
    }
    let gc = CCfg { target: 1 << 20, min: 2, maxper: 5, now: 100, ttl: Duration::ZERO };
    let r = p.compact(out, &gc).await;
    let emptied = matches!(&r, Ok(cr) if cr.segment_created.is_none() && cr.segments_removed.len() == 3);
    if !emptied {
        out.violation("C13:emptied:unexpected-outcome", "three segments of expired tombstones were not removed without a replacement", json!({"workload": p.text}));
    }
    p.rec(out).await.ok();
    p.man(out);
    let mut all: Vec<Upd> = Vec::new();
    for (k, t) in [("a", 200u64), ("c", 201), ("b", 202)] {
        let u = lww_upd(k, b"refilled", t, 1, false);
        p.push(out, &u);
        all.push(u);
        p.flush(out).await;
    }
    let (now, ttl) = no_gc();
    let _ = p.compact(out, &CCfg { target: 1 << 20, min: 2, maxper: 5, now, ttl }).await;
    let rec = p.rec(out).await;
    p.man(out);
    match rec {
        Ok(rs) => {
            let got = sorted_map(&fold_recovered(&rs));
            if got != sorted_map(&fold_real(&all)) {
                out.violation("C13:emptied:refilled-state-differs", "after an emptying pass, new flushes and a second pass, the recovered state is not the merge of the new updates", json!({"workload": p.text, "recovered": show_upds(&got)}));
            }
        }
        Err(e) => out.violation("C13:history:recovery-fails", &format!("recover() fails after emptied-then-refilled: {}", e), json!({"workload": p.text})),
    }
    p.commit(out);
    out.count("hist:case:emptied-then-refilled");
    out.case(&p.text, true);
}

/// a checkpoint taken BETWEEN compactions (what a caller of the library API would do: snapshot the
/// recovered state, `create_checkpoint`, `Manifest::compact_segments`, save), then more flushes and
/// passes.  Oracle only (the workload model has no checkpoint operation): recovery stays exactly
/// the merge of the confirmed updates, the passes leave the checkpoint entry alone, the manifest
/// references only complete objects.
async fn history_with_checkpoint_case(out: &mut Out, rng: &mut Rng) {
    use redis_sim::streaming::{CheckpointConfig, CheckpointInfo, CheckpointManager, ManifestManager};
    use std::sync::Arc;
    let mut p = Proc::new(out, 1, &[]).await;
    let mut t = rng.range(1, 20);
    let mut all: Vec<Upd> = Vec::new();
    let (now, ttl) = no_gc();
    let mut chk_seen: Option<(u64, u64)> = None;
    for round in 0..rng.range(2, 4) {
        for _ in 0..rng.range(1, 3) {
            for _ in 0..rng.range(1, 3) {
                let u = gen_upd(rng, &mut t);
                p.push(out, &u);
                all.push(u);
            }
            p.flush(out).await;
        }
        let c = CCfg { target: *rng.pick(&[300u64, 1 << 20]), min: rng.range(1, 2), maxper: rng.range(2, 5), now, ttl };
        let _ = p.compact(out, &c).await;
        // the passes must not touch the checkpoint entry
        let man_now = p.store.image().get(&format!("{}/manifest.json", PREFIX)).and_then(|b| serde_json::from_slice::<Manifest>(b).ok());
        if let (Some((ts, last)), Some(m)) = (chk_seen, &man_now) {
            if m.checkpoint.as_ref().map(|c| (c.timestamp_ms, c.last_segment_id)) != Some((ts, last)) {
                out.violation("C13:checkpoint:entry-changed-by-compaction", "a compaction pass changed or dropped the manifest's checkpoint entry", json!({"workload": p.text}));
            }
        }
        exact_oracle(out, &p, &all, &format!("round {} after the pass", round)).await;
        if round == 0 || rng.chance(1, 2) {
            // checkpoint of everything recovered so far, covering every listed segment
            let rec = recover_image(&p.store.image(), p.rid).await;
            if let (Ok(rs), Some(m)) = (rec, man_now) {
                let state = fold_recovered(&rs);
                let last = m.segments.iter().map(|s| s.id).max().unwrap_or(0);
                let name = 1000 + round;
                let mgr = CheckpointManager::with_time_source(Arc::new(p.store.clone()), PREFIX.to_string(), ManifestManager::new(p.store.clone(), PREFIX),
                    CheckpointConfig { interval: Duration::from_secs(1), min_segments: 0, compression_enabled: false }, crate::c12::FixedTime(name));
                if let Ok(res) = mgr.create_checkpoint(state.clone(), last).await {
                    let mm = ManifestManager::new(p.store.clone(), PREFIX);
                    if let Ok(mut m2) = mm.load_or_create(p.rid).await {
                        m2.compact_segments(CheckpointInfo { key: res.key, timestamp_ms: res.timestamp_ms, key_count: res.key_count, last_segment_id: last });
                        if mm.save(&m2).await.is_ok() {
                            chk_seen = Some((name, last));
                            out.count("hist:checkpoint-between-compactions");
                        }
                    }
                }
                exact_oracle(out, &p, &all, &format!("round {} after the checkpoint", round)).await;
            }
        }
    }
    if !crate::c12::refs_complete(&p.store.image()) {
        out.violation("C13:manifest-references-incomplete-object", "after compactions around a checkpoint the manifest references a missing object", json!({"workload": p.text}));
    }
    out.count("hist:case:checkpoint-between-compactions");
    out.case(&format!("chk-hist:{}", p.text), true);
}

/// H3: the real worker loop under the paused clock
async fn worker_case(out: &mut Out, rng: &mut Rng) {
    let mut p = Proc::new(out, 1, &[]).await;
    let mut t = rng.range(1, 20);
    let mut all: Vec<Upd> = Vec::new();
    let (now, ttl) = no_gc();
    let c = CCfg { target: 1 << 20, min: 2, maxper: rng.range(2, 5), now, ttl };
    let ms = rng.range(1, 3);
    let interval = Duration::from_millis(*rng.pick(&[100u64, 250, 1000, 60_000]));
    let flush_some = |n: u64| n;
    for _ in 0..flush_some(rng.range(1, 3)) {
        let u = gen_upd(rng, &mut t);
        p.push(out, &u);
        all.push(u);
        p.flush(out).await;
    }
    let (worker, handle) = CompactionWorker::new(compactor_ms(&p.store, &c, ms), interval);
    let task = tokio::spawn(worker.run());
    let size_of_newest = |p: &Proc| listed(p).iter().map(|x| x.0).max().and_then(|id| listed(p).iter().find(|x| x.0 == id).map(|x| x.1)).unwrap_or(0);
    // pass 1 runs as soon as the task is polled
    tokio::time::sleep(Duration::from_millis(10)).await;
    let line = |_p: &Proc, sz: u64| format!("CIFNEEDEDQ {} {} {} {} {} {} {}", c.target, c.min, c.maxper, c.now, c.ttl.as_millis(), ms, sz);
    let l = line(&p, size_of_newest(&p));
    let a = format!("calls={}", p.store.calls());
    p.log(out, l, a);
    p.rec(out).await.ok();
    for _ in 0..rng.range(1, 2) {
        for _ in 0..rng.range(1, 3) {
            let u = gen_upd(rng, &mut t);
            p.push(out, &u);
            all.push(u);
            p.flush(out).await;
        }
        // one check interval later the worker runs its next pass
        tokio::time::sleep(interval).await;
        let l = line(&p, size_of_newest(&p));
        let a = format!("calls={}", p.store.calls());
        p.log(out, l, a);
        p.rec(out).await.ok();
        exact_oracle(out, &p, &all, "after a worker pass").await;
    }
    handle.shutdown();
    let _ = task.await;
    // no pass after shutdown
    let before = p.store.calls();
    tokio::time::sleep(interval + interval).await;
    if p.store.calls() != before {
        out.violation("C13:worker:pass-after-shutdown", "the compaction worker touched the store after shutdown()", json!({"workload": p.text}));
    }
    p.commit(out);
    out.count("hist:case:compaction-worker");
    out.case(&p.text, true);
}

pub async fn run_all(out: &mut Out, rng: &mut Rng, n: u64, paused: bool) {
    for _ in 0..n {
        let mut r = rng.fork();
        if paused {
            worker_case(out, &mut r).await;
        } else {
            if_needed_case(out, &mut r).await;
            history_case(out, &mut r).await;
            boundary_case(out, &mut r).await;
            if r.chance(1, 3) {
                history_with_checkpoint_case(out, &mut r).await;
            }
        }
    }
    if !paused {
        emptied_then_refilled(out).await;
    }
}
