//! C03 — shard count is unobservable.
//! Correspondence: the same command sequence on REAL `ShardedActorState` instances with 1 and
//! N shards vs the model `Shards.execN` (over the small concrete executor `Shards.Str`).
//! Oracle: 1-shard vs N-shard reply / aggregate-dump difference on the real code.
use crate::enc::hex;
use crate::out::Out;
use crate::rng::Rng;
use crate::Args;
use redis_sim::buggify::FaultConfig;
use redis_sim::io::simulation::SimulationContext;
use redis_sim::io::SimulatedTimeSource;
use redis_sim::production::{ShardConfig, ShardedActorState};
use redis_sim::redis::{Command, RespValue, SDS};
use serde_json::json;
use std::collections::hash_map::DefaultHasher;
use std::collections::BTreeSet;
use std::hash::{Hash, Hasher};
use std::sync::Arc;

pub type State = ShardedActorState<SimulatedTimeSource>;

/// does the tree under test keep ONE script cache for all shards?  (observed; part of `S` lines)
static SHARED_SCRIPT_CACHE: std::sync::atomic::AtomicBool = std::sync::atomic::AtomicBool::new(true);
/// SHA1 of the harness' scripts, obtained from a throw-away instance (never loaded into the
/// instances under test behind their back)
static SCRIPT_SHAS: std::sync::OnceLock<Vec<String>> = std::sync::OnceLock::new();

/// SHA1 of the plain `GET` script of the E…/ES… ops, from a throw-away instance
pub static GET_SCRIPT_SHA: std::sync::OnceLock<String> = std::sync::OnceLock::new();
pub const GET_SCRIPT: &str = "return redis.pcall('GET', KEYS[1])";

pub async fn init_get_script_sha() {
    let helper = new_state(1);
    if let RespValue::BulkString(Some(x)) = helper.execute(&Command::ScriptLoad(GET_SCRIPT.to_string())).await {
        let _ = GET_SCRIPT_SHA.set(String::from_utf8_lossy(&x).to_string());
    }
}

pub fn script_text(i: u64) -> String {
    format!("return redis.pcall('GET', KEYS[1]) -- script {}", i)
}
fn script_sha(i: u64) -> String {
    SCRIPT_SHAS.get().and_then(|v| v.get(i as usize).cloned()).unwrap_or_default()
}

/// replica of `hash_key(&str, n)` of the pinned tree (`str::hash`: bytes then 0xff)
pub fn h_str(k: &str, n: usize) -> usize {
    let mut h = DefaultHasher::new();
    k.hash(&mut h);
    (h.finish() as usize) % n
}

/// replica of `hash_key_bytes(&[u8], n)` (`<[u8]>::hash`: length prefix then bytes)
pub fn h_bytes(k: &[u8], n: usize) -> usize {
    let mut h = DefaultHasher::new();
    k.hash(&mut h);
    (h.finish() as usize) % n
}

pub fn new_state(n: usize) -> State {
    new_state_ctx(n).0
}

pub fn new_state_ctx(n: usize) -> (State, Arc<SimulationContext>) {
    let ctx = Arc::new(SimulationContext::new(0, FaultConfig::disabled()));
    let cfg = ShardConfig {
        initial_shards: n,
        min_shards: 1,
        max_shards: 256,
        auto_scale: false,
        adaptive_replication: false,
        load_check_interval_ms: 10000,
    };
    (ShardedActorState::with_config_and_time_source(cfg, SimulatedTimeSource::new_default(ctx.clone())), ctx)
}

/// an instance built from a GENERATED `PerformanceConfig` that passed the real `validate()`
/// (response pool capacity / prewarm); `None` if `validate()` rejects the configuration
pub fn new_state_perf(n: usize, capacity: usize, prewarm: usize) -> Option<(State, Arc<SimulationContext>)> {
    use redis_sim::production::PerformanceConfig;
    let mut pc = PerformanceConfig::default();
    pc.num_shards = n;
    pc.response_pool.capacity = capacity;
    pc.response_pool.prewarm = prewarm;
    if pc.validate().is_err() {
        return None;
    }
    let ctx = Arc::new(SimulationContext::new(0, FaultConfig::disabled()));
    let cfg = ShardConfig { initial_shards: n, min_shards: 1, max_shards: 256, auto_scale: false, adaptive_replication: false, load_check_interval_ms: 10000 };
    Some((ShardedActorState::with_perf_config_and_time_source(&pc, cfg, SimulatedTimeSource::new_default(ctx.clone())), ctx))
}

#[derive(Clone, Debug)]
pub struct Op {
    pub name: &'static str,
    pub keys: Vec<Vec<u8>>,
    pub vals: Vec<Vec<u8>>,
    pub cursor: u64,
    pub pat: Option<Vec<u8>>,
    pub count: Option<usize>,
}

impl Op {
    pub fn new(name: &'static str, keys: Vec<Vec<u8>>, vals: Vec<Vec<u8>>) -> Op {
        Op { name, keys, vals, cursor: 0, pat: None, count: None }
    }
    pub fn k(name: &'static str, k: &[u8]) -> Op {
        Op::new(name, vec![k.to_vec()], vec![])
    }
    pub fn kv(name: &'static str, k: &[u8], v: &[u8]) -> Op {
        Op::new(name, vec![k.to_vec()], vec![v.to_vec()])
    }
    pub fn k2(name: &'static str, a: &[u8], b: &[u8]) -> Op {
        Op::new(name, vec![a.to_vec(), b.to_vec()], vec![])
    }
    pub fn nullary(name: &'static str) -> Op {
        Op::new(name, vec![], vec![])
    }
    pub fn is_bytes_path(&self) -> bool {
        matches!(self.name, "FGET" | "FSET" | "PGET" | "PSET" | "BGET" | "BSET")
    }
    pub fn is_two_key(&self) -> bool {
        matches!(self.name, "RENAME" | "RENAMENX" | "RPOPLPUSH" | "LMOVE" | "SORTSTORE" | "EVALSIE" | "EVALSHASIE")
    }
    pub fn line(&self) -> String {
        let hk = |i: usize| hex(&self.keys[i]);
        match self.name {
            "GET" | "STRLEN" | "INCR" | "GETDEL" | "TYPE" | "LPOP" | "RPOP" | "LLEN" | "LRANGE" | "FGET" | "PGET" | "EGET" | "ESGET" | "XSGET"
            | "EINCR" | "ESINCR" | "XINCR" => {
                format!("{} {}", self.name, hk(0))
            }
            "SET" | "SETNX" | "APPEND" | "GETSET" | "FSET" | "PSET" | "ESET" | "ESSET" | "EVAL0SET" => {
                format!("{} {} {}", self.name, hk(0), hex(&self.vals[0]))
            }
            "RPUSH" | "LPUSH" => {
                let mut s = format!("{} {} {}", self.name, hk(0), self.vals.len());
                for v in &self.vals {
                    s.push(' ');
                    s.push_str(&hex(v));
                }
                s
            }
            "RENAME" | "RENAMENX" | "RPOPLPUSH" | "SORTSTORE" => format!("{} {} {}", self.name, hk(0), hk(1)),
            "LMOVE" => format!("LMOVE {} {} {} {}", hk(0), hk(1), String::from_utf8_lossy(&self.vals[0]), String::from_utf8_lossy(&self.vals[1])),
            "EVALSIE" | "EVALSHASIE" => format!("{} {} {} {}", self.name, hk(0), hk(1), hex(&self.vals[0])),
            "MGET" | "DEL" | "EXISTS" | "BGET" => {
                let mut s = format!("{} {}", self.name, self.keys.len());
                for k in &self.keys {
                    s.push(' ');
                    s.push_str(&hex(k));
                }
                s
            }
            "MSET" | "MSETNX" | "BSET" => {
                let mut s = format!("{} {}", self.name, self.keys.len());
                for (k, v) in self.keys.iter().zip(&self.vals) {
                    s.push_str(&format!(" {} {}", hex(k), hex(v)));
                }
                s
            }
            "KEYS" => format!("KEYS {}", hex(self.pat.as_ref().unwrap())),
            "SCAN" => format!(
                "SCAN {} {} {}",
                self.cursor,
                self.pat.as_ref().map(|p| hex(p)).unwrap_or("-".into()),
                self.count.map(|c| c.to_string()).unwrap_or("-".into())
            ),
            "DBSIZE" | "FLUSH" | "RANDOMKEY" => self.name.to_string(),
            "SLOAD" | "SEXISTS" | "SFLUSH" | "SEVAL" | "SEVALSHA" => {
                let f = SHARED_SCRIPT_CACHE.load(std::sync::atomic::Ordering::Relaxed) as u8;
                match self.name {
                    "SFLUSH" => format!("S {} FLUSH", f),
                    "SLOAD" => format!("S {} LOAD {}", f, self.cursor),
                    "SEXISTS" => format!("S {} EXISTS {}", f, self.cursor),
                    "SEVAL" => format!("S {} EVAL {} {}", f, self.cursor, hk(0)),
                    _ => format!("S {} EVALSHA {} {}", f, self.cursor, hk(0)),
                }
            }
            x => panic!("op {}", x),
        }
    }
}

fn s(k: &[u8]) -> String {
    String::from_utf8(k.to_vec()).expect("generic command on a non-UTF-8 key")
}
fn sds(v: &[u8]) -> SDS {
    SDS::new(v.to_vec())
}
fn b(v: &[u8]) -> bytes::Bytes {
    bytes::Bytes::copy_from_slice(v)
}

fn err_code(e: &str) -> String {
    if e.starts_with("WRONGTYPE") {
        "e:1".into()
    } else if e.starts_with("ERR value is not an integer") {
        "e:2".into()
    } else if e.starts_with("ERR increment or decrement would overflow") {
        "e:3".into()
    } else if e.starts_with("ERR no such key") {
        "e:4".into()
    } else if e.starts_with("NOSCRIPT") {
        "e:5".into()
    } else if e.starts_with("ERR One or more scores can't be converted into double") {
        "e:6".into()
    } else {
        format!("e:?{}", e.replace(' ', "_"))
    }
}

pub fn r1(v: &RespValue) -> String {
    match v {
        RespValue::SimpleString(x) if x == "OK" => "ok".into(),
        RespValue::SimpleString(x) => format!("b:{}", hex(x.as_bytes())),
        RespValue::Error(e) => err_code(e),
        RespValue::Integer(i) => format!("i:{}", i),
        RespValue::BulkString(None) => "nil".into(),
        RespValue::BulkString(Some(x)) => format!("b:{}", hex(x)),
        RespValue::Array(None) => "nil-array".into(),
        RespValue::Array(Some(_)) => "?array".into(),
    }
}

fn many(vs: &[RespValue]) -> String {
    format!("m:[{}]", vs.iter().map(r1).collect::<Vec<_>>().join(","))
}

fn key_list(vs: &[RespValue]) -> Option<Vec<Vec<u8>>> {
    let mut ks = Vec::new();
    for v in vs {
        match v {
            RespValue::BulkString(Some(x)) => ks.push(x.clone()),
            _ => return None,
        }
    }
    ks.sort_by(|a, c| (a.len(), a.as_slice()).cmp(&(c.len(), c.as_slice())));
    Some(ks)
}

fn show_keys(ks: &[Vec<u8>]) -> String {
    format!("[{}]", ks.iter().map(|k| hex(k)).collect::<Vec<_>>().join(","))
}

/// a Lua script through EVAL, or through SCRIPT LOAD + EVALSHA
/// GET, add one in Lua, SET, return the new value (integers only: the counter class)
pub const XINCR_SCRIPT: &str = "local v = redis.call('GET', KEYS[1]) if not v then v = 0 else v = tonumber(v) end redis.call('SET', KEYS[1], tostring(v + 1)) return v + 1";

pub async fn run_script(st: &State, script: &str, by_sha: bool, keys: Vec<String>, args: Vec<SDS>) -> RespValue {
    if by_sha {
        let sha = match st.execute(&Command::ScriptLoad(script.to_string())).await {
            RespValue::BulkString(Some(x)) => String::from_utf8_lossy(&x).to_string(),
            o => return o,
        };
        st.execute(&Command::EvalSha { sha1: sha, keys, args }).await
    } else {
        st.execute(&Command::Eval { script: script.to_string(), keys, args }).await
    }
}

/// run one op on a real instance, canonical reply text
pub async fn apply(st: &State, op: &Op) -> String {
    let k0 = || s(&op.keys[0]);
    let pairs = || -> Vec<(String, SDS)> { op.keys.iter().zip(&op.vals).map(|(k, v)| (s(k), sds(v))).collect() };
    let skeys = || -> Vec<String> { op.keys.iter().map(|k| s(k)).collect() };
    match op.name {
        "GET" => r1(&st.execute(&Command::Get(k0())).await),
        "SET" => r1(&st.execute(&Command::set(k0(), sds(&op.vals[0]))).await),
        "SETNX" => r1(&st.execute(&Command::SetNx(k0(), sds(&op.vals[0]))).await),
        "APPEND" => r1(&st.execute(&Command::Append(k0(), sds(&op.vals[0]))).await),
        "STRLEN" => r1(&st.execute(&Command::StrLen(k0())).await),
        "INCR" => r1(&st.execute(&Command::Incr(k0())).await),
        // the same single-key commands as Lua scripts, through EVAL and through SCRIPT LOAD + EVALSHA
        // EVALSHA of the GET script WITHOUT loading it here: it must be known node-wide because some
        // earlier EVAL (EGET, on whatever shard) introduced it
        // a script WITHOUT KEYS that writes the key named by ARGV[1] (an undeclared key)
        "EVAL0SET" => r1(&st
            .execute(&Command::Eval { script: "return redis.pcall('SET', ARGV[1], ARGV[2])".to_string(), keys: vec![], args: vec![sds(&op.keys[0]), sds(&op.vals[0])] })
            .await),
        "XSGET" => r1(&st
            .execute(&Command::EvalSha { sha1: GET_SCRIPT_SHA.get().cloned().unwrap_or_default(), keys: vec![k0()], args: vec![] })
            .await),
        "EGET" | "ESGET" | "ESET" | "ESSET" | "EINCR" | "ESINCR" => {
            let script = match op.name {
                "EGET" | "ESGET" => "return redis.pcall('GET', KEYS[1])",
                "ESET" | "ESSET" => "return redis.pcall('SET', KEYS[1], ARGV[1])",
                _ => "return redis.pcall('INCR', KEYS[1])",
            };
            let args: Vec<SDS> = op.vals.iter().map(|v| sds(v)).collect();
            r1(&run_script(st, script, op.name.starts_with("ES"), vec![k0()], args).await)
        }
        // a MULTI-CALL script: read, compute in Lua, write back — an increment iff the whole script is
        // one atomic step of the key's shard (two redis.call's inside ONE ShardMessage)
        "XINCR" => r1(&run_script(st, XINCR_SCRIPT, false, vec![k0()], vec![]).await),
        "GETDEL" => r1(&st.execute(&Command::GetDel(k0())).await),
        "GETSET" => r1(&st.execute(&Command::GetSet(k0(), sds(&op.vals[0]))).await),
        "TYPE" => r1(&st.execute(&Command::TypeOf(k0())).await),
        "RPUSH" => r1(&st.execute(&Command::RPush(k0(), op.vals.iter().map(|v| sds(v)).collect())).await),
        "LPUSH" => r1(&st.execute(&Command::LPush(k0(), op.vals.iter().map(|v| sds(v)).collect())).await),
        "LPOP" => r1(&st.execute(&Command::LPop(k0())).await),
        "RPOP" => r1(&st.execute(&Command::RPop(k0())).await),
        "LLEN" => r1(&st.execute(&Command::LLen(k0())).await),
        "LRANGE" => match st.execute(&Command::LRange(k0(), 0, -1)).await {
            RespValue::Array(Some(vs)) => many(&vs),
            o => r1(&o),
        },
        "RENAME" => r1(&st.execute(&Command::Rename(k0(), s(&op.keys[1]))).await),
        "RENAMENX" => r1(&st.execute(&Command::RenameNx(k0(), s(&op.keys[1]))).await),
        "RPOPLPUSH" => r1(&st.execute(&Command::RPopLPush(k0(), s(&op.keys[1]))).await),
        "LMOVE" => {
            let side = |v: &Vec<u8>| if v == b"L" { "LEFT".to_string() } else { "RIGHT".to_string() };
            r1(&st.execute(&Command::LMove { source: k0(), dest: s(&op.keys[1]), wherefrom: side(&op.vals[0]), whereto: side(&op.vals[1]) }).await)
        }
        "SORTSTORE" => r1(&st.execute(&Command::Sort { key: k0(), store: Some(s(&op.keys[1])) }).await),
        "EVALSIE" | "EVALSHASIE" => r1(&run_script(
            st,
            "if redis.call('EXISTS', KEYS[1]) == 1 then redis.call('SET', KEYS[2], ARGV[1]) return 1 else return 0 end",
            op.name == "EVALSHASIE",
            vec![k0(), s(&op.keys[1])],
            vec![sds(&op.vals[0])],
        )
        .await),
        "MGET" => match st.execute(&Command::MGet(skeys())).await {
            RespValue::Array(Some(vs)) => many(&vs),
            o => r1(&o),
        },
        "MSET" => r1(&st.execute(&Command::MSet(pairs())).await),
        "MSETNX" => r1(&st.execute(&Command::MSetNx(pairs())).await),
        "DEL" => r1(&st.execute(&Command::Del(skeys())).await),
        "EXISTS" => r1(&st.execute(&Command::Exists(skeys())).await),
        "KEYS" => match st.execute(&Command::Keys(s(op.pat.as_ref().unwrap()))).await {
            RespValue::Array(Some(vs)) => match key_list(&vs) {
                Some(ks) => format!("k:{}", show_keys(&ks)),
                None => "?keys".into(),
            },
            o => r1(&o),
        },
        "SLOAD" => match st.execute(&Command::ScriptLoad(script_text(op.cursor))).await {
            RespValue::BulkString(Some(x)) if x.len() == 40 => "ok".into(),
            o => r1(&o),
        },
        "SEXISTS" => match st.execute(&Command::ScriptExists(vec![script_sha(op.cursor)])).await {
            RespValue::Array(Some(v)) if v.len() == 1 => r1(&v[0]),
            o => r1(&o),
        },
        "SFLUSH" => r1(&st.execute(&Command::ScriptFlush).await),
        "SEVAL" => r1(&st.execute(&Command::Eval { script: script_text(op.cursor), keys: vec![k0()], args: vec![] }).await),
        "SEVALSHA" => r1(&st.execute(&Command::EvalSha { sha1: script_sha(op.cursor), keys: vec![k0()], args: vec![] }).await),
        "DBSIZE" => r1(&st.execute(&Command::DbSize).await),
        "FLUSH" => r1(&st.execute(&Command::FlushDb).await),
        "SCAN" => {
            let c = Command::Scan { cursor: op.cursor, pattern: op.pat.as_ref().map(|p| s(p)), count: op.count };
            match st.execute(&c).await {
                RespValue::Array(Some(parts)) if parts.len() == 2 => {
                    let cur = match &parts[0] {
                        RespValue::BulkString(Some(x)) => String::from_utf8_lossy(x).to_string(),
                        _ => "?".into(),
                    };
                    match &parts[1] {
                        RespValue::Array(Some(vs)) => match key_list(vs) {
                            Some(ks) => format!("s:{}:{}", cur, show_keys(&ks)),
                            None => "?scan".into(),
                        },
                        _ => "?scan".into(),
                    }
                }
                o => r1(&o),
            }
        }
        "RANDOMKEY" => match st.execute(&Command::RandomKey).await {
            RespValue::BulkString(None) => "r:nil".into(),
            RespValue::BulkString(Some(_)) => "r:some".into(),
            o => r1(&o),
        },
        "FGET" => r1(&st.fast_get(b(&op.keys[0])).await),
        "PGET" => r1(&st.pooled_fast_get(b(&op.keys[0])).await),
        "FSET" => r1(&st.fast_set(b(&op.keys[0]), b(&op.vals[0])).await),
        "PSET" => r1(&st.pooled_fast_set(b(&op.keys[0]), b(&op.vals[0])).await),
        "BGET" => many(&st.fast_batch_get_pipeline(op.keys.iter().map(|k| b(k)).collect()).await),
        "BSET" => many(
            &st.fast_batch_set_pipeline(op.keys.iter().zip(&op.vals).map(|(k, v)| (b(k), b(v))).collect())
                .await,
        ),
        x => panic!("op {}", x),
    }
}

/// aggregate dump through the public API: KEYS * (as a multiset), then per distinct key the
/// byte-path view and — for keys a generic command can name — TYPE and the value
pub async fn dump(st: &State, with_fast: bool) -> String {
    let all = match st.execute(&Command::Keys("*".into())).await {
        RespValue::Array(Some(vs)) => key_list(&vs).unwrap_or_default(),
        _ => vec![],
    };
    let mut out = all.len().to_string();
    let mut seen: BTreeSet<Vec<u8>> = BTreeSet::new();
    for k in &all {
        if !seen.insert(k.clone()) {
            continue;
        }
        let fast = if with_fast { r1(&st.fast_get(b(k)).await) } else { "-".to_string() };
        match String::from_utf8(k.clone()) {
            Ok(ks) => {
                let t = r1(&st.execute(&Command::TypeOf(ks.clone())).await);
                let v = if t == format!("b:{}", hex(b"list")) {
                    match st.execute(&Command::LRange(ks, 0, -1)).await {
                        RespValue::Array(Some(vs)) => many(&vs),
                        o => r1(&o),
                    }
                } else {
                    r1(&st.execute(&Command::Get(ks)).await)
                };
                out.push_str(&format!(" {} {} {} {} ;", hex(k), t, v, fast));
            }
            Err(_) => out.push_str(&format!(" {} - - {} ;", hex(k), fast)),
        }
    }
    out
}

fn pool() -> Vec<Vec<u8>> {
    let mut p: Vec<Vec<u8>> = (0..48).map(|i| format!("k{}", i).into_bytes()).collect();
    for x in ["a", "b", "dst", "user:1000", "é", "x y", "counter", "list:1"] {
        p.push(x.as_bytes().to_vec());
    }
    p
}

/// keys for the KEYS-pattern cases: class / range / literal-bracket material spread over shards
fn keys_pool() -> Vec<Vec<u8>> {
    let mut p: Vec<Vec<u8>> = (0..24).map(|i| format!("k{}", i).into_bytes()).collect();
    for i in 0..10 {
        p.push(format!("user:{}", i).into_bytes());
    }
    for x in ["user:-", "user:[0-9]", "user:x", "a", "b", "k[", "k]", "k-", "k^", "ab", "a-c"] {
        p.push(x.as_bytes().to_vec());
    }
    p
}

/// a glob pattern of a random shape, built around the keys of the case (ASCII only)
fn pattern_for(rng: &mut Rng, keys: &[Vec<u8>]) -> Vec<u8> {
    let ascii: Vec<&Vec<u8>> = keys.iter().filter(|k| !k.is_empty() && k.iter().all(|c| c.is_ascii_graphic() || *c == b' ')).collect();
    if ascii.is_empty() || rng.chance(1, 10) {
        return rng
            .pick(&[&b"*"[..], b"k*", b"k?", b"*1*", b"a", b"?", b"k1?", b"nosuchkey", b"[", b"[]", b"[^]", b"*[", b"k[", b"[^k]*", b"*[0-9]", b"[a-z]", b"[a-cx]*"])
            .to_vec();
    }
    let k = (*rng.pick(&ascii)).clone();
    let mut out: Vec<u8> = Vec::new();
    // literal only: existing key, or a missing one
    match rng.below(10) {
        0 => return k,
        1 => {
            let mut m = k.clone();
            m.push(b'#');
            return m;
        }
        _ => {}
    }
    let pos = rng.below(k.len() as u64) as usize;
    let star_at = if rng.chance(1, 3) { Some(rng.below(k.len() as u64 + 1) as usize) } else { None };
    for (i, &c) in k.iter().enumerate() {
        if Some(i) == star_at {
            out.push(b'*');
            if rng.chance(1, 2) {
                break;
            }
        }
        if i == pos {
            let others: Vec<u8> = (0..rng.below(3)).map(|_| *rng.pick(&[b'0', b'1', b'5', b'9', b'a', b'k', b'x', b'-', b':', b'^', b'u'])).collect();
            match rng.below(8) {
                // class containing the byte
                0 | 1 => {
                    out.push(b'[');
                    out.extend(&others);
                    out.push(c);
                    out.push(b']');
                }
                // negated class (may or may not contain the byte)
                2 => {
                    out.extend_from_slice(b"[^");
                    out.extend(&others);
                    if rng.chance(1, 3) {
                        out.push(c);
                    }
                    out.push(b']');
                }
                // range with a following byte (a real range)
                3 => {
                    out.push(b'[');
                    out.push(c.saturating_sub(rng.below(3) as u8).max(b' '));
                    out.push(b'-');
                    out.push(c.saturating_add(rng.below(3) as u8).min(b'~'));
                    out.push(*rng.pick(&[b'x', b'_', b'0']));
                    out.push(b']');
                }
                // "range" without a following byte (three literals)
                4 => {
                    out.push(b'[');
                    out.push(c.saturating_sub(rng.below(2) as u8).max(b' '));
                    out.push(b'-');
                    out.push(c.saturating_add(rng.below(4) as u8).min(b'~'));
                    out.push(b']');
                }
                // unterminated class
                5 => {
                    out.push(b'[');
                    out.push(c);
                }
                6 => out.push(b'?'),
                // empty / inverted range classes
                _ => out.extend_from_slice(*rng.pick(&[&b"[]"[..], b"[^]", b"[z-ay-b]", b"[9-0x]"])),
            }
        } else if rng.chance(1, 8) {
            out.push(b'?');
        } else {
            out.push(c);
        }
    }
    if star_at == Some(k.len()) {
        out.push(b'*');
    }
    out
}

fn keys_op(pat: &[u8]) -> Op {
    let mut o = Op::nullary("KEYS");
    o.pat = Some(pat.to_vec());
    o
}

/// KEYS with patterns of every shape over a keyspace that is spread over the shards
fn keys_case(rng: &mut Rng, corpus: bool) -> Case {
    let n = if corpus { 4 } else { *rng.pick(&[2usize, 3, 4, 8, 16]) };
    let mut all = keys_pool();
    if !corpus {
        rng.shuffle(&mut all);
        all.truncate(rng.range(8, 30) as usize);
    }
    let mut ops = Vec::new();
    for ch in all.chunks(12) {
        ops.push(Op::new("MSET", ch.to_vec(), ch.iter().map(|_| b"v".to_vec()).collect()));
    }
    if corpus {
        for p in [
            &b"user:[0-9]"[..], b"user:[0-9x]", b"user:[^0]", b"user:[", b"user:[]", b"user:[^]", b"user:[0-9]*", b"user:[[]0-9]",
            b"k[1-3x]?", b"k1", b"nokey", b"*[0-9]", b"k[0-9x][0-9x]", b"[ku]*", b"k[[]", b"k[]]", b"k[\\^-]", b"a[-]c", b"[a-cx]", b"[a-c]",
            b"k[z-ay-b]", b"k?", b"*", b"k[^0-9x]",
        ] {
            ops.push(keys_op(p));
        }
    } else {
        for _ in 0..rng.range(6, 24) {
            match rng.below(10) {
                0 => ops.push(Op::new("DEL", vec![all[rng.below(all.len() as u64) as usize].clone(), all[rng.below(all.len() as u64) as usize].clone()], vec![])),
                1 => ops.push(Op::nullary("DBSIZE")),
                _ => ops.push(keys_op(&pattern_for(rng, &all))),
            }
        }
    }
    Case { n, class: "keys", ops }
}

/// Keys from a structured alphabet: every byte class a router (or a matcher) could treat
/// specially.  (class, key); all valid UTF-8 — byte-only keys are in `raw` of the mixed classes.
pub fn special_keys() -> Vec<(&'static str, Vec<u8>)> {
    let mut v: Vec<(&'static str, Vec<u8>)> = Vec::new();
    for k in ["{u}:a", "{u}:b", "{user1}:name", "{user1}:mail", "x{u}y", "{u}", "pre{u}", "{u}{v}"] {
        v.push(("tag-nonempty", k.as_bytes().to_vec()));
    }
    for k in ["{}:a", "a{}b", "{}", "{}{u}"] {
        v.push(("tag-empty", k.as_bytes().to_vec()));
    }
    for k in ["{{u}}:a", "{a{b}c}", "{{}}", "{u{v}"] {
        v.push(("tag-nested", k.as_bytes().to_vec()));
    }
    for k in ["{u:a", "u}:a", "}{", "{", "}", "}u{"] {
        v.push(("tag-unbalanced", k.as_bytes().to_vec()));
    }
    for k in ["{t}1", "{t}2", "{t1}x", "{t2}x", "a{t}", "b{t}"] {
        v.push(("tag-family", k.as_bytes().to_vec()));
    }
    for k in ["a:b", "a:b:c", ":", "x y", " ", "tab\there", "k*", "k?", "k[1]", "k\\", "*", "a-b", "^k", "k\r\nX"] {
        v.push(("punctuation", k.as_bytes().to_vec()));
    }
    for k in ["é", "日本", "ключ", "k\u{7f}", "\u{1F600}"] {
        v.push(("high-bytes-utf8", k.as_bytes().to_vec()));
    }
    v.push(("empty", Vec::new()));
    v.push(("long", vec![b'L'; 300]));
    v.push(("long", { let mut x = vec![b'L'; 299]; x.push(b'M'); x }));
    v.push(("long", { let mut x = b"{tag}".to_vec(); x.extend(vec![b'z'; 200]); x }));
    v
}

pub fn key_class(k: &[u8]) -> &'static str {
    if std::str::from_utf8(k).is_err() {
        return "non-utf8";
    }
    special_keys().into_iter().find(|(_, x)| x == k).map(|(c, _)| c).unwrap_or("plain")
}

fn sop(name: &'static str, i: u64, k: Option<&[u8]>) -> Op {
    let mut o = Op::new(name, k.map(|x| vec![x.to_vec()]).unwrap_or_default(), vec![]);
    o.cursor = i;
    o
}

/// Node-global state that is not the keyspace: the script cache.  Scripts are introduced through
/// one shard (EVAL on a key of that shard, or SCRIPT LOAD via shard 0) and used through another
/// (EVALSHA on a key with a different home; SCRIPT EXISTS / FLUSH via shard 0).
fn scripts_case(ctx: &Ctx, rng: &mut Rng, corpus: bool) -> Case {
    let n = if corpus { 4 } else { *rng.pick(&[2usize, 4, 8, 16]) };
    let p = pool();
    // keys on pairwise different shards first
    let mut keys: Vec<Vec<u8>> = Vec::new();
    for k in &p {
        if keys.iter().all(|x| ctx.gen(x, n) != ctx.gen(k, n)) {
            keys.push(k.clone());
        }
        if keys.len() >= 4 {
            break;
        }
    }
    keys.push(p[7].clone());
    let mut ops = Vec::new();
    if corpus {
        // the seed's session: EVAL on one shard, EVALSHA on another; EXISTS / FLUSH through shard 0
        ops.push(Op::kv("SET", &keys[1], b"v1"));
        ops.push(sop("SEVAL", 0, Some(&keys[0])));
        ops.push(sop("SEVALSHA", 0, Some(&keys[1])));
        ops.push(sop("SEXISTS", 0, None));
        ops.push(sop("SEVAL", 1, Some(&keys[1])));
        ops.push(sop("SEXISTS", 1, None));
        ops.push(sop("SEVALSHA", 1, Some(&keys[0])));
        ops.push(sop("SLOAD", 2, None));
        ops.push(sop("SEVALSHA", 2, Some(&keys[2 % keys.len()])));
        ops.push(sop("SFLUSH", 0, None));
        ops.push(sop("SEVALSHA", 0, Some(&keys[0])));
        ops.push(sop("SEVALSHA", 1, Some(&keys[1])));
        ops.push(sop("SEXISTS", 2, None));
        ops.push(sop("SEVALSHA", 3, Some(&keys[0])));
        // EVERY shard has used a script (by EVALSHA and by EVAL) before SCRIPT FLUSH and uses it again
        // afterwards: whatever a shard remembers about a script on its own (a private copy, an
        // "already published" memo) must not outlive the flush, which only shard 0 executes.
        // `keys[..4]` live on pairwise different shards.
        let homes: Vec<&Vec<u8>> = keys.iter().take(4).collect();
        ops.push(sop("SLOAD", 4, None));
        for k in &homes {
            ops.push(Op::kv("SET", k, b"v2"));
            ops.push(sop("SEVALSHA", 4, Some(k)));
            ops.push(sop("SEVAL", 5, Some(k)));
        }
        ops.push(sop("SFLUSH", 0, None));
        ops.push(sop("SEXISTS", 4, None));
        ops.push(sop("SEXISTS", 5, None));
        for k in &homes {
            // flushed: NOSCRIPT on every shard
            ops.push(sop("SEVALSHA", 4, Some(k)));
            ops.push(sop("SEVALSHA", 5, Some(k)));
            ops.push(sop("SEXISTS", 4, None));
        }
        for (j, k) in homes.iter().enumerate() {
            // EVAL of the SAME script on the SAME shard again re-introduces it for everybody:
            // flush in between so that each shard is the (re-)introducer once
            ops.push(sop("SEVAL", 5, Some(k)));
            ops.push(sop("SEXISTS", 5, None));
            ops.push(sop("SEVALSHA", 5, Some(homes[(j + 1) % homes.len()])));
            ops.push(sop("SFLUSH", 0, None));
            ops.push(sop("SEVALSHA", 5, Some(k)));
        }
    } else {
        for _ in 0..rng.range(8, 30) {
            let k = keys[rng.below(keys.len() as u64) as usize].clone();
            let i = rng.below(4);
            ops.push(match rng.below(12) {
                0 | 1 => sop("SEVAL", i, Some(&k)),
                2 | 3 | 4 => sop("SEVALSHA", i, Some(&k)),
                5 => sop("SLOAD", i, None),
                6 | 7 => sop("SEXISTS", i, None),
                8 => sop("SFLUSH", 0, None),
                9 => Op::kv("SET", &k, &val(rng)),
                10 => Op::kv("FSET", &k, &val(rng)),
                _ => Op::nullary("DBSIZE"),
            });
        }
    }
    Case { n, class: "scripts-global", ops }
}

/// LONG batches with REPEATED keys through `fast_batch_set_pipeline` / `fast_batch_get_pipeline` (what the
/// connection's batch collectors hand over for a pipelined run of plain SETs / GETs): the call groups its
/// items per shard; the items of one shard must keep their send order — a key written several times in
/// one batch ends with the LAST value — and every reply must come back at the index of its item.  Lengths
/// around every small-size cut-off of a grouping / sorting routine (≤ 20, 21 …, 32/33, 64/65, hundreds).
fn batch_order_case(ctx: &Ctx, rng: &mut Rng, fixed: Option<(usize, usize, usize)>) -> Case {
    let (n, len, nk) = match fixed {
        Some(x) => x,
        None => (*rng.pick(&[2usize, 3, 4, 8, 16]), *rng.pick(&[2usize, 7, 19, 20, 21, 22, 31, 33, 48, 64, 65, 100, 130, 257]), rng.range(1, 9) as usize),
    };
    let mut cand: Vec<Vec<u8>> = pool().into_iter().filter(|k| ctx.gen(k, n) == h_bytes(k, n)).collect();
    if fixed.is_none() {
        rng.shuffle(&mut cand);
    }
    let keys: Vec<Vec<u8>> = cand.into_iter().take(nk).collect();
    let mut ops = Vec::new();
    let mut serial = 0u64;
    let rounds = if fixed.is_some() { 2 } else { rng.range(1, 3) };
    for round in 0..rounds {
        // the batch: key i is drawn at random (so that the shard sequence is not sorted and every key
        // recurs), every value is distinct
        let mut ks = Vec::new();
        let mut vs = Vec::new();
        for i in 0..len {
            let k = if fixed.is_some() { keys[(i * 7 + i / 3 + round as usize) % keys.len()].clone() } else { keys[rng.below(keys.len() as u64) as usize].clone() };
            ks.push(k);
            vs.push(format!("w{}", serial).into_bytes());
            serial += 1;
        }
        if round == 1 {
            // values written through another path first: the batch must overwrite them
            for k in &keys {
                ops.push(Op::kv("SET", k, b"generic"));
            }
        }
        ops.push(Op::new("BSET", ks.clone(), vs));
        // read back through every path; the batched GET names the keys in the batch's own (repeating) order
        ops.push(Op::new("BGET", ks.clone(), vec![]));
        for k in &keys {
            ops.push(Op::k(*rng.pick(&["GET", "FGET", "PGET"]), k));
        }
        ops.push(Op::new("MGET", keys.clone(), vec![]));
    }
    Case { n, class: "mixed-consistent", ops }
}

/// is the script cache shared by all shards?  EVAL on a key of one shard, EVALSHA on a key of another
async fn detect_script_cache(ctx: &Ctx) {
    let helper = new_state(1);
    let mut shas = Vec::new();
    for i in 0..8u64 {
        shas.push(match helper.execute(&Command::ScriptLoad(script_text(i))).await {
            RespValue::BulkString(Some(x)) => String::from_utf8_lossy(&x).to_string(),
            _ => String::new(),
        });
    }
    let _ = SCRIPT_SHAS.set(shas);
    let n = 4;
    let st = new_state(n);
    let p = pool();
    let a = p[0].clone();
    let other = p.iter().find(|k| ctx.gen(k, n) != ctx.gen(&a, n)).unwrap().clone();
    st.execute(&Command::Eval { script: script_text(7), keys: vec![s(&a)], args: vec![] }).await;
    let r = st.execute(&Command::EvalSha { sha1: script_sha(7), keys: vec![s(&other)], args: vec![] }).await;
    let shared = !matches!(&r, RespValue::Error(e) if e.starts_with("NOSCRIPT"));
    SHARED_SCRIPT_CACHE.store(shared, std::sync::atomic::Ordering::Relaxed);
}

fn val(rng: &mut Rng) -> Vec<u8> {
    match rng.below(12) {
        0 => vec![],
        1 => vec![0, 255, 10],
        2 => b"10".to_vec(),
        3 => b"-3".to_vec(),
        4 => b"007".to_vec(),
        5 => b"9223372036854775807".to_vec(),
        6 => b"+5".to_vec(),
        _ => format!("v{}", rng.below(30)).into_bytes(),
    }
}

pub(crate) struct Ctx {
    pub(crate) fixed: bool,
}

impl Ctx {
    pub(crate) fn gen(&self, k: &[u8], n: usize) -> usize {
        match std::str::from_utf8(k) {
            Ok(x) if !self.fixed => h_str(x, n),
            _ => h_bytes(k, n),
        }
    }
}

/// Which routing does the tree under test use for `hash_key`?  Observed, not assumed:
/// `fast_set(k)` (hash_key_bytes) then `EXISTS k` (hash_key) hits iff both agree.
async fn detect_routing(out: &mut Out) -> Ctx {
    let n = 4;
    let st = new_state(n);
    let keys = pool();
    let mut pinned_ok = true;
    let mut all_hit = true;
    for k in &keys {
        st.fast_set(b(k), b(b"x")).await;
        let hit = st.execute(&Command::Exists(vec![s(k)])).await == RespValue::Integer(1);
        let predicted = h_str(&s(k), n) == h_bytes(k, n);
        pinned_ok &= hit == predicted;
        all_hit &= hit;
        st.execute(&Command::FlushDb).await;
    }
    let ctx = if pinned_ok && !all_hit {
        Ctx { fixed: false }
    } else {
        if !all_hit {
            out.violation(
                "C03:route-replica-mismatch",
                "fast_set(k) then EXISTS k: the routing of the tree under test matches neither replica of the harness (str::hash vs <[u8]>::hash, nor one hash for both)",
                json!({"shards": n, "ops": ["FSET k x", "EXISTS 1 k"], "keys": keys.iter().map(|k| hex(k)).collect::<Vec<_>>()}),
            );
        }
        Ctx { fixed: true }
    };
    // absolute shard of every generic route, without relying on any two-key behaviour: KEYS *
    // concatenates the shards' replies in shard order, so the replica's shard index must be
    // non-decreasing along the raw reply
    for k in &keys {
        st.execute(&Command::set(s(k), sds(b"1"))).await;
    }
    if let RespValue::Array(Some(vs)) = st.execute(&Command::Keys("*".into())).await {
        let order: Vec<usize> = vs
            .iter()
            .filter_map(|v| if let RespValue::BulkString(Some(x)) = v { Some(ctx.gen(x, n)) } else { None })
            .collect();
        if order.windows(2).any(|w| w[0] > w[1]) || order.len() != keys.len() {
            out.violation(
                "C03:route-replica-mismatch",
                "SET of 56 keys then KEYS *: the shard order of the reply contradicts the harness' replica of hash_key",
                json!({"shards": n, "replica_shard_of_each_returned_key": order}),
            );
        }
    }
    ctx
}

struct Case {
    n: usize,
    class: &'static str,
    ops: Vec<Op>,
}

fn universe(ops: &[Op]) -> Vec<Vec<u8>> {
    let mut u: BTreeSet<Vec<u8>> = BTreeSet::new();
    for o in ops {
        for k in &o.keys {
            u.insert(k.clone());
        }
    }
    u.into_iter().collect()
}

fn new_line(ctx: &Ctx, n: usize, ops: &[Op]) -> String {
    let u = universe(ops);
    let mut l = format!("NEW {} {} {}", n, ctx.fixed as u8, u.len());
    for k in &u {
        let rs = match std::str::from_utf8(k) {
            Ok(x) => h_str(x, n).to_string(),
            Err(_) => "-".into(),
        };
        l.push_str(&format!(" {} {} {}", hex(k), rs, h_bytes(k, n)));
    }
    l
}

/// the fixed corpus: DESIGN §6.1 witnesses, run first on every run
fn corpus(ctx: &Ctx) -> Vec<Case> {
    let mut cs = Vec::new();
    let p = pool();
    // fast_set then generic STRLEN on 40 keys
    let mut ops = Vec::new();
    for k in p.iter().take(40) {
        ops.push(Op::kv("FSET", k, b"hello"));
        ops.push(Op::k("STRLEN", k));
    }
    cs.push(Case { n: 4, class: "mixed-any", ops });
    // pooled / batch paths against generic reads and writes
    let mut ops = Vec::new();
    for k in p.iter().take(12) {
        ops.push(Op::kv("SET", k, b"g"));
        ops.push(Op::k("PGET", k));
        ops.push(Op::kv("PSET", k, b"pp"));
        ops.push(Op::kv("APPEND", k, b"!"));
    }
    ops.push(Op::new("BSET", p[..12].to_vec(), (0..12).map(|_| b"bb".to_vec()).collect()));
    ops.push(Op::new("MGET", p[..12].to_vec(), vec![]));
    ops.push(Op::new("BGET", p[..12].to_vec(), vec![]));
    cs.push(Case { n: 4, class: "mixed-any", ops });
    // two-key commands: RENAME a dst_i ; GET dst_i
    for name in ["RENAME", "RENAMENX"] {
        let mut ops = Vec::new();
        for d in p.iter().skip(1).take(20) {
            ops.push(Op::kv("SET", &p[0], b"1"));
            ops.push(Op::k2(name, &p[0], d));
            ops.push(Op::k("GET", d));
            ops.push(Op::new("EXISTS", vec![p[0].clone(), d.clone()], vec![]));
        }
        cs.push(Case { n: 4, class: if name == "RENAME" { "two-key:RENAME" } else { "two-key:RENAMENX" }, ops });
    }
    let mut ops = Vec::new();
    for d in p.iter().skip(1).take(20) {
        ops.push(Op::new("RPUSH", vec![p[0].clone()], vec![b"e1".to_vec(), b"e2".to_vec()]));
        ops.push(Op::k2("RPOPLPUSH", &p[0], d));
        ops.push(Op::k("LLEN", d));
        ops.push(Op::k("LRANGE", d));
    }
    cs.push(Case { n: 4, class: "two-key:RPOPLPUSH", ops });
    // LMOVE, SORT … STORE, a two-key EVAL: routed by their first key like RENAME
    let mut ops = Vec::new();
    for (i, d) in p.iter().skip(1).take(20).enumerate() {
        ops.push(Op::new("RPUSH", vec![p[0].clone()], vec![b"e1".to_vec(), b"e2".to_vec(), b"e0".to_vec()]));
        let sides: [&[u8]; 2] = [b"L", b"R"];
        ops.push(Op::new("LMOVE", vec![p[0].clone(), d.clone()], vec![sides[i % 2].to_vec(), sides[(i / 2) % 2].to_vec()]));
        ops.push(Op::k("LRANGE", d));
        ops.push(Op::k("LRANGE", &p[0]));
    }
    cs.push(Case { n: 4, class: "two-key:LMOVE", ops });
    let mut ops = Vec::new();
    for d in p.iter().skip(1).take(20) {
        // numeric elements: SORT is numeric (10 after 9) and refuses anything that is not a number
        ops.push(Op::new("RPUSH", vec![p[0].clone()], vec![b"10".to_vec(), b"9".to_vec(), b"2".to_vec()]));
        ops.push(Op::k2("SORTSTORE", &p[0], d));
        ops.push(Op::k("LRANGE", d));
        ops.push(Op::new("DEL", vec![p[0].clone(), d.clone()], vec![]));
    }
    cs.push(Case { n: 4, class: "two-key:SORTSTORE", ops });
    let mut ops = Vec::new();
    for d in p.iter().skip(1).take(20) {
        ops.push(Op::kv("SET", &p[0], b"1"));
        ops.push(Op::new("EVALSIE", vec![p[0].clone(), d.clone()], vec![b"copied".to_vec()]));
        ops.push(Op::k("GET", d));
        ops.push(Op::new("DEL", vec![p[0].clone(), d.clone()], vec![]));
    }
    cs.push(Case { n: 4, class: "two-key:EVALSIE", ops });
    // very many keys (the distribution over the shards, DBSIZE / KEYS / DEL fan-out at scale) and a
    // 1 MiB value, a non-UTF-8 value and the empty value
    for n in [16usize, 64] {
        let ks: Vec<Vec<u8>> = (0..2000).map(|i| format!("many:{:04}", i).into_bytes()).collect();
        let mut ops = Vec::new();
        for ch in ks.chunks(500) {
            ops.push(Op::new("MSET", ch.to_vec(), ch.iter().map(|_| b"v".to_vec()).collect()));
        }
        ops.push(Op::nullary("DBSIZE"));
        ops.push(Op::new("DEL", ks[..700].to_vec(), vec![]));
        ops.push(Op::new("EXISTS", ks[600..900].to_vec(), vec![]));
        ops.push(Op::nullary("DBSIZE"));
        ops.push(keys_op(b"many:1[0-4]??"));
        ops.push(Op::kv("SET", b"big", &vec![b'x'; 1 << 20]));
        ops.push(Op::k("STRLEN", b"big"));
        ops.push(Op::kv("APPEND", b"big", &[0xff, 0x00, 0xfe]));
        ops.push(Op::kv("FSET", b"bin", &[0xff, 0xfe, 0x00, 0x80]));
        ops.push(Op::k("GET", b"bin"));
        ops.push(Op::kv("SET", b"empty-val", b""));
        ops.push(Op::k("FGET", b"empty-val"));
        ops.push(Op::new("DEL", vec![b"big".to_vec(), b"bin".to_vec()], vec![]));
        cs.push(Case { n, class: "generic", ops });
    }
    // scripts with ZERO keys that touch a key through ARGV run on shard 0
    let mut ops = Vec::new();
    for d in p.iter().take(16) {
        ops.push(Op::kv("EVAL0SET", d, b"u"));
        ops.push(Op::k("GET", d));
        ops.push(Op::k("FGET", d));
    }
    ops.push(Op::nullary("DBSIZE"));
    cs.push(Case { n: 4, class: "undeclared-key", ops });
    // MSETNX runs whole on the first key's shard
    let mut ops = Vec::new();
    for d in p.iter().skip(1).take(20) {
        ops.push(Op::kv("SET", d, b"old"));
        ops.push(Op::new("MSETNX", vec![p[0].clone(), d.clone()], vec![b"n1".to_vec(), b"n2".to_vec()]));
        ops.push(Op::new("MGET", vec![p[0].clone(), d.clone()], vec![]));
        ops.push(Op::new("DEL", vec![p[0].clone(), d.clone()], vec![]));
    }
    cs.push(Case { n: 4, class: "multi-key:MSETNX", ops });
    // SCAN: 120 keys of one length
    for n in [4usize, 16] {
        let ks: Vec<Vec<u8>> = (0..120).map(|i| format!("k{:03}", i).into_bytes()).collect();
        let mut ops = Vec::new();
        for ch in ks.chunks(30) {
            ops.push(Op::new("MSET", ch.to_vec(), ch.iter().map(|_| b"v".to_vec()).collect()));
        }
        ops.push(Op::nullary("DBSIZE"));
        let mut sc = Op::nullary("SCAN");
        ops.push(sc.clone());
        sc.count = Some(50);
        ops.push(sc.clone());
        sc.cursor = 10;
        sc.count = Some(5);
        ops.push(sc.clone());
        sc.cursor = 0;
        sc.count = Some(200);
        sc.pat = Some(b"k0*".to_vec());
        ops.push(sc.clone());
        sc.pat = Some(b"k0[0-4x]?".to_vec());
        ops.push(sc.clone());
        cs.push(Case { n, class: "scan", ops });
    }
    // keys from the structured alphabet through every path: a route that treats some byte class
    // specially on one path only (e.g. `{tag}` hashing in hash_key but not in hash_key_bytes)
    // gives the key two homes.  First the literal session of seed C03-hash-tags-only-on-generic-route.
    for n in [4usize, 16] {
        let mut ops = vec![Op::kv("FSET", b"{u}:a", b"hi"), Op::k("STRLEN", b"{u}:a"), Op::kv("SET", b"{u}:b", b"x"), Op::k("FGET", b"{u}:b")];
        for (_, k) in special_keys() {
            ops.push(Op::kv("FSET", &k, b"f1"));
            ops.push(Op::k("STRLEN", &k));
            ops.push(Op::kv("SET", &k, b"g22"));
            ops.push(Op::k("PGET", &k));
            ops.push(Op::new("BGET", vec![k.clone()], vec![]));
            ops.push(Op::k("ESGET", &k));
            ops.push(Op::kv("APPEND", &k, b"!"));
            ops.push(Op::k("FGET", &k));
        }
        ops.push(Op::nullary("DBSIZE"));
        cs.push(Case { n, class: "mixed-consistent", ops });
    }
    // KEYS patterns of every shape (classes, ranges, negation, unterminated, literal only)
    cs.push(keys_case(&mut Rng::new(0xC03), true));
    // the script cache: introduced through one shard, used through another
    cs.push(scripts_case(ctx, &mut Rng::new(0xC03), true));
    // long batches with repeated keys (send order inside one shard's share of a batch)
    for f in [(2usize, 48usize, 6usize), (4, 33, 5), (3, 21, 4), (16, 100, 8), (4, 20, 3), (8, 257, 7)] {
        cs.push(batch_order_case(ctx, &mut Rng::new(0xB0), Some(f)));
    }
    // RANDOMKEY looked at shard 0 only before fix 4d9bd05: one key that does not live there
    let k = p.iter().find(|k| ctx.gen(k, 4) != 0).unwrap();
    cs.push(Case {
        n: 4,
        class: "randomkey",
        ops: vec![Op::nullary("RANDOMKEY"), Op::kv("SET", k, b"v"), Op::nullary("RANDOMKEY"), Op::nullary("DBSIZE")],
    });
    cs
}

fn random_case(ctx: &Ctx, rng: &mut Rng) -> Case {
    let n = *rng.pick(&[2usize, 4, 4, 4, 16, 3, 8]);
    let class = *rng.pick(&[
        "generic", "generic", "generic", "mixed-consistent", "mixed-consistent", "mixed-consistent", "mixed-any",
        "mixed-any", "two-key:RENAME", "two-key:RENAMENX", "two-key:RPOPLPUSH", "two-key:LMOVE", "two-key:SORTSTORE",
        "two-key:EVALSIE", "multi-key:MSETNX", "randomkey", "undeclared-key",
    ]);
    let mut p = pool();
    // half of the cases draw their keys from the structured alphabet as well
    if rng.chance(1, 2) {
        let sp = special_keys();
        for _ in 0..rng.range(2, 10) {
            p.insert(rng.below(p.len() as u64) as usize, sp[rng.below(sp.len() as u64) as usize].1.clone());
        }
        // … preferably whole families
        if rng.chance(1, 2) {
            let fam = *rng.pick(&["tag-nonempty", "tag-family", "tag-unbalanced", "tag-nested", "tag-empty"]);
            for (c, k) in &sp {
                if *c == fam {
                    p.insert(0, k.clone());
                }
            }
        }
    }
    // key universe of the case
    let mut cand: Vec<Vec<u8>> = match class {
        "mixed-consistent" => p.iter().filter(|k| ctx.gen(k, n) == h_bytes(k, n)).cloned().collect(),
        _ => p.clone(),
    };
    if !rng.chance(1, 3) {
        rng.shuffle(&mut cand);
    }
    cand.dedup();
    let nk = rng.range(3, 9) as usize;
    let mut keys: Vec<Vec<u8>> = Vec::new();
    for k in cand {
        if !keys.contains(&k) {
            keys.push(k);
        }
        if keys.len() >= nk {
            break;
        }
    }
    // keys only the byte paths can carry
    let raw: Vec<Vec<u8>> = vec![vec![0xff, 0xfe], vec![0x80], vec![0x6b, 0xc3]];
    let bytes_paths = class.starts_with("mixed");
    let steps = rng.range(8, 40);
    let mut ops = Vec::new();
    let pick = |rng: &mut Rng| keys[rng.below(keys.len() as u64) as usize].clone();
    let some_keys = |rng: &mut Rng, lo: u64, hi: u64| -> Vec<Vec<u8>> {
        (0..rng.range(lo, hi)).map(|_| keys[rng.below(keys.len() as u64) as usize].clone()).collect()
    };
    for _ in 0..steps {
        let c = rng.below(100);
        let op = if bytes_paths && c < 35 {
            let k = if rng.chance(1, 8) { rng.pick(&raw).clone() } else { pick(rng) };
            match rng.below(8) {
                0 => Op::k("FGET", &k),
                1 => Op::k("PGET", &k),
                2 | 3 => Op::kv("FSET", &k, &val(rng)),
                4 => Op::kv("PSET", &k, &val(rng)),
                5 => {
                    let mut ks = some_keys(rng, 0, 5);
                    if rng.chance(1, 4) {
                        ks.push(rng.pick(&raw).clone());
                    }
                    Op::new("BGET", ks, vec![])
                }
                _ => {
                    let mut ks = some_keys(rng, 0, 5);
                    if rng.chance(1, 4) {
                        ks.push(rng.pick(&raw).clone());
                    }
                    let vs = ks.iter().map(|_| val(rng)).collect();
                    Op::new("BSET", ks, vs)
                }
            }
        } else if class.starts_with("two-key") && c < 55 {
            let name: &'static str = match class {
                "two-key:RENAME" => "RENAME",
                "two-key:RENAMENX" => "RENAMENX",
                "two-key:LMOVE" => "LMOVE",
                "two-key:SORTSTORE" => "SORTSTORE",
                "two-key:EVALSIE" => "EVALSIE",
                _ => "RPOPLPUSH",
            };
            let (a, d) = (pick(rng), pick(rng));
            match name {
                "LMOVE" => Op::new("LMOVE", vec![a, d], vec![rng.pick(&[&b"L"[..], b"R"]).to_vec(), rng.pick(&[&b"L"[..], b"R"]).to_vec()]),
                "EVALSIE" => Op::new(if rng.chance(1, 2) { "EVALSIE" } else { "EVALSHASIE" }, vec![a, d], vec![val(rng)]),
                _ => Op::k2(name, &a, &d),
            }
        } else if class == "multi-key:MSETNX" && c < 50 {
            let ks = some_keys(rng, 1, 4);
            let vs = ks.iter().map(|_| val(rng)).collect();
            Op::new("MSETNX", ks, vs)
        } else if class == "undeclared-key" && c < 40 {
            Op::kv("EVAL0SET", &pick(rng), &val(rng))
        } else if class == "randomkey" && c < 45 {
            Op::nullary("RANDOMKEY")
        } else {
            match rng.below(30) {
                0 => Op::k("GET", &pick(rng)),
                1 => Op::k(*rng.pick(&["GET", "EGET", "ESGET"]), &pick(rng)),
                2 | 3 => Op::kv("SET", &pick(rng), &val(rng)),
                4 => Op::kv(*rng.pick(&["SET", "ESET", "ESSET"]), &pick(rng), &val(rng)),
                5 => Op::kv("SETNX", &pick(rng), &val(rng)),
                6 => Op::kv("APPEND", &pick(rng), &val(rng)),
                7 => Op::k("STRLEN", &pick(rng)),
                8 => Op::k("INCR", &pick(rng)),
                9 => Op::k("GETDEL", &pick(rng)),
                10 => Op::kv("GETSET", &pick(rng), &val(rng)),
                11 => Op::k("TYPE", &pick(rng)),
                12 => {
                    let vs = (0..rng.range(1, 3)).map(|_| val(rng)).collect();
                    Op::new("RPUSH", vec![pick(rng)], vs)
                }
                13 => {
                    let vs = (0..rng.range(1, 3)).map(|_| val(rng)).collect();
                    Op::new("LPUSH", vec![pick(rng)], vs)
                }
                14 => Op::k("LPOP", &pick(rng)),
                15 => Op::k("RPOP", &pick(rng)),
                16 => Op::k("LLEN", &pick(rng)),
                17 | 18 => Op::new("MGET", some_keys(rng, 0, 6), vec![]),
                19 | 20 => {
                    let ks = some_keys(rng, 0, 6);
                    let vs = ks.iter().map(|_| val(rng)).collect();
                    Op::new("MSET", ks, vs)
                }
                21 | 22 => Op::new("DEL", some_keys(rng, 1, 5), vec![]),
                23 | 24 => Op::new("EXISTS", some_keys(rng, 1, 5), vec![]),
                25 | 26 => {
                    keys_op(&pattern_for(rng, &keys))
                }
                27 | 28 => Op::nullary("DBSIZE"),
                _ => {
                    if rng.chance(1, 3) {
                        Op::nullary("FLUSH")
                    } else {
                        Op::nullary("DBSIZE")
                    }
                }
            }
        };
        ops.push(op);
    }
    Case { n, class, ops }
}

/// One generated case, waiting for the verdict of the predictor.
pub struct Pending {
    /// its op lines are `start..end` of the output
    start: usize,
    end: usize,
    class: String,
    /// the listed finding whose CAUSE is present in this case (the input class the current code
    /// mishandles), if any
    listed: Option<String>,
    /// the 1-shard vs N-shard difference observed on the real code, if any
    diverged: Option<(String, String, serde_json::Value)>,
    shards: usize,
}

impl Pending {
    pub(crate) fn new(start: usize, end: usize, class: &str, listed: Option<String>, diverged: Option<(String, String, serde_json::Value)>, shards: usize) -> Pending {
        Pending { start, end, class: class.to_string(), listed, diverged, shards }
    }
}

/// The CAUSE of a listed finding, looked for in the case itself (never a symptom):
/// * two-key command X whose two keys live on DIFFERENT shards under the real route
///   (`get_primary_key` routes it by the first key and it runs whole on that shard);
/// * MSETNX whose keys span ≥ 2 shards (it runs whole on the first key's shard: it neither sees
///   keys that exist elsewhere nor writes the others to their homes);
/// * SCAN (every shard is asked for `SCAN 0 … COUNT n`, the cursors are dropped).
/// A listed signature is used only if, in addition, the replies and the final keyspace of the
/// real code are exactly what the MODEL of the current code predicts for the case (`resolve`).
fn listed_cause(case: &Case, c: &Ctx) -> Option<String> {
    let n = case.n;
    match case.class {
        "mixed-any" if !c.fixed => {
            if case.ops.iter().flat_map(|o| o.keys.iter()).any(|k| std::str::from_utf8(k).is_ok() && c.gen(k, n) != h_bytes(k, n)) {
                Some("C03:route-hash-mismatch:fast_set+generic".into())
            } else {
                None
            }
        }
        x if x.starts_with("two-key:") => {
            let name = &x["two-key:".len()..];
            if case.ops.iter().any(|o| (o.name == name || (name == "EVALSIE" && o.name == "EVALSHASIE")) && c.gen(&o.keys[0], n) != c.gen(&o.keys[1], n)) {
                Some(format!("C03:two-key:{}", name))
            } else {
                None
            }
        }
        "undeclared-key" => {
            // a script with no KEYS runs on shard 0: the cause is an EVAL0SET of a key whose home is not shard 0
            if case.ops.iter().any(|o| o.name == "EVAL0SET" && c.gen(&o.keys[0], n) != 0) {
                Some("C03:script-undeclared-key".into())
            } else {
                None
            }
        }
        "scripts-global" if !SHARED_SCRIPT_CACHE.load(std::sync::atomic::Ordering::Relaxed) => Some("C03:script-cache-per-shard".into()),
        "multi-key:MSETNX" => {
            if case.ops.iter().any(|o| o.name == "MSETNX" && o.keys.iter().any(|k| c.gen(k, n) != c.gen(&o.keys[0], n))) {
                Some("C03:multi-key:MSETNX".into())
            } else {
                None
            }
        }
        "scan" => {
            if case.ops.iter().any(|o| o.name == "SCAN") {
                Some("C03:scan-cursor".into())
            } else {
                None
            }
        }
        _ => None,
    }
}

/// The predictor: the Lean model of the CURRENT code (`rvdriver C03`) is run on every op line of
/// this run; a 1-vs-N difference is attributed to a listed finding only if its cause is in the case
/// AND the code did exactly what the model predicts.  Anything else gets an unlisted signature
/// with the concrete sequence — including a case where 1 and N shards agree with each other but not
/// with the model (`C03:model-mismatch`).
pub fn resolve(out: &mut Out, pend: Vec<Pending>) {
    let (ops, imp): (Vec<String>, Vec<String>) = {
        let (o, i) = out.lines();
        (o.to_vec(), i.to_vec())
    };
    let driver = std::env::var("RVDRIVER").ok().map(std::path::PathBuf::from).or_else(|| {
        let exe = std::env::current_exe().ok()?;
        // ROOT/.build/harness-target/release/rvharness → ROOT/lean/.lake/build/bin/rvdriver
        Some(exe.parent()?.parent()?.parent()?.parent()?.join("lean/.lake/build/bin/rvdriver"))
    });
    let model: Option<Vec<String>> = driver.filter(|d| d.exists()).and_then(|d| {
        use std::io::Write;
        let mut child = std::process::Command::new(d)
            .arg("C03")
            .stdin(std::process::Stdio::piped())
            .stdout(std::process::Stdio::piped())
            .spawn()
            .ok()?;
        let mut stdin = child.stdin.take()?;
        let text = ops.join("\n") + "\n";
        let writer = std::thread::spawn(move || {
            let _ = stdin.write_all(text.as_bytes());
        });
        let outp = child.wait_with_output().ok()?;
        let _ = writer.join();
        Some(String::from_utf8_lossy(&outp.stdout).lines().map(|l| l.to_string()).collect())
    });
    let model = match model {
        Some(m) if m.len() == ops.len() => m,
        _ => {
            out.violation("C03:predictor-unavailable", "the model driver (lean/.lake/build/bin/rvdriver, or $RVDRIVER) could not be run: no 1-vs-N difference can be attributed to a listed finding", json!({}));
            for p in pend {
                if let Some((at, what, replay)) = p.diverged {
                    out.violation(&format!("C03:unattributed:{}:{}", p.class, at), &what, replay);
                }
            }
            return;
        }
    };
    let mut predicted = 0u64;
    for p in pend {
        let mism = (p.start..p.end).find(|&i| imp[i] != model[i]);
        match (p.diverged, mism) {
            (Some((at, what, replay)), None) => {
                let sig = match &p.listed {
                    Some(l) => {
                        predicted += 1;
                        l.clone()
                    }
                    None => format!("C03:unexplained:{}:{}", p.class, at),
                };
                out.violation(&sig, &what, replay);
            }
            (Some((at, what, mut replay)), Some(i)) => {
                replay["model_of_current_code"] = json!({"op": ops[i], "code_answers": imp[i], "model_predicts": model[i]});
                out.violation(
                    &format!("C03:unpredicted:{}:{}", p.class, at),
                    &format!("{}; this is NOT the listed behaviour: for `{}` the code answers {} where the model of the current code predicts {}", what, ops[i], imp[i], model[i]),
                    replay,
                );
            }
            (None, Some(i)) => {
                let name = ops[i].split(' ').find(|t| t.chars().all(|c| c.is_ascii_uppercase())).unwrap_or("?").to_string();
                out.violation(
                    &format!("C03:model-mismatch:{}:{}", p.class, name),
                    &format!("1 and {} shards agree with each other but not with the model of the current code: `{}` answers {} where the model predicts {}", p.shards, ops[i], imp[i], model[i]),
                    json!({"shards": p.shards, "ops": ops[p.start..p.end].to_vec(), "code": imp[p.start..p.end].to_vec(), "model": model[p.start..p.end].to_vec(), "first_difference_at_line": i - p.start}),
                );
            }
            (None, None) => {}
        }
    }
    out.count_n("listed-finding-attributed-after-prediction", predicted);
}

async fn run_case(out: &mut Out, pend: &mut Vec<Pending>, ctx: &Ctx, case: &Case) {
    let start = out.n_ops();
    let st1 = new_state(1);
    let stn = new_state(case.n);
    let mut a1 = Vec::new();
    let mut an = Vec::new();
    for op in &case.ops {
        out.count(&format!("op:{}", op.name));
        a1.push(apply(&st1, op).await);
        an.push(apply(&stn, op).await);
    }
    // the byte-path view of every key is part of the dump only where the case uses byte paths
    let wf = case.class.starts_with("mixed");
    let d1 = dump(&st1, wf).await;
    let dn = dump(&stn, wf).await;
    // correspondence lines: 1-shard instance, then N-shard instance
    for (n, ans, d) in [(1usize, &a1, &d1), (case.n, &an, &dn)] {
        out.op(new_line(ctx, n, &case.ops), "ok".into());
        for (op, r) in case.ops.iter().zip(ans.iter()) {
            out.op(op.line(), r.clone());
        }
        out.op(format!("DUMP {}", wf as u8), d.clone());
    }
    // oracle: N shards must answer like one shard
    let first = (0..case.ops.len()).find(|&i| a1[i] != an[i]);
    let differs = first.is_some() || d1 != dn;
    out.count(&format!("class:{}", case.class));
    out.count(&format!("shards:{}", case.n));
    for k in universe(&case.ops) {
        out.count(&format!("keyclass:{}", key_class(&k)));
    }
    if differs {
        let lines: Vec<String> = case.ops.iter().map(|o| o.line()).collect();
        let (at, what) = match first {
            Some(i) => (
                case.ops[i].name.to_string(),
                format!("{} shards answer `{}` with {} where one shard answers {}", case.n, lines[i], an[i], a1[i]),
            ),
            None => ("DUMP".to_string(), format!("{} shards end with keyspace {} where one shard ends with {}", case.n, dn, d1)),
        };
        pend.push(Pending {
            start,
            end: out.n_ops(),
            class: case.class.to_string(),
            listed: listed_cause(case, ctx),
            diverged: Some((at, what, json!({"shards": case.n, "ops": lines, "first_difference_at": first, "one_shard": a1, "n_shards": an, "dump_one": d1, "dump_n": dn}))),
            shards: case.n,
        });
    } else {
        pend.push(Pending { start, end: out.n_ops(), class: case.class.to_string(), listed: None, diverged: None, shards: case.n });
    }
    let text = format!("{}|{}", case.n, case.ops.iter().map(|o| o.line()).collect::<Vec<_>>().join(";"));
    let shards_used: BTreeSet<usize> = universe(&case.ops).iter().map(|k| ctx.gen(k, case.n)).collect();
    let fan = case.ops.iter().any(|o| matches!(o.name, "MGET" | "MSET" | "DEL" | "EXISTS" | "KEYS" | "DBSIZE" | "BGET" | "BSET") || o.is_bytes_path() || o.is_two_key());
    out.case(&text, shards_used.len() >= 2 && fan);
    out.sample(json!({"shards": case.n, "class": case.class, "ops": case.ops.iter().take(12).map(|o| o.line()).collect::<Vec<_>>()}));
}

/// Timed streams: per-shard clocks and key expiry (model: `Shards.Clock.execNT`).
/// Every `ShardMessage` kind must carry the virtual time and the shard must adopt it before
/// executing (fix ef50533 for the fast / pooled / batch kinds); a kind that does not judges
/// expiry against the clock its shard saw at its last time-carrying message, which on N shards
/// is refreshed only by traffic for that shard.
#[derive(Clone, Debug)]
struct TOp {
    now: u64,
    name: &'static str,
    keys: Vec<Vec<u8>>,
    vals: Vec<Vec<u8>>,
    num: i64,
}

impl TOp {
    fn line(&self) -> String {
        let k0 = || hex(&self.keys[0]);
        match self.name {
            "SET" | "FSET" | "PSET" => format!("T {} {} {} {}", self.now, self.name, k0(), hex(&self.vals[0])),
            "SETPX" | "SETEX" => format!("T {} {} {} {} {}", self.now, self.name, k0(), hex(&self.vals[0]), self.num),
            "DBSIZE" => format!("T {} DBSIZE", self.now),
            "EVICT" => format!("T {} EVICT", self.now),
            "BGET" | "MGET" => {
                let mut l = format!("T {} {} {}", self.now, self.name, self.keys.len());
                for k in &self.keys {
                    l.push_str(&format!(" {}", hex(k)));
                }
                l
            }
            "BSET" | "MSET" => {
                let mut l = format!("T {} {} {}", self.now, self.name, self.keys.len());
                for (k, v) in self.keys.iter().zip(&self.vals) {
                    l.push_str(&format!(" {} {}", hex(k), hex(v)));
                }
                l
            }
            _ => format!("T {} {} {}", self.now, self.name, k0()),
        }
    }
    fn is_read(&self) -> bool {
        matches!(self.name, "GET" | "EXISTS" | "FGET" | "PGET" | "BGET" | "MGET" | "DBSIZE")
    }
}

async fn apply_timed(st: &State, op: &TOp) -> String {
    let k0 = || s(&op.keys[0]);
    let set_with = |ex: Option<i64>, px: Option<i64>| {
        let mut c = Command::set(s(&op.keys[0]), sds(&op.vals[0]));
        if let Command::Set { ex: ref mut e, px: ref mut p, .. } = c {
            *e = ex;
            *p = px;
        }
        c
    };
    match op.name {
        "SET" => r1(&st.execute(&set_with(None, None)).await),
        "SETPX" => r1(&st.execute(&set_with(None, Some(op.num))).await),
        "SETEX" => r1(&st.execute(&set_with(Some(op.num), None)).await),
        "GET" => r1(&st.execute(&Command::Get(k0())).await),
        "EXISTS" => r1(&st.execute(&Command::Exists(vec![k0()])).await),
        "DBSIZE" => r1(&st.execute(&Command::DbSize).await),
        "FGET" => r1(&st.fast_get(b(&op.keys[0])).await),
        "PGET" => r1(&st.pooled_fast_get(b(&op.keys[0])).await),
        "FSET" => r1(&st.fast_set(b(&op.keys[0]), b(&op.vals[0])).await),
        "PSET" => r1(&st.pooled_fast_set(b(&op.keys[0]), b(&op.vals[0])).await),
        "BGET" => many(&st.fast_batch_get_pipeline(op.keys.iter().map(|k| b(k)).collect()).await),
        "BSET" => many(&st.fast_batch_set_pipeline(op.keys.iter().zip(&op.vals).map(|(k, v)| (b(k), b(v))).collect()).await),
        "MGET" => match st.execute(&Command::MGet(op.keys.iter().map(|k| s(k)).collect())).await {
            RespValue::Array(Some(vs)) => many(&vs),
            o => r1(&o),
        },
        "MSET" => r1(&st.execute(&Command::MSet(op.keys.iter().zip(&op.vals).map(|(k, v)| (s(k), sds(v))).collect())).await),
        x => panic!("timed op {}", x),
    }
}

/// make the node's clock read `target` ms — forwards, backwards, or unchanged (clock offset)
pub fn set_now(sim: &Arc<SimulationContext>, target: u64) {
    use redis_sim::io::simulation::{ClockOffset, NodeId};
    let g = sim.now().as_millis() as i64;
    sim.set_clock_offset(NodeId(0), ClockOffset { fixed_offset_ms: target as i64 - g, ..Default::default() });
}

async fn run_timed_on(n: usize, ops: &[TOp]) -> Vec<String> {
    let (st, sim) = new_state_ctx(n);
    let mut out = Vec::new();
    for op in ops {
        set_now(&sim, op.now);
        out.push(if op.name == "EVICT" { format!("i:{}", st.evict_expired_all_shards().await) } else { apply_timed(&st, op).await });
    }
    out
}

fn top(now: u64, name: &'static str, key: &[u8], val: &[u8], num: i64) -> TOp {
    TOp { now, name, keys: vec![key.to_vec()], vals: vec![val.to_vec()], num }
}
fn tmulti(now: u64, name: &'static str, keys: &[Vec<u8>], val: &[u8]) -> TOp {
    TOp { now, name, keys: keys.to_vec(), vals: keys.iter().map(|_| val.to_vec()).collect(), num: 0 }
}

/// keys whose two routing hashes agree (so that a difference is not the routing defect)
fn timed_keys(ctx: &Ctx, n: usize) -> Vec<Vec<u8>> {
    pool().into_iter().filter(|k| ctx.gen(k, n) == h_bytes(k, n)).collect()
}

const READ_PATHS: [&str; 7] = ["GET", "EXISTS", "FGET", "PGET", "BGET", "MGET", "DBSIZE"];

/// The pattern behind every stale-clock defect, for ONE read path: a key gets a deadline; the
/// clock advances to just before / exactly at / just past / far past it; in between there is
/// traffic for OTHER shards only (or none); then the key is read through the path.
#[allow(clippy::too_many_arguments)]
fn ttl_pattern(ctx: &Ctx, rng: &mut Rng, n: usize, path: &'static str, ttl_state: &'static str, between: &'static str, setter: &'static str) -> Vec<TOp> {
    let ks = timed_keys(ctx, n);
    let k = ks[rng.below(ks.len() as u64) as usize].clone();
    let others: Vec<Vec<u8>> = ks.iter().filter(|x| h_bytes(x, n) != h_bytes(&k, n)).cloned().collect();
    let t0 = rng.below(50);
    let (set, ttl_ms) = match setter {
        "SETEX" => (top(t0, "SETEX", &k, b"v", 1), 1000u64),
        _ => {
            let ms = *rng.pick(&[1u64, 100, 250]);
            (top(t0, "SETPX", &k, b"v", ms as i64), ms)
        }
    };
    let deadline = t0 + ttl_ms;
    let t1 = match ttl_state {
        "before" => deadline - 1,
        "at" => deadline,
        "after" => deadline + 1,
        _ => deadline + 400 + rng.below(5000),
    };
    let mut ops = vec![set];
    if between == "other-shards" && !others.is_empty() {
        for _ in 0..rng.range(1, 3) {
            let o = others[rng.below(others.len() as u64) as usize].clone();
            let name: &'static str = *rng.pick(&["GET", "SET", "FGET", "FSET", "PGET", "BGET", "MGET", "EXISTS"]);
            ops.push(match name {
                "SET" | "FSET" => top(t1, name, &o, b"o", 0),
                "BGET" | "MGET" => tmulti(t1, name, &[o], b""),
                _ => top(t1, name, &o, b"", 0),
            });
        }
    }
    let read = |name: &'static str| match name {
        "BGET" | "MGET" => {
            // the key alone, or together with keys of other shards
            let mut keys = vec![k.clone()];
            if !others.is_empty() && name == path {
                keys.push(others[0].clone());
            }
            tmulti(t1, name, &keys, b"")
        }
        "DBSIZE" => TOp { now: t1, name: "DBSIZE", keys: vec![], vals: vec![], num: 0 },
        _ => top(t1, name, &k, b"", 0),
    };
    ops.push(read(path));
    // a second look through the generic path, and the key count
    ops.push(read("GET"));
    ops.push(read("DBSIZE"));
    ops
}

/// the seed C03-batch-get-skips-set-time, literally, and its siblings for every read path
fn timed_corpus(ctx: &Ctx) -> Vec<(usize, Vec<TOp>, String)> {
    let n = 4;
    let ks = timed_keys(ctx, n);
    let k = ks[0].clone();
    let k2 = ks.iter().find(|x| h_bytes(x, n) != h_bytes(&k, n)).unwrap().clone();
    let mut cs = Vec::new();
    for path in READ_PATHS {
        let read = match path {
            "BGET" | "MGET" => tmulti(500, path, &[k.clone()], b""),
            "DBSIZE" => TOp { now: 500, name: "DBSIZE", keys: vec![], vals: vec![], num: 0 },
            _ => top(500, path, &k, b"", 0),
        };
        cs.push((
            n,
            vec![top(0, "SETPX", &k, b"v", 100), top(500, "GET", &k2, b"", 0), read, TOp { now: 500, name: "DBSIZE", keys: vec![], vals: vec![], num: 0 }],
            format!("path={}:ttl=far:between=other-shards", path),
        ));
    }
    cs
}

/// the TimeSource misbehaving: going BACKWARDS, standing still, jumping by years.  The property is
/// about monotone time; here only the model ↔ code correspondence is checked (a 1-vs-N difference
/// is legitimate: one shard has already evicted what a stale-stamped message on N shards still sees)
fn timed_nonmonotone(ctx: &Ctx, rng: &mut Rng) -> (usize, Vec<TOp>) {
    let (n, mut ops) = timed_random(ctx, rng);
    let mut now = 1000u64;
    for o in ops.iter_mut() {
        now = match rng.below(6) {
            0 => now.saturating_sub(*rng.pick(&[1u64, 50, 99, 100, 101, 500])),
            1 => now,
            2 => now + *rng.pick(&[1u64, 100, 101]),
            3 => now + (1u64 << rng.range(20, 44)),
            4 => now / 2,
            _ => now + 7,
        };
        o.now = now;
    }
    (n, ops)
}

fn timed_random(ctx: &Ctx, rng: &mut Rng) -> (usize, Vec<TOp>) {
    let n = *rng.pick(&[2usize, 4, 4, 8, 3, 5]);
    let mut ks = timed_keys(ctx, n);
    rng.shuffle(&mut ks);
    let keys: Vec<Vec<u8>> = ks.into_iter().take(rng.range(2, 5) as usize).collect();
    let mut now = 0u64;
    let mut ops = Vec::new();
    for _ in 0..rng.range(8, 30) {
        if rng.chance(1, 2) {
            now += *rng.pick(&[1u64, 20, 50, 99, 100, 101, 150, 300, 1000]);
        }
        let k = keys[rng.below(keys.len() as u64) as usize].clone();
        let v = format!("v{}", rng.below(9)).into_bytes();
        let some: Vec<Vec<u8>> = (0..rng.range(1, 3)).map(|_| keys[rng.below(keys.len() as u64) as usize].clone()).collect();
        let op = match rng.below(17) {
            0 | 1 | 2 => top(now, "SETPX", &k, &v, *rng.pick(&[1i64, 50, 100, 101, 200, 400])),
            3 => top(now, "SET", &k, &v, 0),
            4 => top(now, "SETEX", &k, &v, 1),
            5 => top(now, "GET", &k, b"", 0),
            6 => top(now, "EXISTS", &k, b"", 0),
            7 => TOp { now, name: if rng.chance(1, 3) { "EVICT" } else { "DBSIZE" }, keys: vec![], vals: vec![], num: 0 },
            8 => top(now, "FGET", &k, b"", 0),
            9 => top(now, "PGET", &k, b"", 0),
            10 => top(now, "FSET", &k, &v, 0),
            11 => top(now, "PSET", &k, &v, 0),
            12 | 13 => tmulti(now, "BGET", &some, b""),
            14 => tmulti(now, "MGET", &some, b""),
            15 => tmulti(now, "BSET", &some, &v),
            _ => tmulti(now, "MSET", &some, &v),
        };
        ops.push(op);
    }
    (n, ops)
}

/// which message kinds of the tree under test carry the virtual time?  Observed per READ kind
/// (the seed's sequence); for the write kinds (fast / pooled / batch SET) it is unobservable as
/// long as every read kind adopts the time (`set_direct` does not look at the clock), so they
/// are reported as carrying.  Order: generic fastGet fastSet pooledGet pooledSet batchGet batchSet.
async fn detect_carries(ctx: &Ctx) -> String {
    let mut bits = ['1'; 7];
    for (n, ops, label) in timed_corpus(ctx) {
        let r = run_timed_on(n, &ops).await;
        let carries = r[2] == "nil" || r[2] == "m:[nil]" || r[2] == "i:0";
        let idx = if label.contains("path=FGET") {
            1
        } else if label.contains("path=PGET") {
            3
        } else if label.contains("path=BGET") {
            5
        } else {
            0
        };
        if !carries {
            bits[idx] = '0';
        }
    }
    bits.iter().collect()
}

async fn run_timed(out: &mut Out, pend: &mut Vec<Pending>, carries: &str, n: usize, ops: &[TOp], label: &str) {
    let start = out.n_ops();
    let a1 = run_timed_on(1, ops).await;
    let an = run_timed_on(n, ops).await;
    let mut u: BTreeSet<Vec<u8>> = BTreeSet::new();
    for o in ops {
        for k in &o.keys {
            u.insert(k.clone());
        }
    }
    for (shards, ans) in [(1usize, &a1), (n, &an)] {
        let mut l = format!("TNEW {} {} {}", shards, carries, u.len());
        for k in &u {
            l.push_str(&format!(" {} {} {}", hex(k), h_bytes(k, shards), h_bytes(k, shards)));
        }
        out.op(l, "ok".into());
        for (o, r) in ops.iter().zip(ans.iter()) {
            out.count(&format!("op:T:{}", o.name));
            out.op(o.line(), r.clone());
        }
    }
    out.count("class:timed");
    if !label.is_empty() {
        out.count(&format!("timed:{}", label));
    }
    let lines: Vec<String> = ops.iter().map(|o| o.line()).collect();
    // (the return value of the TTL tick is an internal metric that legitimately depends on the shard
    // count; under a non-monotone clock a 1-vs-N difference is legitimate: correspondence only)
    let monotone = label != "nonmonotone-clock";
    if let Some(i) = (0..ops.len()).find(|&i| monotone && ops[i].name != "EVICT" && a1[i] != an[i]) {
        let kinds = ["generic", "fast_get", "fast_set", "pooled_fast_get", "pooled_fast_set", "fast_batch_get", "fast_batch_set"];
        let stale: Vec<&str> = carries.chars().zip(kinds.iter()).filter(|(c, _)| *c == '0').map(|(_, k)| *k).collect();
        let listed = if stale.is_empty() { None } else { Some(format!("C03:stale-clock:{}", stale.join("+"))) };
        pend.push(Pending {
            start,
            end: out.n_ops(),
            class: "timed".into(),
            listed,
            diverged: Some((
                ops[i].name.to_string(),
                format!("{} shards answer `{}` with {} where one shard answers {}", n, lines[i], an[i], a1[i]),
                json!({"shards": n, "ops": lines, "first_difference_at": i, "one_shard": a1, "n_shards": an, "message_kinds_not_adopting_the_time": stale}),
            )),
            shards: n,
        });
    } else {
        pend.push(Pending { start, end: out.n_ops(), class: "timed".into(), listed: None, diverged: None, shards: n });
    }
    let expiring = ops.iter().any(|o| matches!(o.name, "SETPX" | "SETEX")) && ops.last().map(|o| o.now > 0).unwrap_or(false) && ops.iter().any(|o| o.is_read());
    out.case(&format!("timed|{}|{}", n, lines.join(";")), expiring);
    out.sample(json!({"shards": n, "class": "timed", "ops": lines.iter().take(12).collect::<Vec<_>>()}));
}

pub fn run(a: &Args) {
    let mut out = Out::new(&a.out);
    let mut rng = Rng::new(a.seed);
    let rt = tokio::runtime::Builder::new_current_thread().enable_all().build().unwrap();
    let mut pend: Vec<Pending> = Vec::new();
    rt.block_on(async {
        let ctx = detect_routing(&mut out).await;
        out.extra.insert("hash_key_delegates_to_hash_key_bytes".into(), json!(ctx.fixed));
        detect_script_cache(&ctx).await;
        out.extra.insert("script_cache_shared_by_all_shards".into(), json!(SHARED_SCRIPT_CACHE.load(std::sync::atomic::Ordering::Relaxed)));
        for c in corpus(&ctx) {
            run_case(&mut out, &mut pend, &ctx, &c).await;
        }
        // the sharding model over the M7 reference executor: fixed timed streams, every run
        for (label, steps) in crate::c03m7::corpus() {
            for n in [2usize, 4, 8] {
                crate::c03m7::run_steps(&mut out, &mut pend, &ctx, n, label, &steps).await;
            }
        }
        // the end-to-end node (frames → parser → entry point → shards → encoder): every template once
        for n in [2usize, 4] {
            let steps = crate::c03srv::corpus(&ctx, n);
            crate::c03srv::run_steps(&mut out, &mut pend, &ctx, n, "corpus", &steps).await;
            // … and as ONE pipeline on ONE connection through the real connection handler (hook H1),
            // under three read segmentations / partial-write scripts / batching configurations
            let frames = crate::c03srv::corpus_pipeline(&ctx, n);
            for salt in 0..3u64 {
                crate::c03srv::run_conn(&mut out, &mut pend, &ctx, &mut Rng::new(0xC0 + salt), n, &frames).await;
            }
            // … and pipelines made for the GET/SET fast path and the batch collectors (every shape, twice)
            for salt in 0..12u64 {
                crate::c03srv::run_conn_fast(&mut out, &mut pend, &ctx, &mut Rng::new(0xFA00 + salt * 16 + n as u64), n, Some((salt % 6) as usize)).await;
            }
        }
        for n in [4usize] {
            for (label, steps) in crate::c03m7::after_deadline(&ctx, n) {
                crate::c03m7::run_steps(&mut out, &mut pend, &ctx, n, &label, &steps).await;
            }
        }
        crate::api::report(&mut out);
        crate::routes::run(&mut out).await;
        crate::route_table::run(&mut out, &ctx).await;
        let carries = detect_carries(&ctx).await;
        out.extra.insert("message_kinds_adopting_the_virtual_time(generic,fast_get,fast_set,pooled_get,pooled_set,batch_get,batch_set)".into(), json!(carries));
        for (tn, tops, label) in timed_corpus(&ctx) {
            run_timed(&mut out, &mut pend, &carries, tn, &tops, &label).await;
        }
        // every read path × every ttl state × traffic in between, once each, on every run
        {
            let mut r = Rng::new(a.seed ^ 0x77);
            for path in READ_PATHS {
                for ttl in ["before", "at", "after", "far"] {
                    for between in ["none", "other-shards"] {
                        let setter = if r.chance(1, 4) { "SETEX" } else { "SETPX" };
                        let n = *r.pick(&[2usize, 4, 8]);
                        let ops = ttl_pattern(&ctx, &mut r, n, path, ttl, between, setter);
                        run_timed(&mut out, &mut pend, &carries, n, &ops, &format!("path={}:ttl={}:between={}", path, ttl, between)).await;
                    }
                }
            }
        }
        for _ in 0..a.n {
            let mut r = rng.fork();
            let c = if r.chance(1, 7) {
                keys_case(&mut r, false)
            } else if r.chance(1, 12) {
                scripts_case(&ctx, &mut r, false)
            } else if r.chance(1, 14) {
                out.count("class:batch-order");
                batch_order_case(&ctx, &mut r, None)
            } else {
                random_case(&ctx, &mut r)
            };
            run_case(&mut out, &mut pend, &ctx, &c).await;
            if r.chance(1, 8) {
                let n = *r.pick(&[2usize, 3, 4, 8, 16]);
                let frames = crate::c03srv::random_pipeline(&ctx, &mut r, n);
                crate::c03srv::run_conn(&mut out, &mut pend, &ctx, &mut r, n, &frames).await;
            }
            if r.chance(1, 8) {
                let n = *r.pick(&[2usize, 3, 4, 8, 16]);
                crate::c03srv::run_conn_fast(&mut out, &mut pend, &ctx, &mut r, n, None).await;
            }
            if r.chance(1, 6) {
                let n = *r.pick(&[2usize, 3, 4, 8, 16]);
                let steps = crate::c03srv::random_steps(&ctx, &mut r, n);
                crate::c03srv::run_steps(&mut out, &mut pend, &ctx, n, "", &steps).await;
            }
            if r.chance(1, 5) {
                let n = *r.pick(&[2usize, 3, 4, 8, 16]);
                let steps = crate::c03m7::random_steps(&ctx, &mut r, n);
                crate::c03m7::run_steps(&mut out, &mut pend, &ctx, n, "", &steps).await;
            }
            if r.chance(1, 6) {
                if r.chance(1, 3) {
                    let (tn, tops) = timed_random(&ctx, &mut r);
                    run_timed(&mut out, &mut pend, &carries, tn, &tops, "").await;
                } else if r.chance(1, 3) {
                    let (tn, tops) = timed_nonmonotone(&ctx, &mut r);
                    run_timed(&mut out, &mut pend, &carries, tn, &tops, "nonmonotone-clock").await;
                } else {
                    let path = *r.pick(&READ_PATHS);
                    let ttl = *r.pick(&["before", "at", "after", "far"]);
                    let between = *r.pick(&["none", "other-shards"]);
                    let setter = if r.chance(1, 4) { "SETEX" } else { "SETPX" };
                    let n = *r.pick(&[2usize, 4, 8]);
                    let ops = ttl_pattern(&ctx, &mut r, n, path, ttl, between, setter);
                    run_timed(&mut out, &mut pend, &carries, n, &ops, &format!("path={}:ttl={}:between={}", path, ttl, between)).await;
                }
            }
        }
    });
    resolve(&mut out, pend);
    // every multi-key command of the executor: proved shard-count-independent + generated, or a
    // listed finding with its cause + generated, or not a ShardedActorState data command
    {
        let g = |n: &str| *out.dist.get(&format!("op:{}", n)).unwrap_or(&0);
        let t = |n: &str| *out.dist.get(&format!("op:T:{}", n)).unwrap_or(&0);
        let cov = json!({
            "MGET": {"status": "proved (Routable: shards_refine_single; timed: shard_count_unobservable_timed)", "generated": g("MGET") + t("MGET")},
            "MSET": {"status": "proved (Routable; timed)", "generated": g("MSET") + t("MSET")},
            "DEL": {"status": "proved (Routable, 1 key and ≥ 2 keys)", "generated": g("DEL")},
            "EXISTS": {"status": "proved (Routable; timed)", "generated": g("EXISTS") + t("EXISTS")},
            "KEYS": {"status": "proved (Routable, up to order)", "generated": g("KEYS")},
            "DBSIZE": {"status": "proved (Routable; timed)", "generated": g("DBSIZE") + t("DBSIZE")},
            "FLUSHDB/FLUSHALL": {"status": "proved (Routable)", "generated": g("FLUSH")},
            "RANDOMKEY": {"status": "proved (randomkey_refines)", "generated": g("RANDOMKEY")},
            "fast_batch_get_pipeline": {"status": "proved (Routable; timed)", "generated": g("BGET") + t("BGET")},
            "fast_batch_set_pipeline": {"status": "proved (Routable; timed)", "generated": g("BSET") + t("BSET")},
            "RENAME": {"status": "same shard: proved (same_shard_two_key_refines); cross shard: listed finding C03:two-key:RENAME", "generated": g("RENAME")},
            "RENAMENX": {"status": "same shard: proved; cross shard: listed finding C03:two-key:RENAMENX", "generated": g("RENAMENX")},
            "RPOPLPUSH": {"status": "same shard: proved; cross shard: listed finding C03:two-key:RPOPLPUSH", "generated": g("RPOPLPUSH")},
            "LMOVE": {"status": "same shard: proved; cross shard: listed finding C03:two-key:LMOVE", "generated": g("LMOVE")},
            "SORT … STORE": {"status": "same shard: proved; cross shard: listed finding C03:two-key:SORTSTORE", "generated": g("SORTSTORE")},
            "EVAL (2 keys)": {"status": "same shard: proved for the generated script; cross shard: listed finding C03:two-key:EVALSIE", "generated": g("EVALSIE")},
            "MSETNX": {"status": "keys on one shard: proved (Routable); keys on ≥ 2 shards: listed finding C03:multi-key:MSETNX", "generated": g("MSETNX")},
            "SCAN": {"status": "listed finding C03:scan-cursor (cursor arithmetic predicted by the model)", "generated": g("SCAN")},
            "WATCH (several keys) / MULTI / EXEC": {"status": "not a ShardedActorState data command: transaction state lives in the connection (C05); EXEC replays through execute()", "generated": 0},
            "SMOVE COPY SINTERSTORE SUNIONSTORE SDIFFSTORE ZUNIONSTORE ZINTERSTORE BITOP UNLINK TOUCH": {"status": "not implemented by the executor (Command::Unknown)", "generated": 0},
        });
        out.extra.insert("multi_key_command_coverage".into(), cov);
    }
    out.extra.insert("audit".into(), serde_json::from_str(r####"{
 "1 entry paths": "CLOSED: build.rs derives ShardMessage variants / ShardHandle fns / ShardedActorState pub fns from sharded_actor.rs, src/api.rs accounts for each (unaccounted → C03:api-not-covered); routes_gen.rs classifies every Command variant exhaustively, 82 key-bearing variants × 29 keys route-probed; session 4: the ROUTING TABLE (which shards get a message for which variant; Model/RouteTable.lean, proved to be the model's routing: route_table_is_model_routing) is derived from the binary (get_primary_key on distinct-field probes of all 127 variants; receive sets observed through 2^i expired keys per shard, Vec fields with 0/1/2/3 elements) and from the source (arms of execute) and compared row by row (C03:route-table:*); EvictExpired driven (EVICT tick); OPEN: BatchCommand / execute_fire_and_forget (dead code, no caller), adaptive/metrics fns (not keyspace; probed only for non-interference)",
 "2 input alphabet": "CLOSED: keys from a structured alphabet (tags empty/non-empty/nested/unbalanced, families, punctuation, CR LF, glob metacharacters, high bytes, non-UTF-8 on byte paths, empty, 300-byte); values: empty, binary / non-UTF-8, integers at i64 limits, 1 MiB; glob patterns of every shape; CLOSED (session 3): class m7 — all five value types, expiry commands and multi-call scripts as timed streams against the sharding model instantiated with the M7 reference executor (Props/C03M7.lean); OPEN: on the byte paths (fast/pooled/batch) values are strings by construction",
 "3 comparisons at equality": "CLOSED: deadline just before / at / just past / far (every read path); DEL with 1 vs ≥ 2 keys (fan-out threshold); MSET on one vs several shards; SCAN count vs matches; shard counts at the clamp bounds (0, 1, 256, 1000)",
 "4 configuration": "CLOSED: shard counts 0,1,2,3,5,7,64,256,1000 (clamping, non-powers of two), adaptive features on, PerformanceConfig through validate() with response-pool capacity 0/1/2/256 and prewarm 0..capacity+1; OPEN: buffers / batching / connection_pool fields are connection-level (C04)",
 "5 capacity thresholds": "CLOSED: (round 2) batches of 2..257 pairs over 1..8 REPEATED keys through fast_batch_set/get_pipeline (class batch-order: lengths around 20/21, 32/33, 64/65 — the small-size cut-offs of sorting / grouping routines; send order inside one shard group) and through the connection batch collectors (srvc-fast: runs below / at / above batch_threshold, longer than 20, at the head of a read); response pool crossed (capacity 1, > capacity outstanding), 2000-key keyspaces on 16/64 shards, batches of 500 pairs; OPEN: none known at this layer (mailboxes are unbounded)",
 "6 fault kinds": "N/A at this layer (no I/O); task cancellation is C02's (abandon)",
 "7 history shapes": "CLOSED: per-command after-deadline corpus (57 commands of every value type x before/at/after/far, only other shards see traffic while the deadline passes; self-tested: collection lookups skipping set_time), expiry passing between steps on every path, clock standing still / going backwards / jumping 2^44 ms (correspondence only: the 1-vs-N claim is for monotone time), type changes on a key, FLUSH in the middle, scripts introduced via one shard and used via another; OPEN: restart / reload does not exist at this layer",
 "8 node-global state": "CLOSED (round 2): the script cache used by EVERY shard (EVALSHA and EVAL) before a SCRIPT FLUSH and again after it, fixed session + random streams; routing state immutable at run time (source-derived: plain fields, no &mut self, no assignment, no consumer of ScalingDecision; rebalance probe); script cache in the model (script_cache_global_refines); CONFIG, CLIENT name, SCRIPT FLUSH, DBSIZE/FLUSHALL fan-out probed 1 vs 4 shards; OPEN: INFO (process-dependent fields not compared), ACL stubs",
 "9 observations": "CLOSED: replies, aggregate dump through generic AND byte paths, KEYS as multiset, what exists after the clock passes deadlines (DBSIZE/EXISTS/GET through every path), EVICT tick count (model, not 1-vs-N: legitimately shard-count dependent); OPEN: TTL/PTTL values are C01's; panics of a shard actor surface as 'ERR shard response failed' replies (seen as disagreements), not caught separately",
 "10 finding absorption": "CLOSED: listed findings attributed by cause + model prediction (resolve); new finding C03:script-undeclared-key added by cause",
 "11 harness fragility": "CLOSED: routing probe no longer relies on RENAME; predictor unavailability reported; session 4: the model driver hung on seed 4 (exponential RedisX.classScan on a 300-byte pattern with an unclosed class) — the small executor now evaluates the same matcher with every recursive call bound once (globB_eq); seeds 1..6 exit 0; OPEN: a panic inside the harness' own tasks aborts the run (reported by check as harness exit)",
 "monotone time hypothesis": "shard_count_unobservable_timed assumes non-decreasing virtual time. The real system CAN violate it per shard: get_current_virtual_time() is read before the message is enqueued, so two concurrent clients can enqueue stamps out of order (and a wall clock can step back); the model covers this (setTime with a smaller now), the correspondence exercises it (timed:nonmonotone-clock) and agrees. It is not a defect: a single client's command sequence (the property's quantifier) has monotone stamps; with concurrent clients a stale-stamped message overlaps the deadline in real time and either answer is linearizable; evicted keys never come back because eviction is permanent"
}"####).unwrap());
    out.finish("class srvc: pipelines of 3..40 answered, time-free frames on ONE connection through the REAL OptimizedConnectionHandler (hook H1: generated read segmentation incl. byte by byte, generated partial-write sizes, generated min_pipeline_buffer / batch_threshold / read_size) over a real 1- and N-shard ShardedActorState, written byte stream (decoded, canonicalised per frame, re-encoded) + dump against Server.run (Props/ServerConn node_end_to_end); class srv: command FRAMES (~110 templates: every command of the composed model with option/case variants, frames the parser rejects, commands outside the model) as RESP bytes through the real RespCodec::parse → Command::from_resp_zero_copy → execute / pooled_fast_* / fast_batch_*_pipeline → connection encoders on 1 and N shards against Server.handle (reply bytes + dump); class m7: timed streams (8..36 steps over 5 keys) of the WHOLE M7 command set (redisx generators of C01 minus GETSET / SPOP / RANDOMKEY / non-UTF-8 members) + 4 multi-call Lua scripts + TTL ticks + dumps through the real execute() on 1 and N ∈ {2,3,4,8,16} shards against Shards.M7.execNT7code, plus the fixed per-command after-deadline corpus; otherwise: case = one command sequence (8..40 ops over 3..9 keys; corpus cases up to 80 ops) run on real ShardedActorState instances with 1 and N ∈ {2,3,4,8,16} shards and on the model: single-key string/list commands, MGET/MSET/DEL/EXISTS fan-out, KEYS/DBSIZE/FLUSH, fast/pooled/batch byte paths (incl. non-UTF-8 keys), two-key commands, MSETNX, SCAN, RANDOMKEY; KEYS / SCAN MATCH patterns of every shape (literal only for an existing / a missing key, `*`, `?`, classes, negated classes, ranges, degenerate ranges, unterminated `[`, empty classes, mixed) over keyspaces of 8..45 keys spread over the shards; plus timed streams (SET [PX|EX], GET, EXISTS, DBSIZE, MGET/MSET, fast/pooled GET/SET, fast_batch_get/set_pipeline with the simulated clock advanced between commands: random streams, and the structured pattern `deadline; clock just before / at / just past / far past it; traffic for other shards only or none; read through one path` for every read path — distribution under timed:path=…; non-trivial iff a TTL is set, time passes and something is read); distinct by shard count + op text; non-trivial iff its keys live on ≥ 2 shards and it contains a fan-out, byte-path or two-key command");
}
