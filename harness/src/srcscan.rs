//! Enumerates, from the SOURCE the harness binary was built against (the `redis-sim` path
//! dependency of harness/Cargo.toml), the public surface of the files a property anchors:
//! `pub fn`s per `impl`, enum variants, `pub` struct fields.  A property's harness maps every name
//! to how it is driven (or why it is not); a name that exists in the source but not in that map is
//! a `…:coverage:<item>-not-driven` violation — a new fn / variant / config field cannot go
//! unnoticed.  A file that cannot be read or yields nothing is itself a violation.
use crate::out::Out;
use serde_json::json;
use std::collections::BTreeMap;

/// root of the dependency under test, as named by harness/Cargo.toml
pub fn dep_root() -> Option<String> {
    let manifest = std::fs::read_to_string(concat!(env!("CARGO_MANIFEST_DIR"), "/Cargo.toml")).ok()?;
    manifest
        .lines()
        .find(|l| l.starts_with("redis-sim"))
        .and_then(|l| l.split("path = \"").nth(1))
        .and_then(|r| r.split('"').next())
        .map(|s| s.to_string())
}

/// items of one source file: `Type::fn`, `Enum::Variant`, `Struct.field` (the test module is skipped)
pub fn scan(rel: &str) -> Result<Vec<String>, String> {
    let root = dep_root().ok_or("no redis-sim path in harness/Cargo.toml")?;
    let path = format!("{}/{}", root, rel);
    let src = std::fs::read_to_string(&path).map_err(|e| format!("{}: {}", path, e))?;
    let mut items = Vec::new();
    #[derive(PartialEq)]
    enum Ctx {
        Top,
        Impl(String),
        Enum(String),
        Struct(String),
    }
    let mut ctx = Ctx::Top;
    let ident = |s: &str| -> String { s.chars().take_while(|c| c.is_alphanumeric() || *c == '_').collect() };
    for line in src.lines() {
        if line.starts_with("mod tests") || line.starts_with("#[cfg(test)]") {
            break;
        }
        let t = line.trim_start();
        let indent = line.len() - t.len();
        if indent == 0 {
            if line.starts_with('}') {
                ctx = Ctx::Top;
                continue;
            }
            if let Some(r) = line.strip_prefix("impl") {
                // `impl X {`, `impl<T> X<T> {`, `impl Trait for X {`
                let r = r.trim_start_matches(|c: char| c != ' ').trim_start();
                let name = if let Some(p) = r.find(" for ") { ident(&r[p + 5..]) } else { ident(r) };
                ctx = Ctx::Impl(name);
                continue;
            }
            if let Some(r) = line.strip_prefix("pub enum ") {
                ctx = Ctx::Enum(ident(r));
                continue;
            }
            if let Some(r) = line.strip_prefix("pub struct ") {
                let name = ident(r);
                if line.trim_end().ends_with('{') {
                    ctx = Ctx::Struct(name);
                }
                continue;
            }
            if let Some(r) = line.strip_prefix("pub fn ").or_else(|| line.strip_prefix("pub async fn ")) {
                items.push(format!("fn {}", ident(r)));
                continue;
            }
            if let Some(r) = line.strip_prefix("pub const ") {
                items.push(format!("const {}", ident(r)));
                continue;
            }
            continue;
        }
        match &ctx {
            Ctx::Impl(ty) if indent == 4 => {
                let r = t.strip_prefix("pub fn ").or_else(|| t.strip_prefix("pub async fn "));
                if let Some(r) = r {
                    items.push(format!("{}::{}", ty, ident(r)));
                }
            }
            Ctx::Enum(en) if indent == 4 => {
                let name = ident(t);
                if !name.is_empty() && name.chars().next().unwrap().is_uppercase() {
                    items.push(format!("{}::{}", en, name));
                }
            }
            Ctx::Struct(st) if indent == 4 => {
                if let Some(r) = t.strip_prefix("pub ") {
                    let name = ident(r);
                    if !name.is_empty() && r[name.len()..].starts_with(':') {
                        items.push(format!("{}.{}", st, name));
                    }
                }
            }
            _ => {}
        }
    }
    if items.is_empty() {
        return Err(format!("{}: no public item found (scanner out of date?)", path));
    }
    Ok(items)
}

/// every `.rs` file under `<dep root>/src`, once per process
fn all_sources() -> &'static Vec<(String, String)> {
    static ALL: std::sync::OnceLock<Vec<(String, String)>> = std::sync::OnceLock::new();
    ALL.get_or_init(|| {
        let mut out = Vec::new();
        let Some(root) = dep_root() else { return out };
        let mut stack = vec![std::path::PathBuf::from(format!("{}/src", root))];
        while let Some(dir) = stack.pop() {
            let Ok(rd) = std::fs::read_dir(&dir) else { continue };
            for e in rd.flatten() {
                let p = e.path();
                if p.is_dir() {
                    stack.push(p);
                } else if p.extension().map(|x| x == "rs").unwrap_or(false) {
                    if let Ok(t) = std::fs::read_to_string(&p) {
                        out.push((p.to_string_lossy().to_string(), t));
                    }
                }
            }
        }
        out
    })
}

/// Is the function `name` CALLED anywhere in the dependency's `src/` OUTSIDE the file that defines it
/// (`.name(` / `::name(` / a bare `name(` that is not a `fn name(` definition)?  A new public function
/// that no other file calls is either dead or a helper of the (mapped) functions of its own file: it
/// cannot reach a property undriven, so it is recorded, not failed.  A new public function that
/// another file of the crate calls is a new entry path: that fails the check.
/// (Comments are not stripped: a mention in a comment counts as a caller — the conservative side.)
fn has_caller(name: &str, defining_file: &str) -> bool {
    let pat = format!("{}(", name);
    for (path, text) in all_sources() {
        // callers inside the defining file are functions of the same anchored file: they are in the
        // coverage map themselves (driven, or flagged on their own), the new function is reached
        // through them
        if path.ends_with(defining_file) {
            continue;
        }
        let mut from = 0;
        while let Some(i) = text[from..].find(&pat) {
            let at = from + i;
            let before = &text[..at];
            let prev = before.chars().rev().next().unwrap_or(' ');
            let is_ident_char = prev.is_alphanumeric() || prev == '_';
            let is_def = before.trim_end().ends_with("fn");
            if !is_ident_char && !is_def {
                return true;
            }
            from = at + pat.len();
        }
    }
    false
}

/// compare the scanned items of `files` with the property's coverage map; record the table in the
/// evidence (`extra[title]`) and report unaccounted items — only those that can reach the
/// property: a new enum variant / public field always, a new public function only when something
/// in the crate calls it (an uncalled new `pub fn` is listed as `UNACCOUNTED (no caller in src/)`)
pub fn report(out: &mut Out, prop: &str, title: &str, files: &[&str], coverage: &dyn Fn(&str, &str) -> Option<&'static str>) {
    let mut table: BTreeMap<String, String> = BTreeMap::new();
    for f in files {
        match scan(f) {
            Err(e) => {
                out.violation(&format!("{}:coverage:source-scan-failed", prop), &format!("the source scan of {} failed: {}", f, e), json!({"file": f, "error": e}));
            }
            Ok(items) => {
                for it in items {
                    let key = format!("{}: {}", f, it);
                    match coverage(f, &it) {
                        Some(c) => {
                            table.insert(key, c.to_string());
                        }
                        None if {
                            // `Type::name` / `fn name`: a function; `Type.field` / variants are never "uncalled"
                            let fname = it.rsplit("::").next().unwrap_or(&it).trim_start_matches("fn ").to_string();
                            let is_fn = (it.contains("::") && fname.chars().next().map(|c| c.is_lowercase() || c == '_').unwrap_or(false)) || it.starts_with("fn ");
                            is_fn && !has_caller(&fname, f)
                        } => {
                            table.insert(key, "UNACCOUNTED (no caller outside its own file: dead, or a helper of mapped functions)".into());
                            out.count(&format!("coverage:{}:new-uncalled-pub-fn", prop));
                        }
                        None => {
                            table.insert(key, "UNACCOUNTED".into());
                            out.violation(
                                &format!("{}:coverage:{}:{}-not-driven", prop, f.rsplit('/').next().unwrap_or(f), it.replace(' ', "_")),
                                &format!("`{}` exists in {} (the source this harness was built against) but the harness neither drives it nor says why not", it, f),
                                json!({"file": f, "item": it}),
                            );
                        }
                    }
                }
            }
        }
    }
    out.count_n(&format!("coverage:{}:items-accounted", prop), table.values().filter(|v| !v.starts_with("UNACCOUNTED")).count() as u64);
    out.extra.insert(title.to_string(), json!(table));
}
