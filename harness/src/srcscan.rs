//! Enumerates, from the SOURCE the harness binary was built against (the `redis-sim` path
//! dependency of harness/Cargo.toml), the public surface of the files a property anchors:
//! `pub fn`s per `impl`, enum variants, `pub` struct fields.  A property's harness maps every name
//! to how it is driven (or why it is not); a name that exists in the source but not in that map is
//! a `…:coverage:<item>-not-driven` violation — a new fn / variant / config field cannot go
//! unnoticed.  A file that cannot be read or yields nothing is itself a violation.
use crate::out::Out;
use serde_json::json;
use std::collections::BTreeMap;

/// root of the dependency under test, as named by harness/Cargo.toml
pub fn dep_root() -> Option<String> {
    let manifest = std::fs::read_to_string(concat!(env!("CARGO_MANIFEST_DIR"), "/Cargo.toml")).ok()?;
    manifest
        .lines()
        .find(|l| l.starts_with("redis-sim"))
        .and_then(|l| l.split("path = \"").nth(1))
        .and_then(|r| r.split('"').next())
        .map(|s| s.to_string())
}

/// items of one source file: `Type::fn`, `Enum::Variant`, `Struct.field` (the test module is skipped)
pub fn scan(rel: &str) -> Result<Vec<String>, String> {
    let root = dep_root().ok_or("no redis-sim path in harness/Cargo.toml")?;
    let path = format!("{}/{}", root, rel);
    let src = std::fs::read_to_string(&path).map_err(|e| format!("{}: {}", path, e))?;
    let mut items = Vec::new();
    #[derive(PartialEq)]
    enum Ctx {
        Top,
        Impl(String),
        Enum(String),
        Struct(String),
    }
    let mut ctx = Ctx::Top;
    let ident = |s: &str| -> String { s.chars().take_while(|c| c.is_alphanumeric() || *c == '_').collect() };
    for line in src.lines() {
        if line.starts_with("mod tests") || line.starts_with("#[cfg(test)]") {
            break;
        }
        let t = line.trim_start();
        let indent = line.len() - t.len();
        if indent == 0 {
            if line.starts_with('}') {
                ctx = Ctx::Top;
                continue;
            }
            if let Some(r) = line.strip_prefix("impl") {
                // `impl X {`, `impl<T> X<T> {`, `impl Trait for X {`
                let r = r.trim_start_matches(|c: char| c != ' ').trim_start();
                let name = if let Some(p) = r.find(" for ") { ident(&r[p + 5..]) } else { ident(r) };
                ctx = Ctx::Impl(name);
                continue;
            }
            if let Some(r) = line.strip_prefix("pub enum ") {
                ctx = Ctx::Enum(ident(r));
                continue;
            }
            if let Some(r) = line.strip_prefix("pub struct ") {
                let name = ident(r);
                if line.trim_end().ends_with('{') {
                    ctx = Ctx::Struct(name);
                }
                continue;
            }
            if let Some(r) = line.strip_prefix("pub fn ").or_else(|| line.strip_prefix("pub async fn ")) {
                items.push(format!("fn {}", ident(r)));
                continue;
            }
            if let Some(r) = line.strip_prefix("pub const ") {
                items.push(format!("const {}", ident(r)));
                continue;
            }
            continue;
        }
        match &ctx {
            Ctx::Impl(ty) if indent == 4 => {
                let r = t.strip_prefix("pub fn ").or_else(|| t.strip_prefix("pub async fn "));
                if let Some(r) = r {
                    items.push(format!("{}::{}", ty, ident(r)));
                }
            }
            Ctx::Enum(en) if indent == 4 => {
                let name = ident(t);
                if !name.is_empty() && name.chars().next().unwrap().is_uppercase() {
                    items.push(format!("{}::{}", en, name));
                }
            }
            Ctx::Struct(st) if indent == 4 => {
                if let Some(r) = t.strip_prefix("pub ") {
                    let name = ident(r);
                    if !name.is_empty() && r[name.len()..].starts_with(':') {
                        items.push(format!("{}.{}", st, name));
                    }
                }
            }
            _ => {}
        }
    }
    if items.is_empty() {
        return Err(format!("{}: no public item found (scanner out of date?)", path));
    }
    Ok(items)
}

/// compare the scanned items of `files` with the property's coverage map; record the table in the
/// evidence (`extra[title]`) and report unaccounted items
pub fn report(out: &mut Out, prop: &str, title: &str, files: &[&str], coverage: &dyn Fn(&str, &str) -> Option<&'static str>) {
    let mut table: BTreeMap<String, String> = BTreeMap::new();
    for f in files {
        match scan(f) {
            Err(e) => {
                out.violation(&format!("{}:coverage:source-scan-failed", prop), &format!("the source scan of {} failed: {}", f, e), json!({"file": f, "error": e}));
            }
            Ok(items) => {
                for it in items {
                    let key = format!("{}: {}", f, it);
                    match coverage(f, &it) {
                        Some(c) => {
                            table.insert(key, c.to_string());
                        }
                        None => {
                            table.insert(key, "UNACCOUNTED".into());
                            out.violation(
                                &format!("{}:coverage:{}:{}-not-driven", prop, f.rsplit('/').next().unwrap_or(f), it.replace(' ', "_")),
                                &format!("`{}` exists in {} (the source this harness was built against) but the harness neither drives it nor says why not", it, f),
                                json!({"file": f, "item": it}),
                            );
                        }
                    }
                }
            }
        }
    }
    out.count_n(&format!("coverage:{}:items-accounted", prop), table.values().filter(|v| *v != "UNACCOUNTED").count() as u64);
    out.extra.insert(title.to_string(), json!(table));
}
