//! Shared part of the C01 / C17 harnesses: drives the REAL `CommandExecutor` (execute +
//! set_time / update_time_readonly), dumps the visible keyspace, encodes commands and replies
//! in the line protocol of `lean/RedisVerif/Driver/C01.lean`, generates command sequences.
//!
//! Line protocol (one op line per executed command):
//!   op   : `<now> <OP> <args…> ;; <dump of the implementation's visible keyspace AFTER the op>`
//!   impl : `<reply> | <same dump> | ro=<Command::is_read_only()>`
//! The model answers `<reply> | <dump of ITS post-state> | ro=<isReadOnly>` from its own state
//! and then ADOPTS the implementation's dump (resynchronisation: one conformance defect is
//! reported once, at the op where it happens, and does not cascade).
use crate::enc::{hex, key_cmp};
use crate::out::Out;
use crate::rng::Rng;
use redis_sim::redis::{Command, CommandExecutor, RespValue, Value, SDS};
use redis_sim::simulator::VirtualTime;
use serde_json::json;
use std::panic::{catch_unwind, AssertUnwindSafe};

pub const KEYS: [&str; 5] = ["a", "b", "c", "kk", "é"];
pub const BASE_MS: u64 = 1_000_000;

pub struct Sess {
    pub ex: CommandExecutor,
    pub now: u64,
    /// how the clock was last moved (Some(true) = set_time, Some(false) = update_time_readonly), not yet reported
    pub moved: Option<bool>,
    /// the configured `simulation_start_epoch_ms`: Unix time = virtual time + this
    pub epoch_ms: u64,
    /// entry point the NEXT `exec` uses (then back to `execute`)
    pub via: Via,
    /// the entry point the last `exec` really used
    pub last_entry: &'static str,
    /// the last eviction went through `evict_expired_direct` instead of `set_time`
    pub evict_direct: bool,
    /// the calls of the straight-line script the next EVAL consists of (set by the generator)
    pub script_parts: Option<Vec<Command>>,
    /// the executor transcription (`Model.Executor`, `XC` lines) follows this session: set by
    /// `reset` / `reset_with_epoch`, which emit the `XCFG` line
    pub xc: bool,
    /// every clock move since the last emitted op (the transcription needs all of them, also a
    /// `set_time` to the same instant: it evicts)
    pub pending_clock: Vec<(u64, &'static str)>,
    /// the NEXT command is compared with the executor transcription only (`XC`), not with the reference
    /// model: inputs on which Redis itself has no defined answer (signed overflow in its own arithmetic)
    pub xc_only: bool,
}

/// the public entry points of `CommandExecutor` that run a data command
#[derive(Clone, Copy, PartialEq, Debug)]
pub enum Via {
    Execute,
    /// `get_direct` / `set_direct` (plain GET / plain SET only)
    Direct,
    /// `execute_read` (read-only commands only)
    Read,
}

/// how the two epoch fields of the executor are configured (`ShardConfig`/`server.rs` set the
/// seconds, `sharded_actor.rs` sets both)
#[derive(Clone, Copy, Debug, PartialEq)]
pub enum EpochCfg {
    Zero,
    Secs(i64),
    Ms(i64),
    Both(i64, i64),
}

impl EpochCfg {
    pub fn ms(&self) -> u64 {
        match self {
            EpochCfg::Zero => 0,
            EpochCfg::Secs(s) => (*s as u64) * 1000,
            EpochCfg::Ms(m) | EpochCfg::Both(_, m) => *m as u64,
        }
    }
}

/// sorted-set values whose member map and skip list disagree, seen by `value_text` since the last drain
pub static ZSET_INCONSISTENT: std::sync::Mutex<Vec<String>> = std::sync::Mutex::new(Vec::new());

fn bcmp(a: &[u8], b: &[u8]) -> std::cmp::Ordering {
    (a.len(), a).cmp(&(b.len(), b))
}

pub fn score_text(f: f64) -> String {
    if f == f64::INFINITY {
        "inf".into()
    } else if f == f64::NEG_INFINITY {
        "-inf".into()
    } else if f.fract() == 0.0 && f.abs() < 9007199254740992.0 {
        format!("{}", f as i64)
    } else {
        format!("float:{:016x}", f.to_bits())
    }
}

impl Sess {
    pub fn new(now: u64) -> Sess {
        Sess::with_epoch(now, EpochCfg::Zero)
    }

    pub fn with_epoch(now: u64, cfg: EpochCfg) -> Sess {
        let mut ex = CommandExecutor::new();
        match cfg {
            EpochCfg::Zero => {}
            EpochCfg::Secs(s) => ex.set_simulation_start_epoch(s),
            EpochCfg::Ms(m) => ex.set_simulation_start_epoch_ms(m),
            EpochCfg::Both(s, m) => {
                ex.set_simulation_start_epoch(s);
                ex.set_simulation_start_epoch_ms(m);
            }
        }
        ex.set_time(VirtualTime::from_millis(now));
        Sess { ex, now, moved: None, epoch_ms: cfg.ms(), via: Via::Execute, last_entry: "execute", evict_direct: false, script_parts: None, xc: false, pending_clock: Vec::new(), xc_only: false }
    }

    /// Unix time in ms as the executor sees it (what the reference model calls `now`)
    pub fn unix(&self) -> u64 {
        self.now + self.epoch_ms
    }

    /// move the virtual clock: `evict` = `set_time` (active eviction, what ShardActor does before
    /// every command), else `update_time_readonly` (clock only; expiry is then lazy)
    pub fn set_now(&mut self, t: u64, evict: bool) {
        self.moved = if t != self.now || !evict { Some(evict) } else { None };
        self.now = t;
        if self.xc {
            self.pending_clock.push((t, if evict { if self.evict_direct { "evict_expired_direct" } else { "set_time" } } else { "update_time_readonly" }));
        }
        if evict {
            if self.evict_direct {
                self.ex.evict_expired_direct(VirtualTime::from_millis(t));
            } else {
                self.ex.set_time(VirtualTime::from_millis(t));
            }
        } else {
            self.ex.update_time_readonly(VirtualTime::from_millis(t));
        }
    }

    pub fn exec(&mut self, cmd: &Command) -> Option<RespValue> {
        let via = std::mem::replace(&mut self.via, Via::Execute);
        let ex = &mut self.ex;
        match (via, cmd) {
            (Via::Direct, Command::Get(k)) => {
                self.last_entry = "get_direct";
                catch_unwind(AssertUnwindSafe(|| ex.get_direct(k))).ok()
            }
            (Via::Direct, Command::Set { key, value, ex: None, px: None, exat: None, pxat: None, nx: false, xx: false, get: false, keepttl: false }) => {
                self.last_entry = "set_direct";
                catch_unwind(AssertUnwindSafe(|| ex.set_direct(key, value.as_bytes()))).ok()
            }
            (Via::Read, c) if c.is_read_only() => {
                self.last_entry = "execute_read";
                catch_unwind(AssertUnwindSafe(|| ex.execute_read(c))).ok()
            }
            _ => {
                self.last_entry = "execute";
                catch_unwind(AssertUnwindSafe(|| ex.execute(cmd))).ok()
            }
        }
    }

    pub fn pttl(&mut self, key: &str) -> i64 {
        match self.ex.execute(&Command::Pttl(key.to_string())) {
            RespValue::Integer(i) => i,
            _ => -3,
        }
    }

    /// the visible keyspace: sorted keys, remaining TTL (PTTL), type and value per type.
    /// Uses only non-mutating entry points (`get_data`, `execute_readonly(EXISTS)`, `PTTL`), so
    /// lazily-expired-but-present entries stay where they are.
    pub fn dump(&mut self) -> String {
        let mut keys: Vec<String> = self.ex.get_data().keys().cloned().collect();
        keys.sort_by(|a, b| key_cmp(a, b));
        let mut parts: Vec<String> = Vec::new();
        let mut n = 0;
        for k in keys {
            let vis = matches!(
                self.ex.execute_readonly(&Command::Exists(vec![k.clone()])),
                RespValue::Integer(1)
            );
            if !vis {
                continue;
            }
            let ttl = self.pttl(&k);
            let v = match self.ex.get_data().get(&k) {
                Some(v) => value_text(v),
                None => continue,
            };
            n += 1;
            parts.push(format!("{} {} {}", hex(k.as_bytes()), ttl, v));
        }
        let mut s = n.to_string();
        for p in parts {
            s.push(' ');
            s.push_str(&p);
        }
        s
    }
}

impl Sess {
    /// the PHYSICAL content of `data` (every key, also those past their deadline but not evicted):
    /// `<n> {<key> <pttl | -1 | dead> <value>}`; non-mutating entry points only
    pub fn phys_dump(&mut self) -> String {
        let mut keys: Vec<String> = self.ex.get_data().keys().cloned().collect();
        keys.sort_by(|a, b| key_cmp(a, b));
        let mut s = keys.len().to_string();
        for k in keys {
            let vis = matches!(self.ex.execute_readonly(&Command::Exists(vec![k.clone()])), RespValue::Integer(1));
            let ttl = if vis { self.pttl(&k).to_string() } else { "dead".to_string() };
            let v = self.ex.get_data().get(&k).map(value_text).unwrap_or_default();
            s.push_str(&format!(" {} {} {}", hex(k.as_bytes()), ttl, v));
        }
        s
    }

    /// `expirations.len()` as INFO reports it (`keys_with_expiration`)
    pub fn nexp(&mut self) -> String {
        match self.ex.execute(&Command::Info) {
            RespValue::BulkString(Some(b)) => String::from_utf8_lossy(&b)
                .lines()
                .find_map(|l| l.strip_prefix("keys_with_expiration:").map(|x| x.trim().to_string()))
                .unwrap_or_else(|| "?".into()),
            _ => "?".into(),
        }
    }
}

pub fn value_text(v: &Value) -> String {
    match v {
        Value::String(s) => format!("S {}", hex(s.as_bytes())),
        Value::List(l) => {
            let items = l.range(0, -1);
            let mut s = format!("L {}", items.len());
            for i in items {
                s.push(' ');
                s.push_str(&hex(i.as_bytes()));
            }
            s
        }
        Value::Set(st) => {
            let mut m: Vec<Vec<u8>> = st.members().iter().map(|x| x.as_bytes().to_vec()).collect();
            m.sort_by(|a, b| bcmp(a, b));
            let mut s = format!("T {}", m.len());
            for i in m {
                s.push(' ');
                s.push_str(&hex(&i));
            }
            s
        }
        Value::Hash(h) => {
            let mut m: Vec<(Vec<u8>, Vec<u8>)> = h
                .get_all()
                .iter()
                .map(|(f, v)| (f.as_bytes().to_vec(), v.as_bytes().to_vec()))
                .collect();
            m.sort_by(|a, b| bcmp(&a.0, &b.0));
            let mut s = format!("H {}", m.len());
            for (f, v) in m {
                s.push_str(&format!(" {} {}", hex(&f), hex(&v)));
            }
            s
        }
        Value::SortedSet(z) => {
            let items = z.range(0, -1);
            // observation: the member map (ZSCORE, ZCARD), the skip list (ZRANGE, ZRANK) and its
            // length field must describe the same set
            let consistent = z.len() == items.len()
                && z.skiplist_len() == items.len()
                && z.is_sorted()
                && items.iter().enumerate().all(|(i, (m, sc))| z.score(m) == Some(*sc) && z.rank(m) == Some(i))
                && z.iter().count() == items.len();
            if !consistent {
                ZSET_INCONSISTENT.lock().unwrap().push(format!(
                    "len()={} skiplist_len()={} is_sorted()={} range(0,-1)={:?}",
                    z.len(),
                    z.skiplist_len(),
                    z.is_sorted(),
                    items.iter().map(|(m, sc)| (hex(m.as_bytes()), score_text(*sc), z.score(m).map(score_text), z.rank(m))).collect::<Vec<_>>()
                ));
            }
            let mut s = format!("Z {}", items.len());
            for (m, sc) in items {
                s.push_str(&format!(" {} {}", hex(m.as_bytes()), score_text(sc)));
            }
            s
        }
        Value::Null => "N".into(),
    }
}

/// error class of an error reply (the correspondence compares the class, not the text)
pub fn err_class(e: &str) -> String {
    let t = e;
    if t.starts_with("WRONGTYPE") {
        "wrongtype".into()
    } else if t.contains("not an integer or out of range") {
        "notint".into()
    } else if t.contains("would overflow") || t == "ERR value is out of range" {
        // DECRBY k i64::MIN: Redis says "ERR decrement would overflow", the executor
        // "ERR value is out of range" — same class (text equality is C16's business)
        "overflow".into()
    } else if t.contains("invalid expire time") {
        "invalidexpire".into()
    } else if t.contains("not compatible") {
        "badflags".into()
    } else if t.contains("no such key") {
        "nosuchkey".into()
    } else if t.contains("hash value is not an integer") {
        "hashnotint".into()
    } else if t.contains("index out of range") {
        "indexrange".into()
    } else if t.contains("exceeds maximum allowed size") {
        "toolong".into()
    } else if t.contains("syntax error") {
        "syntax".into()
    } else if t.contains("not a valid float") || t.contains("is not a float") {
        "notfloat".into()
    } else if t.contains("can't be converted into double") {
        "notdouble".into()
    } else if t.contains("out of range, must be positive") {
        "outofrange".into()
    } else {
        let s: String = t
            .chars()
            .map(|c| if c.is_ascii_alphanumeric() { c.to_ascii_lowercase() } else { '_' })
            .collect();
        format!("other:{}", s)
    }
}

fn elem_text(r: &RespValue) -> String {
    match r {
        RespValue::BulkString(Some(b)) => format!("${}", hex(b)),
        RespValue::BulkString(None) => "_".into(),
        RespValue::Integer(i) => format!(":{}", i),
        RespValue::SimpleString(s) => format!("+{}", s),
        RespValue::Error(e) => format!("-{}", err_class(e)),
        RespValue::Array(None) => "*-1".into(),
        RespValue::Array(Some(v)) => {
            let inner: Vec<String> = v.iter().map(elem_text).collect();
            format!("[{}]", inner.join(","))
        }
    }
}

fn bulk_bytes(r: &RespValue) -> Vec<u8> {
    match r {
        RespValue::BulkString(Some(b)) => b.clone(),
        _ => vec![],
    }
}

/// how a multi-bulk reply is canonicalised before comparison
#[derive(Clone, Copy, PartialEq)]
pub enum Order {
    AsIs,
    /// unordered collection of bulks: sort by (length, bytes)
    Sorted,
    /// unordered field/value pairs: sort pairs by field
    SortedPairs,
}

pub fn reply_order(cmd: &Command) -> Order {
    match cmd {
        Command::Keys(_) | Command::SMembers(_) | Command::HKeys(_) | Command::HVals(_) => Order::Sorted,
        Command::SPop(_, Some(_)) => Order::Sorted,
        Command::HGetAll(_) => Order::SortedPairs,
        _ => Order::AsIs,
    }
}

pub fn reply_text(r: &RespValue, ord: Order) -> String {
    match r {
        RespValue::Array(Some(v)) => {
            let mut items: Vec<RespValue> = v.clone();
            match ord {
                Order::AsIs => {}
                Order::Sorted => items.sort_by(|a, b| bcmp(&bulk_bytes(a), &bulk_bytes(b))),
                Order::SortedPairs => {
                    let mut pairs: Vec<(RespValue, RespValue)> =
                        items.chunks(2).filter(|c| c.len() == 2).map(|c| (c[0].clone(), c[1].clone())).collect();
                    pairs.sort_by(|a, b| bcmp(&bulk_bytes(&a.0), &bulk_bytes(&b.0)));
                    let odd = if items.len() % 2 == 1 { items.last().cloned() } else { None };
                    items = pairs.into_iter().flat_map(|(a, b)| vec![a, b]).collect();
                    if let Some(o) = odd {
                        items.push(o);
                    }
                }
            }
            let mut s = format!("*{}", items.len());
            for i in &items {
                s.push(' ');
                s.push_str(&elem_text(i));
            }
            s
        }
        other => elem_text(other),
    }
}

pub fn is_error(r: &RespValue) -> bool {
    matches!(r, RespValue::Error(_))
}

fn hk(k: &str) -> String {
    hex(k.as_bytes())
}
fn hv(v: &SDS) -> String {
    hex(v.as_bytes())
}
fn flags(nx: bool, xx: bool, gt: bool, lt: bool) -> String {
    format!("{}{}{}{}", nx as u8, xx as u8, gt as u8, lt as u8)
}

/// op text of a command for the model driver; `None` = not modelled (the op becomes an ADOPT
/// line: the model takes over the implementation's state without judging the command)
pub fn enc_cmd(cmd: &Command, reply: &RespValue) -> Option<String> {
    Some(match cmd {
        Command::Get(k) => format!("GET {}", hk(k)),
        Command::Set { key, value, ex, px, exat, pxat, nx, xx, get, keepttl } => {
            let nexp = [ex.is_some(), px.is_some(), exat.is_some(), pxat.is_some(), *keepttl]
                .iter()
                .filter(|b| **b)
                .count();
            if nexp > 1 || (*nx && *xx) {
                return None; // a syntax error in Redis; not producible through a Redis-conformant parser
            }
            let cond = if *nx { "NX" } else if *xx { "XX" } else { "-" };
            let exp = if let Some(v) = ex {
                format!("EX {}", v)
            } else if let Some(v) = px {
                format!("PX {}", v)
            } else if let Some(v) = exat {
                format!("EXAT {}", v)
            } else if let Some(v) = pxat {
                format!("PXAT {}", v)
            } else if *keepttl {
                "KEEPTTL".to_string()
            } else {
                "-".to_string()
            };
            format!("SET {} {} {} {} {}", hk(key), hv(value), cond, exp, *get as u8)
        }
        Command::SetNx(k, v) => format!("SETNX {} {}", hk(k), hv(v)),
        Command::Append(k, v) => format!("APPEND {} {}", hk(k), hv(v)),
        Command::GetSet(k, v) => format!("GETSET {} {}", hk(k), hv(v)),
        Command::StrLen(k) => format!("STRLEN {}", hk(k)),
        Command::MGet(ks) => {
            let mut s = format!("MGET {}", ks.len());
            for k in ks {
                s.push(' ');
                s.push_str(&hk(k));
            }
            s
        }
        Command::MSet(kvs) | Command::MSetNx(kvs) => {
            let mut s = format!("{} {}", if matches!(cmd, Command::MSet(_)) { "MSET" } else { "MSETNX" }, kvs.len());
            for (k, v) in kvs {
                s.push_str(&format!(" {} {}", hk(k), hv(v)));
            }
            s
        }
        Command::GetRange(k, a, b) => format!("GETRANGE {} {} {}", hk(k), a, b),
        Command::SetRange(k, o, v) => format!("SETRANGE {} {} {}", hk(k), o, hv(v)),
        Command::GetEx { key, ex, px, exat, pxat, persist } => {
            let n = [ex.is_some(), px.is_some(), exat.is_some(), pxat.is_some(), *persist].iter().filter(|b| **b).count();
            if n > 1 {
                return None;
            }
            let o = if let Some(v) = ex {
                format!("EX {}", v)
            } else if let Some(v) = px {
                format!("PX {}", v)
            } else if let Some(v) = exat {
                format!("EXAT {}", v)
            } else if let Some(v) = pxat {
                format!("PXAT {}", v)
            } else if *persist {
                "PERSIST".to_string()
            } else {
                "-".to_string()
            };
            format!("GETEX {} {}", hk(key), o)
        }
        Command::GetDel(k) => format!("GETDEL {}", hk(k)),
        Command::Incr(k) => format!("INCR {}", hk(k)),
        Command::Decr(k) => format!("DECR {}", hk(k)),
        Command::IncrBy(k, d) => format!("INCRBY {} {}", hk(k), d),
        Command::DecrBy(k, d) => format!("DECRBY {} {}", hk(k), d),
        Command::Del(ks) | Command::Exists(ks) => {
            let mut s = format!("{} {}", if matches!(cmd, Command::Del(_)) { "DEL" } else { "EXISTS" }, ks.len());
            for k in ks {
                s.push(' ');
                s.push_str(&hk(k));
            }
            s
        }
        Command::TypeOf(k) => format!("TYPE {}", hk(k)),
        Command::Keys(p) if p == "*" => "KEYS".to_string(),
        Command::DbSize => "DBSIZE".to_string(),
        Command::FlushDb => "FLUSHDB".to_string(),
        Command::FlushAll => "FLUSHALL".to_string(),
        Command::RandomKey => match reply {
            // a relation: the op carries the implementation's choice, the model validates it
            RespValue::BulkString(Some(b)) => format!("RANDOMKEY {}", hex(b)),
            _ => "RANDOMKEY -".to_string(),
        },
        Command::Rename(a, b) => format!("RENAME {} {}", hk(a), hk(b)),
        Command::RenameNx(a, b) => format!("RENAMENX {} {}", hk(a), hk(b)),
        Command::Expire { key, seconds, nx, xx, gt, lt } => {
            format!("EXPIRE {} {} {}", hk(key), seconds, flags(*nx, *xx, *gt, *lt))
        }
        Command::PExpire { key, milliseconds, nx, xx, gt, lt } => {
            format!("PEXPIRE {} {} {}", hk(key), milliseconds, flags(*nx, *xx, *gt, *lt))
        }
        Command::ExpireAt(k, t) => format!("EXPIREAT {} {} 0000", hk(k), t),
        Command::PExpireAt(k, t) => format!("PEXPIREAT {} {} 0000", hk(k), t),
        Command::Ttl(k) => format!("TTL {}", hk(k)),
        Command::Pttl(k) => format!("PTTL {}", hk(k)),
        Command::ExpireTime(k) => format!("EXPIRETIME {}", hk(k)),
        Command::PExpireTime(k) => format!("PEXPIRETIME {}", hk(k)),
        Command::Persist(k) => format!("PERSIST {}", hk(k)),
        Command::LPush(k, vs) | Command::RPush(k, vs) => {
            if vs.is_empty() {
                return None;
            }
            let mut s = format!("{} {} {}", if matches!(cmd, Command::LPush(..)) { "LPUSH" } else { "RPUSH" }, hk(k), vs.len());
            for v in vs {
                s.push(' ');
                s.push_str(&hv(v));
            }
            s
        }
        Command::SAdd(k, ms) | Command::SRem(k, ms) => {
            if ms.is_empty() {
                return None;
            }
            let mut s = format!("{} {} {}", if matches!(cmd, Command::SAdd(..)) { "SADD" } else { "SREM" }, hk(k), ms.len());
            for m in ms {
                s.push(' ');
                s.push_str(&hv(m));
            }
            s
        }
        Command::SMembers(k) => format!("SMEMBERS {}", hk(k)),
        Command::SIsMember(k, m) => format!("SISMEMBER {} {}", hk(k), hv(m)),
        Command::SCard(k) => format!("SCARD {}", hk(k)),
        Command::SPop(k, count) => {
            // a relation: the op carries the members the implementation chose (sorted)
            let mut chosen: Vec<Vec<u8>> = match reply {
                RespValue::BulkString(Some(b)) => vec![b.clone()],
                RespValue::Array(Some(v)) => v.iter().map(bulk_bytes).collect(),
                _ => vec![],
            };
            chosen.sort_by(|a, b| bcmp(a, b));
            let mut s = format!("SPOP {} {} {}", hk(k), count.map(|c| c.to_string()).unwrap_or("-".into()), chosen.len());
            for c in chosen {
                s.push(' ');
                s.push_str(&hex(&c));
            }
            s
        }
        Command::HSet(k, fvs) => {
            if fvs.is_empty() {
                return None;
            }
            let mut s = format!("HSET {} {}", hk(k), fvs.len());
            for (f, v) in fvs {
                s.push_str(&format!(" {} {}", hv(f), hv(v)));
            }
            s
        }
        Command::HGet(k, f) => format!("HGET {} {}", hk(k), hv(f)),
        Command::HDel(k, fs) => {
            if fs.is_empty() {
                return None;
            }
            let mut s = format!("HDEL {} {}", hk(k), fs.len());
            for f in fs {
                s.push(' ');
                s.push_str(&hv(f));
            }
            s
        }
        Command::HGetAll(k) => format!("HGETALL {}", hk(k)),
        Command::HKeys(k) => format!("HKEYS {}", hk(k)),
        Command::HVals(k) => format!("HVALS {}", hk(k)),
        Command::HLen(k) => format!("HLEN {}", hk(k)),
        Command::HExists(k, f) => format!("HEXISTS {} {}", hk(k), hv(f)),
        Command::HIncrBy(k, f, d) => format!("HINCRBY {} {} {}", hk(k), hv(f), d),
        Command::ZAdd { key, pairs, nx, xx, gt, lt, ch } => {
            if pairs.is_empty() || (*nx && (*xx || *gt || *lt)) || (*gt && *lt) {
                return None;
            }
            let mut s = format!("ZADD {} {}{}{}{}{} {}", hk(key), *nx as u8, *xx as u8, *gt as u8, *lt as u8, *ch as u8, pairs.len());
            for (sc, m) in pairs {
                let t = score_text(*sc);
                if t.starts_with("float") {
                    return None; // non-integral scores are outside the model
                }
                s.push_str(&format!(" {} {}", hv(m), t));
            }
            s
        }
        Command::ZRem(k, ms) => {
            if ms.is_empty() {
                return None;
            }
            let mut s = format!("ZREM {} {}", hk(k), ms.len());
            for m in ms {
                s.push(' ');
                s.push_str(&hv(m));
            }
            s
        }
        Command::ZRange(k, a, b, w) => format!("ZRANGE {} {} {} {}", hk(k), a, b, *w as u8),
        Command::ZRevRange(k, a, b, w) => format!("ZREVRANGE {} {} {} {}", hk(k), a, b, *w as u8),
        Command::ZScore(k, m) => format!("ZSCORE {} {}", hk(k), hv(m)),
        Command::ZRank(k, m) => format!("ZRANK {} {}", hk(k), hv(m)),
        Command::ZCard(k) => format!("ZCARD {}", hk(k)),
        Command::ZCount(k, lo, hi) => format!("ZCOUNT {} {} {}", hk(k), bound_token(lo)?, bound_token(hi)?),
        Command::ZRangeByScore { key, min, max, with_scores, limit } => format!(
            "ZRANGEBYSCORE {} {} {} {} {}",
            hk(key),
            bound_token(min)?,
            bound_token(max)?,
            *with_scores as u8,
            match limit {
                None => "-".to_string(),
                Some((o, c)) => format!("{} {}", o, c),
            }
        ),
        Command::Sort { key, store } => format!("SORT {} {}", hk(key), store.as_ref().map(|d| hk(d)).unwrap_or("-".into())),
        Command::LPop(k) => format!("LPOP {}", hk(k)),
        Command::RPop(k) => format!("RPOP {}", hk(k)),
        Command::LLen(k) => format!("LLEN {}", hk(k)),
        Command::LIndex(k, i) => format!("LINDEX {} {}", hk(k), i),
        Command::LRange(k, a, b) => format!("LRANGE {} {} {}", hk(k), a, b),
        Command::LSet(k, i, v) => format!("LSET {} {} {}", hk(k), i, hv(v)),
        Command::LTrim(k, a, b) => format!("LTRIM {} {} {}", hk(k), a, b),
        Command::RPopLPush(a, b) => format!("RPOPLPUSH {} {}", hk(a), hk(b)),
        Command::LMove { source, dest, wherefrom, whereto } => {
            let ok = |x: &str| x == "LEFT" || x == "RIGHT";
            if !ok(wherefrom) || !ok(whereto) {
                return None;
            }
            format!("LMOVE {} {} {} {}", hk(source), hk(dest), wherefrom, whereto)
        }
        _ => return None,
    })
}

/// op text of the commands of `Model.RedisX` (understood by the C01 / C17 driver only: the other
/// users of `enc_cmd` keep treating these variants as not modelled)
pub fn enc_xcmd(cmd: &Command) -> Option<String> {
    Some(match cmd {
        Command::SetBit(k, off, bit) => format!("X SETBIT {} {} {}", hk(k), off, bit),
        Command::GetBit(k, off) => format!("X GETBIT {} {}", hk(k), off),
        Command::BatchSet(kvs) => {
            let mut s = format!("X BATCHSET {}", kvs.len());
            for (k, v) in kvs {
                s.push_str(&format!(" {} {}", hk(k), hv(v)));
            }
            s
        }
        Command::BatchGet(ks) => {
            let mut s = format!("X BATCHGET {}", ks.len());
            for k in ks {
                s.push(' ');
                s.push_str(&hk(k));
            }
            s
        }
        Command::Keys(p) => format!("X KEYS {}", hex(p.as_bytes())),
        _ => return None,
    })
}


// ------------------------------------------------------------------------------------------
// straight-line scripts

fn b(x: &str) -> Vec<u8> {
    x.as_bytes().to_vec()
}

/// the argument vector of `redis.call` for a command the Lua translator (`parse_lua_command_bytes`)
/// understands in exactly the form the RESP parser would produce it; `None` = not used inside generated
/// scripts (the commands the translator does not know are C16's finding `C16:lua:command-unknown-to-translator`)
pub fn lua_args(cmd: &Command) -> Option<Vec<Vec<u8>>> {
    let k = |x: &String| x.as_bytes().to_vec();
    let v = |x: &SDS| x.as_bytes().to_vec();
    let n = |x: i64| x.to_string().into_bytes();
    Some(match cmd {
        Command::Get(a) => vec![b("GET"), k(a)],
        Command::Set { key, value, ex: None, px: None, exat: None, pxat: None, nx: false, xx: false, get: false, keepttl: false } => {
            vec![b("SET"), k(key), v(value)]
        }
        Command::Set { key, value, ex: Some(e), px: None, exat: None, pxat: None, nx: false, xx: false, get: false, keepttl: false } => {
            vec![b("SET"), k(key), v(value), b("EX"), n(*e)]
        }
        Command::Set { key, value, ex: None, px: Some(e), exat: None, pxat: None, nx: false, xx: false, get: false, keepttl: false } => {
            vec![b("SET"), k(key), v(value), b("PX"), n(*e)]
        }
        Command::Incr(a) => vec![b("INCR"), k(a)],
        Command::Decr(a) => vec![b("DECR"), k(a)],
        Command::IncrBy(a, d) => vec![b("INCRBY"), k(a), n(*d)],
        Command::Del(ks) if !ks.is_empty() => std::iter::once(b("DEL")).chain(ks.iter().map(k)).collect(),
        Command::Exists(ks) if !ks.is_empty() => std::iter::once(b("EXISTS")).chain(ks.iter().map(k)).collect(),
        Command::TypeOf(a) => vec![b("TYPE"), k(a)],
        Command::Ttl(a) => vec![b("TTL"), k(a)],
        Command::Expire { key, seconds, nx: false, xx: false, gt: false, lt: false } => vec![b("EXPIRE"), k(key), n(*seconds)],
        Command::LPush(a, vs) if !vs.is_empty() => [b("LPUSH"), k(a)].into_iter().chain(vs.iter().map(v)).collect(),
        Command::RPush(a, vs) if !vs.is_empty() => [b("RPUSH"), k(a)].into_iter().chain(vs.iter().map(v)).collect(),
        Command::LPop(a) => vec![b("LPOP"), k(a)],
        Command::RPop(a) => vec![b("RPOP"), k(a)],
        Command::LLen(a) => vec![b("LLEN"), k(a)],
        Command::LRange(a, i, j) => vec![b("LRANGE"), k(a), n(*i as i64), n(*j as i64)],
        Command::RPopLPush(a, d) => vec![b("RPOPLPUSH"), k(a), k(d)],
        Command::SAdd(a, ms) if !ms.is_empty() => [b("SADD"), k(a)].into_iter().chain(ms.iter().map(v)).collect(),
        Command::SRem(a, ms) if !ms.is_empty() => [b("SREM"), k(a)].into_iter().chain(ms.iter().map(v)).collect(),
        Command::SIsMember(a, m) => vec![b("SISMEMBER"), k(a), v(m)],
        Command::HSet(a, fvs) if !fvs.is_empty() => [b("HSET"), k(a)].into_iter().chain(fvs.iter().flat_map(|(f, x)| [v(f), v(x)])).collect(),
        Command::HGet(a, f) => vec![b("HGET"), k(a), v(f)],
        Command::HDel(a, fs) if !fs.is_empty() => [b("HDEL"), k(a)].into_iter().chain(fs.iter().map(v)).collect(),
        Command::HIncrBy(a, f, d) => vec![b("HINCRBY"), k(a), v(f), n(*d)],
        Command::ZAdd { key, pairs, nx: false, xx: false, gt: false, lt: false, ch: false } if !pairs.is_empty() && pairs.iter().all(|(sc, _)| sc.is_finite()) => {
            [b("ZADD"), k(key)].into_iter().chain(pairs.iter().flat_map(|(sc, m)| [n(*sc as i64), v(m)])).collect()
        }
        Command::ZRem(a, ms) if !ms.is_empty() => [b("ZREM"), k(a)].into_iter().chain(ms.iter().map(v)).collect(),
        Command::ZCard(a) => vec![b("ZCARD"), k(a)],
        Command::ZScore(a, m) => vec![b("ZSCORE"), k(a), v(m)],
        _ => return None,
    })
}

/// `EVAL` of the straight-line script over `parts`: every argument travels through ARGV (binary
/// safe), the script text is `redis.call(ARGV[1],ARGV[2]); …; return 'done'`
pub fn script_of(parts: &[Command]) -> Option<Command> {
    let mut text = String::new();
    let mut args: Vec<SDS> = Vec::new();
    for p in parts {
        let a = lua_args(p)?;
        // a non-integral score would need float formatting; members / values are bytes
        let idx: Vec<String> = (0..a.len()).map(|i| format!("ARGV[{}]", args.len() + i + 1)).collect();
        text.push_str(&format!("redis.call({}); ", idx.join(",")));
        args.extend(a.into_iter().map(SDS::new));
    }
    text.push_str("return 'done'");
    Some(Command::Eval { script: text, keys: vec![], args })
}

/// op text of a straight-line script (`None` if a part has no op text)
pub fn enc_script(parts: &[Command]) -> Option<String> {
    let mut s = format!("SCRIPT {}", parts.len());
    for p in parts {
        s.push(' ');
        s.push_str(&enc_cmd(p, &RespValue::BulkString(None))?);
        s.push_str(" &&");
    }
    Some(s)
}

// ------------------------------------------------------------------------------------------
// entry points of `CommandExecutor` (derived from the source by build.rs) and how they are driven

include!(concat!(env!("OUT_DIR"), "/command_api_gen.rs"));

pub fn executor_fn_coverage(name: &str) -> Option<&'static str> {
    Some(match name {
        "new" => "driven: every session",
        "with_shared_script_cache" | "set_shared_script_cache" => "NOT part of C01/C17: script cache plumbing (C16 drives EVAL/EVALSHA through both caches)",
        "set_simulation_start_epoch" | "set_simulation_start_epoch_ms" => "driven: generated configuration of a session (0, 1 s, a present-day epoch, a far-future epoch; seconds only, ms only, both with an ms value that is not a multiple of 1000)",
        "set_time" => "driven: clock moves with active eviction",
        "update_time_readonly" => "driven: clock moves without eviction (lazy expiry)",
        "get_current_time" => "accessor",
        "get_direct" => "driven: plain GET through the fast path (model: GET)",
        "set_direct" => "driven: plain SET through the fast path (model: SET without options)",
        "evict_expired_direct" => "driven: clock moves with active eviction through the TTL-manager entry point",
        "get_data" => "accessor: used by the dump",
        "execute_read" => "driven: read-only commands (model: the command itself)",
        "execute_readonly" => "driven: EXISTS in every dump; C17 sweep calls it for every command classified read-only (snapshot must not move)",
        "execute" => "driven: every command",
        _ => return None,
    })
}

pub fn report_executor_api(out: &mut Out, prop: &str) {
    let mut table: std::collections::BTreeMap<String, String> = std::collections::BTreeMap::new();
    for f in EXECUTOR_PUB_FNS {
        match executor_fn_coverage(f) {
            Some(c) => {
                if c.starts_with("driven") && matches!(*f, "get_direct" | "set_direct" | "execute_read" | "evict_expired_direct") {
                    let n = out.dist.get(&format!("entry:{}", f)).copied().unwrap_or(0);
                    if n == 0 {
                        eprintln!("entry point {} is listed as driven but this run never called it", f);
                        std::process::exit(3);
                    }
                    table.insert(f.to_string(), format!("{} [{} calls]", c, n));
                } else {
                    table.insert(f.to_string(), c.to_string());
                }
            }
            None => {
                table.insert(f.to_string(), "UNACCOUNTED".into());
                out.violation(
                    &format!("{}:coverage:executor-fn-not-driven:{}", prop, f),
                    &format!("`pub fn {}` of `impl CommandExecutor` (src/redis/executor/mod.rs) is neither driven nor listed with a reason (harness/src/redisx.rs executor_fn_coverage)", f),
                    json!({"name": f}),
                );
            }
        }
    }
    for f in EXECUTOR_ACCESSOR_FNS {
        table.insert(f.to_string(), executor_fn_coverage(f).unwrap_or("accessor (derived: `&self`, no RespValue in the signature — cannot change the keyspace or produce a reply)").to_string());
    }
    out.extra.insert("executor_api_coverage(derived from src/redis/executor/mod.rs by build.rs)".into(), json!(table));
}

// ------------------------------------------------------------------------------------------
// coverage table of the `Command` enum
//
// EVERY variant of `redis_sim::redis::Command` is classified here by a match WITHOUT a wildcard
// arm: a variant added to the enum breaks the BUILD of this harness, which ./check reports as
// `harness-build-failed` (with rustc's "pattern `Command::X` not covered").  That is the chosen
// mechanism for "the real enum gained a variant the table does not know".
//   Modelled      — in the reference model M7 (`Model.Redis`) and in the C01/C17 generators
//   OracleOnly    — not modelled (reason given); the C17 snapshot oracles (error ⇒ no change,
//                   read-only ⇒ no change) still run on it: they need no model
//   NotExecuted   — not even executed by the sweep (reason given)
#[derive(Clone, Copy, PartialEq, Debug)]
pub enum Cover {
    Modelled,
    OracleOnly(&'static str),
    NotExecuted(&'static str),
}

pub fn variant_info(c: &Command) -> (&'static str, Cover) {
    use Cover::*;
    const STUB: &str = "stub that answers a constant / server introspection, no keyspace semantics to model";
    const CONN: &str = "handled at the connection level (ACL / auth state), the executor only answers a constant";
    const TXN: &str = "transaction state machine (queue / watch set), subject of C05; no direct keyspace effect";
    const SCRIPT: &str = "script cache only, no keyspace effect; scripting is covered by C16/C02";
    match c {
        Command::Get(_) => ("Get", Modelled),
        Command::Set { .. } => ("Set", Modelled),
        Command::Append(_, _) => ("Append", Modelled),
        Command::GetSet(_, _) => ("GetSet", Modelled),
        Command::StrLen(_) => ("StrLen", Modelled),
        Command::MGet(_) => ("MGet", Modelled),
        Command::MSet(_) => ("MSet", Modelled),
        Command::MSetNx(_) => ("MSetNx", Modelled),
        Command::BatchSet(_) => ("BatchSet", Modelled), // Model.RedisX
        Command::BatchGet(_) => ("BatchGet", Modelled), // Model.RedisX
        Command::GetRange(_, _, _) => ("GetRange", Modelled),
        Command::SetRange(_, _, _) => ("SetRange", Modelled),
        Command::SetBit(_, _, _) => ("SetBit", Modelled), // Model.RedisX
        Command::GetBit(_, _) => ("GetBit", Modelled), // Model.RedisX
        Command::GetEx { .. } => ("GetEx", Modelled),
        Command::GetDel(_) => ("GetDel", Modelled),
        Command::Incr(_) => ("Incr", Modelled),
        Command::Decr(_) => ("Decr", Modelled),
        Command::IncrBy(_, _) => ("IncrBy", Modelled),
        Command::DecrBy(_, _) => ("DecrBy", Modelled),
        Command::IncrByFloat(_, _) => ("IncrByFloat", OracleOnly("float formatting is outside the model")),
        Command::Del(_) => ("Del", Modelled),
        Command::Exists(_) => ("Exists", Modelled),
        Command::TypeOf(_) => ("TypeOf", Modelled),
        Command::Keys(_) => ("Keys", Modelled), // `*` in Model.Redis, glob patterns in Model.RedisX
        Command::FlushDb => ("FlushDb", Modelled),
        Command::FlushAll => ("FlushAll", Modelled),
        Command::Expire { .. } => ("Expire", Modelled),
        Command::ExpireAt(_, _) => ("ExpireAt", Modelled),
        Command::PExpire { .. } => ("PExpire", Modelled),
        Command::PExpireAt(_, _) => ("PExpireAt", Modelled),
        Command::Ttl(_) => ("Ttl", Modelled),
        Command::Pttl(_) => ("Pttl", Modelled),
        Command::ExpireTime(_) => ("ExpireTime", Modelled),
        Command::PExpireTime(_) => ("PExpireTime", Modelled),
        Command::Persist(_) => ("Persist", Modelled),
        Command::Wait(_, _) => ("Wait", OracleOnly(STUB)),
        Command::Time => ("Time", OracleOnly(STUB)),
        Command::Sort { .. } => ("Sort", Modelled),
        Command::LPush(_, _) => ("LPush", Modelled),
        Command::RPush(_, _) => ("RPush", Modelled),
        Command::LPop(_) => ("LPop", Modelled),
        Command::RPop(_) => ("RPop", Modelled),
        Command::LLen(_) => ("LLen", Modelled),
        Command::LIndex(_, _) => ("LIndex", Modelled),
        Command::LRange(_, _, _) => ("LRange", Modelled),
        Command::LSet(_, _, _) => ("LSet", Modelled),
        Command::LTrim(_, _, _) => ("LTrim", Modelled),
        Command::RPopLPush(_, _) => ("RPopLPush", Modelled),
        Command::LMove { .. } => ("LMove", Modelled),
        Command::SAdd(_, _) => ("SAdd", Modelled),
        Command::SRem(_, _) => ("SRem", Modelled),
        Command::SMembers(_) => ("SMembers", Modelled),
        Command::SIsMember(_, _) => ("SIsMember", Modelled),
        Command::SCard(_) => ("SCard", Modelled),
        Command::SPop(_, _) => ("SPop", Modelled),
        Command::HSet(_, _) => ("HSet", Modelled),
        Command::HGet(_, _) => ("HGet", Modelled),
        Command::HDel(_, _) => ("HDel", Modelled),
        Command::HGetAll(_) => ("HGetAll", Modelled),
        Command::HKeys(_) => ("HKeys", Modelled),
        Command::HVals(_) => ("HVals", Modelled),
        Command::HLen(_) => ("HLen", Modelled),
        Command::HExists(_, _) => ("HExists", Modelled),
        Command::HIncrBy(_, _, _) => ("HIncrBy", Modelled),
        Command::ZAdd { .. } => ("ZAdd", Modelled),
        Command::ZRem(_, _) => ("ZRem", Modelled),
        Command::ZRange(_, _, _, _) => ("ZRange", Modelled),
        Command::ZRevRange(_, _, _, _) => ("ZRevRange", Modelled),
        Command::ZScore(_, _) => ("ZScore", Modelled),
        Command::ZRank(_, _) => ("ZRank", Modelled),
        Command::ZCard(_) => ("ZCard", Modelled),
        Command::ZCount(_, _, _) => ("ZCount", Modelled),
        Command::ZRangeByScore { .. } => ("ZRangeByScore", Modelled),
        Command::Scan { .. } => ("Scan", OracleOnly("cursor paging over hash-map order; shard-level behaviour is C03's subject")),
        Command::HScan { .. } => ("HScan", OracleOnly("cursor paging over hash-map order")),
        Command::ZScan { .. } => ("ZScan", OracleOnly("cursor paging")),
        Command::Multi => ("Multi", OracleOnly(TXN)),
        Command::Exec => ("Exec", OracleOnly(TXN)),
        Command::Discard => ("Discard", OracleOnly(TXN)),
        Command::Watch(_) => ("Watch", OracleOnly(TXN)),
        Command::Unwatch => ("Unwatch", OracleOnly(TXN)),
        // straight-line scripts (a sequence of redis.call on modelled commands + return 'done') are in
        // the model (`Redis.stepScript`); anything else an EVAL can do is C16 / C02
        Command::Eval { .. } => ("Eval", Modelled),
        Command::EvalSha { .. } => ("EvalSha", OracleOnly("script cache lookup, then as EVAL (C16 compares EVALSHA with EVAL)")),
        Command::ScriptLoad(_) => ("ScriptLoad", OracleOnly(SCRIPT)),
        Command::ScriptExists(_) => ("ScriptExists", OracleOnly(SCRIPT)),
        Command::ScriptFlush => ("ScriptFlush", OracleOnly(SCRIPT)),
        Command::SetNx(_, _) => ("SetNx", Modelled),
        Command::Info => ("Info", OracleOnly(STUB)),
        Command::Ping(_) => ("Ping", OracleOnly(STUB)),
        Command::DbSize => ("DbSize", Modelled),
        Command::Auth { .. } => ("Auth", OracleOnly(CONN)),
        Command::AclWhoami => ("AclWhoami", OracleOnly(CONN)),
        Command::AclList => ("AclList", OracleOnly(CONN)),
        Command::AclUsers => ("AclUsers", OracleOnly(CONN)),
        Command::AclGetUser { .. } => ("AclGetUser", OracleOnly(CONN)),
        Command::AclSetUser { .. } => ("AclSetUser", OracleOnly(CONN)),
        Command::AclDelUser { .. } => ("AclDelUser", OracleOnly(CONN)),
        Command::AclCat { .. } => ("AclCat", OracleOnly(CONN)),
        Command::AclGenPass { .. } => ("AclGenPass", OracleOnly(CONN)),
        Command::AclDryrun { .. } => ("AclDryrun", OracleOnly(CONN)),
        Command::AclLog { .. } => ("AclLog", OracleOnly(CONN)),
        Command::AclLogReset => ("AclLogReset", OracleOnly(CONN)),
        Command::ConfigGet(_) => ("ConfigGet", OracleOnly(STUB)),
        Command::ConfigSet(_, _) => ("ConfigSet", OracleOnly("server configuration, no keyspace effect")),
        Command::ConfigResetStat => ("ConfigResetStat", OracleOnly(STUB)),
        Command::Select(_) => ("Select", OracleOnly(STUB)),
        Command::Echo(_) => ("Echo", OracleOnly(STUB)),
        Command::CommandCommand => ("CommandCommand", OracleOnly(STUB)),
        Command::CommandCount => ("CommandCount", OracleOnly(STUB)),
        Command::FunctionFlush => ("FunctionFlush", OracleOnly(STUB)),
        Command::ClientSetName(_) => ("ClientSetName", OracleOnly(STUB)),
        Command::ClientGetName => ("ClientGetName", OracleOnly(STUB)),
        Command::ClientId => ("ClientId", OracleOnly(STUB)),
        Command::ClientInfo => ("ClientInfo", OracleOnly(STUB)),
        Command::ObjectHelp => ("ObjectHelp", OracleOnly(STUB)),
        Command::ObjectEncoding(_) => ("ObjectEncoding", OracleOnly("encoding names are an implementation detail (excluded in DESIGN §4 C01)")),
        Command::ObjectRefCount(_) => ("ObjectRefCount", OracleOnly(STUB)),
        Command::ObjectIdleTime(_) => ("ObjectIdleTime", OracleOnly(STUB)),
        Command::ObjectFreq(_) => ("ObjectFreq", OracleOnly(STUB)),
        Command::DebugSleep(_) => ("DebugSleep", OracleOnly(STUB)),
        Command::DebugSet(_, _) => ("DebugSet", OracleOnly(STUB)),
        Command::DebugObject(_) => ("DebugObject", OracleOnly(STUB)),
        Command::RandomKey => ("RandomKey", Modelled),
        Command::Rename(_, _) => ("Rename", Modelled),
        Command::RenameNx(_, _) => ("RenameNx", Modelled),
        Command::Unknown(_) => ("Unknown", OracleOnly("unknown command names (error reply, XADD/XINFO stubs)")),
    }
}

// ------------------------------------------------------------------------------------------
// generators

pub fn key(rng: &mut Rng) -> String {
    rng.pick(&KEYS).to_string()
}

pub fn payload(rng: &mut Rng) -> SDS {
    let x = rng.below(200);
    payload_small(rng, x)
}

fn payload_small(rng: &mut Rng, x: u64) -> SDS {
    let b: Vec<u8> = match x {
        // input alphabet: values at and around the SDS inline limit, long values
        190 | 191 => (0..23).map(|i| b'a' + (i % 26) as u8).collect(),
        192 => (0..24).map(|i| b'a' + (i % 26) as u8).collect(),
        193 => (0..22).map(|i| (i * 11 + 128) as u8).collect(),
        194 => (0..100).map(|i| (i * 7) as u8).collect(),
        195 => (0..4096).map(|i| (i % 251) as u8).collect(),
        x if x >= 22 => return payload_small(rng, x % 22),
        0 => vec![],
        1 => vec![0, 255, 10, 13],
        2 => b"v1".to_vec(),
        3 => b"hello world".to_vec(),
        4 => b"0".to_vec(),
        5 => b"10".to_vec(),
        6 => b"-1".to_vec(),
        7 => b"007".to_vec(),
        8 => b"+5".to_vec(),
        9 => b"-0".to_vec(),
        10 => b" 1".to_vec(),
        11 => b"9223372036854775807".to_vec(),
        12 => b"-9223372036854775808".to_vec(),
        13 => b"9223372036854775808".to_vec(),
        14 => b"1 ".to_vec(),
        15 => b"12a".to_vec(),
        16 => b"-".to_vec(),
        17 => (0..rng.range(1, 12)).map(|_| rng.below(256) as u8).collect(),
        18 => format!("{}", rng.below(2000) as i64 - 1000).into_bytes(),
        19 => b"9223372036854775806".to_vec(),
        20 => b"00".to_vec(),
        _ => vec![rng.below(3) as u8 + b'a'],
    };
    SDS::new(b)
}

fn rel_secs(rng: &mut Rng) -> i64 {
    *rng.pick(&[1, 1, 2, 2, 3, 5, 100, 0, -1, i64::MAX / 1000, i64::MAX / 1000 + 1, i64::MAX, i64::MIN])
}
fn rel_ms(rng: &mut Rng, now: u64) -> i64 {
    // largest deadline used = i64::MAX - 600: beyond that Redis' own `(deadline+500)/1000`
    // (EXPIRETIME) overflows, so there is no specified answer to conform to
    let near = i64::MAX - now as i64 - 600;
    *rng.pick(&[1, 2, 499, 500, 501, 999, 1000, 1400, 1499, 1500, 1501, 2500, 10, 0, -1, i64::MAX, near, near + 601, i64::MIN])
}
fn abs_secs(rng: &mut Rng, now: u64) -> i64 {
    let s = (now / 1000) as i64;
    *rng.pick(&[s - 1, s, s + 1, s + 1, s + 2, s + 5, 0, -5, i64::MAX / 1000, i64::MAX / 1000 + 1, i64::MAX, i64::MIN])
}
fn abs_ms(rng: &mut Rng, now: u64) -> i64 {
    let n = now as i64;
    *rng.pick(&[n - 1, n, n + 1, n + 2, n + 499, n + 500, n + 1400, n + 1500, n + 3000, 0, -7, i64::MAX - 600, i64::MIN])
}
fn index(rng: &mut Rng) -> isize {
    match rng.below(10) {
        0 => isize::MAX,
        1 => isize::MIN,
        2 => 100,
        3 => -100,
        4 => -200,
        _ => rng.below(15) as isize - 7,
    }
}

fn exp_flags(rng: &mut Rng) -> (bool, bool, bool, bool) {
    // only the combinations the parser lets through (NX excludes the rest, GT excludes LT)
    *rng.pick(&[
        (false, false, false, false),
        (false, false, false, false),
        (true, false, false, false),
        (false, true, false, false),
        (false, false, true, false),
        (false, false, false, true),
        (false, true, true, false),
        (false, true, false, true),
    ])
}

pub fn gen_string_cmd(rng: &mut Rng, now: u64) -> Command {
    let k = key(rng);
    match rng.below(24) {
        0 | 1 => Command::Get(k),
        2..=5 => {
            let mut c = Command::set(k, payload(rng));
            if let Command::Set { ex, px, exat, pxat, nx, xx, get, keepttl, .. } = &mut c {
                match rng.below(9) {
                    0 => *ex = Some(rel_secs(rng)),
                    1 | 2 => *px = Some(rel_ms(rng, now)),
                    3 => *exat = Some(abs_secs(rng, now)),
                    4 => *pxat = Some(abs_ms(rng, now)),
                    5 => *keepttl = true,
                    _ => {}
                }
                match rng.below(6) {
                    0 => *nx = true,
                    1 => *xx = true,
                    _ => {}
                }
                *get = rng.chance(1, 4);
            }
            c
        }
        6 => Command::SetNx(k, payload(rng)),
        7 | 8 => Command::Append(k, payload(rng)),
        9 => Command::GetSet(k, payload(rng)),
        10 => Command::StrLen(k),
        11 => Command::MGet((0..rng.range(1, 4)).map(|_| key(rng)).collect()),
        12 | 13 => Command::MSet((0..rng.range(1, 3)).map(|_| (key(rng), payload(rng))).collect()),
        14 => Command::MSetNx((0..rng.range(1, 3)).map(|_| (key(rng), payload(rng))).collect()),
        15 | 16 => Command::GetRange(k, index(rng), index(rng)),
        17 => {
            // never an offset in 9..=2^29: the executor would really allocate that much
            let off = *rng.pick(&[0usize, 0, 1, 2, 3, 5, 8, 536870913, 1 << 40, usize::MAX]);
            Command::SetRange(k, off, payload(rng))
        }
        18 => {
            let (mut ex, mut px, mut exat, mut pxat, mut persist) = (None, None, None, None, false);
            match rng.below(7) {
                0 => ex = Some(rel_secs(rng)),
                1 => px = Some(rel_ms(rng, now)),
                2 => exat = Some(abs_secs(rng, now)),
                3 => pxat = Some(abs_ms(rng, now)),
                4 => persist = true,
                _ => {}
            }
            Command::GetEx { key: k, ex, px, exat, pxat, persist }
        }
        19 => Command::GetDel(k),
        20 => {
            // never an offset whose byte index lies in 64..2^29: the executor would really allocate
            let off = *rng.pick(&[0u64, 1, 7, 8, 9, 15, 16, 100, 175, 176, 183, 184, 191, 192, 4294967296, 4294967297, u64::MAX]);
            Command::SetBit(k, off, rng.below(2) as u8)
        }
        21 => Command::GetBit(k, *rng.pick(&[0u64, 1, 7, 8, 9, 15, 16, 100, 183, 184, 191, 192, 100000, 4294967295, 4294967296, u64::MAX])),
        22 => Command::BatchSet((0..rng.range(1, 3)).map(|_| (key(rng), payload(rng))).collect()),
        _ => Command::BatchGet((0..rng.range(1, 4)).map(|_| key(rng)).collect()),
    }
}

pub fn gen_counter_cmd(rng: &mut Rng) -> Command {
    let k = key(rng);
    let d = *rng.pick(&[1i64, -1, 5, 10, -10, i64::MAX, i64::MIN, i64::MAX - 1, 0, 1000]);
    match rng.below(4) {
        0 => Command::Incr(k),
        1 => Command::Decr(k),
        2 => Command::IncrBy(k, d),
        _ => Command::DecrBy(k, d),
    }
}

/// a glob pattern over the key alphabet (`a b c kk é`): fixed shapes and random strings of pattern
/// bytes (valid UTF-8: the pattern is a `String` in `Command::Keys`)
/// `[` + ~300 bytes of class body (+ `]` + tail, or left unclosed)
pub fn long_class_pattern(rng: &mut Rng) -> String {
    let mut p = String::from("[");
    if rng.chance(1, 4) {
        p.push('^');
    }
    const BODY: [&str; 10] = ["x", "y", "z", "0-9", "q-m", "\\]", "\\-", "w", "A-Z", "_"];
    while p.len() < 300 {
        let piece: &str = *rng.pick(&BODY);
        p.push_str(piece);
    }
    match rng.below(4) {
        0 => p.push_str("a"),
        1 => p.push_str("a-k"),
        _ => {}
    }
    match rng.below(3) {
        0 => {}                    // unclosed: runs to the end of the pattern
        1 => p.push_str("]"),
        _ => p.push_str("]*"),
    }
    p
}

pub fn glob_pattern(rng: &mut Rng) -> String {
    const FIXED: [&str; 30] = [
        "a", "?", "??", "???", "a*", "*a", "*k", "k*", "k?", "?k", "[abc]", "[a-c]", "[c-a]", "[^a]", "[^a-b]*", "[ab", "[", "[]", "[^]", "\\a",
        "\\*", "a\\", "*\\", "[\\a]", "[a\\-c]", "é", "*é", "?é", "[é]", "**",
    ];
    if rng.chance(1, 2) {
        return rng.pick(&FIXED).to_string();
    }
    // a LONG class body, closed or not (300 bytes: a model that evaluated its recursive call twice per
    // byte would never finish), with ranges, escapes and the key's first byte somewhere inside
    if rng.chance(1, 12) {
        return long_class_pattern(rng);
    }
    const PIECES: [&str; 14] = ["a", "b", "c", "k", "é", "*", "?", "[", "]", "^", "-", "\\", "x", "kk"];
    (0..rng.range(1, 5)).map(|_| *rng.pick(&PIECES)).collect()
}

pub fn gen_key_cmd(rng: &mut Rng) -> Command {
    let k = key(rng);
    match rng.below(24) {
        0..=3 => Command::Del((0..rng.range(1, 3)).map(|_| key(rng)).collect()),
        4..=6 => Command::Exists((0..rng.range(1, 3)).map(|_| key(rng)).collect()),
        7..=9 => Command::TypeOf(k),
        10 => Command::Keys("*".into()),
        11 => Command::Keys(glob_pattern(rng)),
        12 | 13 => Command::DbSize,
        14 => {
            if rng.chance(1, 3) {
                if rng.chance(1, 2) {
                    Command::FlushDb
                } else {
                    Command::FlushAll
                }
            } else {
                Command::DbSize
            }
        }
        15 | 16 => Command::RandomKey,
        17..=19 => Command::Rename(k, key(rng)),
        20 => Command::Sort { key: k, store: if rng.chance(1, 2) { Some(key(rng)) } else { None } },
        _ => Command::RenameNx(k, key(rng)),
    }
}

pub fn gen_expiry_cmd(rng: &mut Rng, now: u64) -> Command {
    let k = key(rng);
    let (nx, xx, gt, lt) = exp_flags(rng);
    match rng.below(20) {
        0..=2 => Command::Expire { key: k, seconds: rel_secs(rng), nx, xx, gt, lt },
        3..=6 => Command::PExpire { key: k, milliseconds: rel_ms(rng, now), nx, xx, gt, lt },
        7 => Command::ExpireAt(k, abs_secs(rng, now)),
        8 | 9 => Command::PExpireAt(k, abs_ms(rng, now)),
        10..=12 => Command::Ttl(k),
        13..=15 => Command::Pttl(k),
        16 => Command::ExpireTime(k),
        17 => Command::PExpireTime(k),
        _ => Command::Persist(k),
    }
}

pub fn gen_list_cmd(rng: &mut Rng) -> Command {
    let k = key(rng);
    match rng.below(24) {
        0..=2 => Command::LPush(k, (0..rng.range(1, 3)).map(|_| payload(rng)).collect()),
        3..=6 => Command::RPush(k, (0..rng.range(1, 3)).map(|_| payload(rng)).collect()),
        7 | 8 => Command::LPop(k),
        9 | 10 => Command::RPop(k),
        11 => Command::LLen(k),
        12 | 13 => Command::LIndex(k, index(rng)),
        14..=16 => Command::LRange(k, index(rng), index(rng)),
        17 | 18 => Command::LSet(k, index(rng), payload(rng)),
        19 | 20 => Command::LTrim(k, index(rng), index(rng)),
        21 => Command::RPopLPush(k, key(rng)),
        _ => Command::LMove {
            source: k,
            dest: key(rng),
            wherefrom: rng.pick(&["LEFT", "RIGHT"]).to_string(),
            whereto: rng.pick(&["LEFT", "RIGHT"]).to_string(),
        },
    }
}

/// the score-range bounds the generator uses, with their meaning for the model
/// (i = inclusive, e = exclusive, bad = "min or max is not a float").  Only integral bounds and
/// ±inf; `""` and `"("` (which strtod-based Redis reads as 0) are not generated.
pub const BOUNDS: [(&str, &str); 16] = [
    ("-inf", "i-inf"),
    ("+inf", "iinf"),
    ("inf", "iinf"),
    ("(-inf", "e-inf"),
    ("(inf", "einf"),
    ("0", "i0"),
    ("(0", "e0"),
    ("2", "i2"),
    ("(2", "e2"),
    ("-3", "i-3"),
    ("(-3", "e-3"),
    ("5", "i5"),
    ("(5", "e5"),
    ("abc", "bad"),
    ("1x", "bad"),
    ("(x", "bad"),
];

pub fn bound_token(s: &str) -> Option<String> {
    if let Some(m) = BOUNDS.iter().find(|(t, _)| *t == s).map(|(_, m)| m.to_string()) {
        return Some(m);
    }
    // the boundary generator derives bounds from current scores: `[(]<integer>`
    let (excl, num) = match s.strip_prefix('(') {
        Some(r) => (true, r),
        None => (false, s),
    };
    let v: i64 = num.parse().ok()?;
    if v.to_string() != num {
        return None;
    }
    Some(format!("{}{}", if excl { "e" } else { "i" }, v))
}

fn zscore_val(rng: &mut Rng) -> f64 {
    match rng.below(12) {
        0 => f64::INFINITY,
        1 => f64::NEG_INFINITY,
        2 => 9007199254740991.0,
        _ => rng.below(9) as f64 - 3.0,
    }
}

pub fn gen_zset_cmd(rng: &mut Rng) -> Command {
    let k = key(rng);
    let b = |rng: &mut Rng| rng.pick(&BOUNDS).0.to_string();
    match rng.below(24) {
        0..=6 => {
            let (nx, xx, gt, lt) = *rng.pick(&[
                (false, false, false, false),
                (false, false, false, false),
                (false, false, false, false),
                (true, false, false, false),
                (false, true, false, false),
                (false, false, true, false),
                (false, false, false, true),
                (false, true, true, false),
                (false, true, false, true),
            ]);
            Command::ZAdd {
                key: k,
                pairs: (0..rng.range(1, 3)).map(|_| (zscore_val(rng), member(rng))).collect(),
                nx,
                xx,
                gt,
                lt,
                ch: rng.chance(1, 3),
            }
        }
        7..=9 => Command::ZRem(k, (0..rng.range(1, 3)).map(|_| member(rng)).collect()),
        10..=12 => Command::ZRange(k, index(rng), index(rng), rng.chance(1, 2)),
        13 | 14 => Command::ZRevRange(k, index(rng), index(rng), rng.chance(1, 2)),
        15 | 16 => Command::ZScore(k, member(rng)),
        17 | 18 => Command::ZRank(k, member(rng)),
        19 => Command::ZCard(k),
        20 | 21 => Command::ZCount(k, b(rng), b(rng)),
        _ => Command::ZRangeByScore {
            key: k,
            min: b(rng),
            max: b(rng),
            with_scores: rng.chance(1, 2),
            limit: if rng.chance(1, 2) { Some((rng.below(5) as isize - 1, rng.below(4) as usize)) } else { None },
        },
    }
}

/// set member / hash field: mostly from a small alphabet (so that they collide), sometimes any payload
pub fn member(rng: &mut Rng) -> SDS {
    if rng.chance(3, 4) {
        SDS::new(rng.pick(&["a", "b", "c", "10", "é", ""]).as_bytes().to_vec())
    } else {
        payload(rng)
    }
}

pub fn gen_set_cmd(rng: &mut Rng) -> Command {
    let k = key(rng);
    match rng.below(16) {
        0..=4 => Command::SAdd(k, (0..rng.range(1, 4)).map(|_| member(rng)).collect()),
        5..=7 => Command::SRem(k, (0..rng.range(1, 3)).map(|_| member(rng)).collect()),
        8 | 9 => Command::SMembers(k),
        10 | 11 => Command::SIsMember(k, member(rng)),
        12 => Command::SCard(k),
        13 => Command::SPop(k, None),
        _ => Command::SPop(k, Some(*rng.pick(&[0usize, 1, 1, 2, 3, 100]))),
    }
}

pub fn gen_hash_cmd(rng: &mut Rng) -> Command {
    let k = key(rng);
    match rng.below(20) {
        0..=4 => Command::HSet(k, (0..rng.range(1, 3)).map(|_| (member(rng), payload(rng))).collect()),
        5 | 6 => Command::HGet(k, member(rng)),
        7..=9 => Command::HDel(k, (0..rng.range(1, 3)).map(|_| member(rng)).collect()),
        10 | 11 => Command::HGetAll(k),
        12 => Command::HKeys(k),
        13 => Command::HVals(k),
        14 => Command::HLen(k),
        15 => Command::HExists(k, member(rng)),
        _ => Command::HIncrBy(k, member(rng), *rng.pick(&[1i64, -1, 5, 10, i64::MAX, i64::MIN, 0])),
    }
}

/// commands of families that are not modelled (yet): they only build states of other types
pub fn gen_other_type_cmd(rng: &mut Rng) -> Command {
    let k = key(rng);
    match rng.below(4) {
        0 => Command::RPush(k, vec![payload(rng)]),
        1 => Command::SAdd(k, vec![payload(rng)]),
        2 => Command::HSet(k, vec![(payload(rng), payload(rng))]),
        _ => Command::ZAdd { key: k, pairs: vec![(rng.below(5) as f64, payload(rng))], nx: false, xx: false, gt: false, lt: false, ch: false },
    }
}

pub fn gen_cmd(rng: &mut Rng, now: u64) -> Command {
    match rng.below(41) {
        0..=5 => gen_string_cmd(rng, now),
        6..=7 => gen_counter_cmd(rng),
        8..=11 => gen_key_cmd(rng),
        12..=16 => gen_expiry_cmd(rng, now),
        17..=22 => gen_list_cmd(rng),
        23..=27 => gen_set_cmd(rng),
        28..=33 => gen_hash_cmd(rng),
        34..=40 => gen_zset_cmd(rng),
        _ => gen_other_type_cmd(rng),
    }
}

/// next clock value: stay, tick, small advance, or exactly / just before / just after the
/// deadline of some key
pub fn next_time(rng: &mut Rng, s: &mut Sess) -> u64 {
    let now = s.now;
    match rng.below(12) {
        0..=4 => now,
        5 => now + 1,
        6 => now + rng.range(2, 2500),
        7 => now + 100_000,
        _ => {
            let k = key(rng);
            let p = s.pttl(&k);
            if p > 0 && p < 1_000_000_000 {
                let p = p as u64;
                match rng.below(4) {
                    0 => now + p - 1, // one ms before the deadline
                    1 | 2 => now + p, // exactly the deadline
                    _ => now + p + 1,
                }
            } else {
                now + rng.below(3)
            }
        }
    }
}

pub struct StepOut {
    pub op: String,
    pub reply: String,
    pub before: String,
    pub after: String,
    pub is_err: bool,
    pub read_only: bool,
    pub modelled: bool,
}

/// execute one command on the real executor, emit the op line + implementation answer, run the
/// C17 oracle (error / read-only ⇒ visible keyspace unchanged) on it
pub fn do_step(out: &mut Out, s: &mut Sess, cmd: &Command, prop: &str, seq: &[String]) -> StepOut {
    if let Some(evict) = s.moved.take() {
        out.op(
            format!("CLOCK {} {}", s.now, if evict { if s.evict_direct { "evict_expired_direct" } else { "set_time" } } else { "update_time_readonly" }),
            "clock".to_string(),
        );
    }
    for (t, kind) in std::mem::take(&mut s.pending_clock) {
        out.op(format!("XCLK {} {}", t, kind), "xclk".to_string());
    }
    ZSET_INCONSISTENT.lock().unwrap().clear();
    let before = s.dump();
    let now = s.unix();
    let parts = if matches!(cmd, Command::Eval { .. }) { s.script_parts.take() } else { None };
    let r = s.exec(cmd);
    let after = s.dump();
    out.count(&format!("entry:{}", s.last_entry));
    for what in ZSET_INCONSISTENT.lock().unwrap().drain(..) {
        out.violation(
            &format!("{}:zset-members-and-skiplist-disagree", prop),
            &format!("a sorted set's member map, skip list and length field do not describe the same set after {:?}: {}", cmd.name(), what),
            json!({"sequence": seq, "command": format!("{:?}", cmd), "observed": what}),
        );
    }
    if after.len() > 200_000 {
        eprintln!("harness guard: keyspace dump of {} bytes after {:?} — generator must not build such states", after.len(), cmd.name());
        std::process::exit(3);
    }
    let ro = cmd.is_read_only();
    let (reply, is_err, op) = match (&r, &parts) {
        (None, None) => ("crash".to_string(), false, enc_cmd(cmd, &RespValue::BulkString(None)).or_else(|| enc_xcmd(cmd))),
        (None, Some(p)) => ("crash".to_string(), false, enc_script(p)),
        (Some(rv), None) => (reply_text(rv, reply_order(cmd)), is_error(rv), enc_cmd(cmd, rv).or_else(|| enc_xcmd(cmd))),
        (Some(rv), Some(p)) => (reply_text(rv, Order::AsIs), is_error(rv), enc_script(p)),
    };
    let name = cmd.name();
    out.count(&format!("cmd:{}", name));
    if is_err {
        out.count(&format!("reply:error:{}", reply));
    }
    if before != after {
        out.count("effect:keyspace-changed");
    }
    let modelled = op.is_some();
    if modelled && variant_info(cmd).1 != Cover::Modelled {
        eprintln!("coverage table out of date: {:?} has a model op line but is not classified Modelled", variant_info(cmd).0);
        std::process::exit(3);
    }
    // a known finding is identified by its CAUSE: for an input of a finding's class the model of the
    // code as it is (`Model.ExecutorCode`, or the specification on the lossy form of a binary name)
    // answers first and must predict this very reply and keyspace; then the model is put back to the
    // keyspace before the command and the specification is asked as for every other command
    if let (Some(rv), Some(_)) = (&r, &op) {
        if let Some((cause_op, sig, cro)) = cause_variant(cmd, ro) {
            let _ = rv;
            out.op(format!("{} {} ;; {}", now, cause_op, after), format!("{} | {} | ro={}", reply, after, cro as u8));
            let line = out.n_ops();
            let e = out.extra.entry("must_agree".to_string()).or_insert_with(|| json!([]));
            e.as_array_mut().unwrap().push(json!([line, sig]));
            out.op(format!("{} ADOPT ;; {}", now, before), "adopt".to_string());
            out.count(&format!("cause-line:{}", sig));
        }
    }
    let xc_only = std::mem::replace(&mut s.xc_only, false);
    let m7op = if xc_only { None } else { op.clone() };
    let opline = match &m7op {
        Some(o) => format!("{} {} ;; {}", now, o, after),
        None => format!("{} ADOPT ;; {}", now, after),
    };
    let human = format!("t={} {:?}", now, cmd);
    let implline = match &m7op {
        Some(_) => format!("{} | {} | ro={}", reply, after, ro as u8),
        None => "adopt".to_string(),
    };
    out.op(opline.clone(), implline);
    // the transcription of the executor as it is (`Model.Executor`): same command from ITS OWN state
    // (threaded through the whole sequence), compared on the reply, the physical key set and
    // `expirations.len()`; after a command it does not cover it adopts the physical state
    if s.xc {
        let phys = s.phys_dump();
        let xop = match (&r, &parts) {
            (Some(rv), None) if !has_binary_name(cmd) => enc_cmd(cmd, rv),
            _ => None,
        };
        // SETBIT / GETBIT / BatchSet / BatchGet / KEYS <pattern>: `Model.ExecutorX.execXC`
        let xxop = match (&r, &parts) {
            (Some(_), None) if xop.is_none() => enc_xcmd(cmd),
            _ => None,
        };
        match (xop, xxop, if r.is_some() && parts.is_none() { stub_op(cmd) } else { None }) {
            (Some(o), _, _) => {
                let nexp = s.nexp();
                out.op(format!("{} XC {} ;; {}", s.now, o, phys), format!("{} | {} | nexp={}", reply, phys, nexp));
                out.count("xc:executor-transcription-op");
                // the `&self` read path: `execute_readonly` must answer what `execute` just answered
                // (`Model.ExecutorX.cReadonly`, `Props.C17Exec.readonly_path_agrees`)
                if matches!(cmd, Command::Get(_) | Command::Exists(_)) || matches!(cmd, Command::Keys(p) if p == "*") {
                    let ex = &s.ex;
                    let rr = catch_unwind(AssertUnwindSafe(|| ex.execute_readonly(cmd))).ok();
                    let txt = match &rr { Some(rv) => reply_text(rv, reply_order(cmd)), None => "crash".to_string() };
                    out.op(format!("{} XR {} ;; ", s.now, o), txt.clone());
                    out.count("xc:execute_readonly");
                    if txt != reply {
                        out.violation(
                            &format!("C17:execute_readonly-differs-from-execute:{}", cmd.name()),
                            &format!("execute_readonly answered {} where execute answered {}", txt, reply),
                            json!({"sequence": seq, "command": format!("{:?}", cmd)}),
                        );
                    }
                }
            }
            (None, Some(o), _) => {
                let nexp = s.nexp();
                out.op(format!("{} X{} ;; {}", s.now, o, phys), format!("{} | {} | nexp={}", reply, phys, nexp));
                out.count("xc:executor-transcription-xop");
            }
            (None, None, Some((o, modelled_reply))) => {
                // a stub: the transcription says the keyspace is not touched beyond `get_value(key)`;
                // the reply is compared where the stub looks at a key
                let nexp = s.nexp();
                let shown = if modelled_reply { reply.clone() } else { "?".to_string() };
                out.op(format!("{} XS {} ;; {}", s.now, o, phys), format!("{} | {} | nexp={}", shown, phys, nexp));
                out.count("xc:executor-transcription-stub");
            }
            (None, None, None) => {
                out.op(format!("{} XADOPT ;; {}", s.now, phys), "xadopt".to_string());
                out.count("xc:adopt");
            }
        }
    }
    // C17 oracle on the real code
    if r.is_none() {
        out.violation(
            &format!("{}:crash:{}", prop, name),
            "CommandExecutor::execute panicked",
            json!({"sequence": seq, "command": human}),
        );
    }
    if before != after && (is_err || ro) {
        let kind = if is_err { "error-mutates" } else { "readonly-mutates" };
        // a straight-line script that fails after an earlier call has written: Redis' own semantics
        // (no rollback), recorded as a known finding of the property AS STATED — identified by cause:
        // the model of exactly that semantics must predict this very reply and post-state
        let script_cause = is_err && parts.is_some() && op.is_some();
        if script_cause {
            let line = out.n_ops();
            let e = out.extra.entry("must_agree".to_string()).or_insert_with(|| json!([]));
            e.as_array_mut().unwrap().push(json!([line, "C17:error-mutates:EVAL:script-partial-effects"]));
        }
        out.violation(
            &if script_cause {
                "C17:error-mutates:EVAL:script-partial-effects".to_string()
            } else {
                format!("C17:{}:{}{}", kind, name, if is_err { format!(":{}", reply.trim_start_matches('-')) } else { String::new() })
            },
            &format!(
                "{} replied {} {} but the visible keyspace changed: before [{}] after [{}]",
                name,
                reply,
                if is_err { "(an error)" } else { "(command is classified read-only)" },
                before,
                after
            ),
            json!({"sequence": seq, "command": human, "before": before, "after": after, "reply": reply}),
        );
    }
    StepOut { op: opline, reply, before, after, is_err, read_only: ro, modelled }
}

/// the stub arms of `CommandExecutor::execute` as `Model.ExecutorX.StubCmd`: the op text and whether
/// the transcription also models the reply (it does for the arms that look at a key)
pub fn stub_op(cmd: &Command) -> Option<(String, bool)> {
    let key_stub = |tag: &str, k: &String| Some((format!("{} {}", tag, hk(k)), true));
    match cmd {
        Command::ObjectEncoding(k) => key_stub("OBJENC", k),
        Command::ObjectRefCount(k) => key_stub("OBJREF", k),
        Command::ObjectIdleTime(k) => key_stub("OBJIDLE", k),
        Command::ObjectFreq(k) => key_stub("OBJFREQ", k),
        Command::DebugObject(k) => key_stub("DEBUGOBJ", k),
        // arms that do not mention `self.data` / `self.expirations`
        Command::Ping(_) | Command::Info | Command::Time | Command::Select(_) | Command::Echo(_) | Command::FunctionFlush
        | Command::CommandCommand | Command::CommandCount | Command::ClientSetName(_) | Command::ClientGetName
        | Command::ClientId | Command::ClientInfo | Command::ObjectHelp | Command::DebugSleep(_) | Command::DebugSet(_, _)
        | Command::Wait(_, _) | Command::ConfigGet(_) | Command::ConfigSet(_, _) | Command::ConfigResetStat
        | Command::Auth { .. } | Command::AclWhoami | Command::AclList | Command::AclUsers | Command::AclGetUser { .. }
        | Command::AclSetUser { .. } | Command::AclDelUser { .. } | Command::AclCat { .. } | Command::AclGenPass { .. }
        | Command::AclDryrun { .. } | Command::AclLog { .. } | Command::AclLogReset | Command::Unknown(_) => {
            Some((format!("CONST {}", variant_info(cmd).0), false))
        }
        _ => None,
    }
}

/// start a fresh executor; emits the RESET line
pub fn reset(out: &mut Out, now: u64) -> Sess {
    reset_with_epoch(out, now, EpochCfg::Zero)
}

pub fn reset_with_epoch(out: &mut Out, now: u64, cfg: EpochCfg) -> Sess {
    out.op("RESET".to_string(), "reset".to_string());
    out.op(format!("XCFG {} {}", cfg.ms(), now), "xcfg".to_string());
    let mut s = Sess::with_epoch(now, cfg);
    s.xc = true;
    s
}

/// generated configuration: mostly the default, else legal extremes and realistic values
pub fn gen_epoch(rng: &mut Rng) -> EpochCfg {
    match rng.below(16) {
        0 => EpochCfg::Secs(1),
        1 => EpochCfg::Secs(1_790_000_000),             // a present-day start
        2 => EpochCfg::Secs(253_402_300_799),           // 9999-12-31
        3 => EpochCfg::Ms(1),
        4 => EpochCfg::Ms(1_790_000_000_123),           // ms not a multiple of 1000
        5 => EpochCfg::Both(1_790_000_000, 1_790_000_000_999),
        6 => EpochCfg::Both(1_790_000_000, 1_790_000_000_000),
        _ => EpochCfg::Zero,
    }
}

/// sorted-set member that is not valid UTF-8: the container stores it in lossy form (known finding
/// `C01:zset-member-not-binary-safe`, reported on the single commands); scripts stay clear of that cause.
/// Set members and hash fields are binary safe since the fixes c9e4f2c / 8832ec4.
pub fn has_binary_name(cmd: &Command) -> bool {
    let bad = |x: &SDS| std::str::from_utf8(x.as_bytes()).is_err();
    match cmd {
        Command::ZRem(_, ms) => ms.iter().any(bad),
        Command::ZScore(_, m) | Command::ZRank(_, m) => bad(m),
        Command::ZAdd { pairs, .. } => pairs.iter().any(|(_, m)| bad(m)),
        _ => false,
    }
}

fn lossy(x: &SDS) -> SDS {
    SDS::new(String::from_utf8_lossy(x.as_bytes()).into_owned().into_bytes())
}

/// for an input of the class of a recorded finding: the op text under which the model of that
/// finding's cause answers, the finding's signature, and the read-only flag that line prints
pub fn cause_variant(cmd: &Command, ro: bool) -> Option<(String, &'static str, bool)> {
    let dummy = RespValue::BulkString(None);
    if has_binary_name(cmd) {
        // cause: the container stores `String::from_utf8_lossy(name)` — the specification on the
        // lossy names is what the code does
        let l = |v: &Vec<SDS>| v.iter().map(lossy).collect::<Vec<_>>();
        let (lc, sig) = match cmd {
            Command::ZAdd { key, pairs, nx, xx, gt, lt, ch } => (
                Command::ZAdd { key: key.clone(), pairs: pairs.iter().map(|(s, m)| (*s, lossy(m))).collect(), nx: *nx, xx: *xx, gt: *gt, lt: *lt, ch: *ch },
                "C01:zset-member-not-binary-safe",
            ),
            Command::ZRem(k, ms) => (Command::ZRem(k.clone(), l(ms)), "C01:zset-member-not-binary-safe"),
            Command::ZScore(k, m) => (Command::ZScore(k.clone(), lossy(m)), "C01:zset-member-not-binary-safe"),
            Command::ZRank(k, m) => (Command::ZRank(k.clone(), lossy(m)), "C01:zset-member-not-binary-safe"),
            _ => return None,
        };
        return enc_cmd(&lc, &dummy).map(|o| (o, sig, ro));
    }
    match cmd {
        Command::GetRange(k, a, b) if *a < 0 && *b < 0 => Some((format!("CODE GETRANGE {} {} {}", hk(k), a, b), "C01:getrange-negative-inverted", false)),
        Command::GetSet(k, v) => Some((format!("CODE GETSET {} {}", hk(k), hv(v)), "C01:getset-keeps-deadline", false)),
        _ => None,
    }
}

/// a straight-line script of 1..=4 calls (biased towards "a write, then a call that can fail")
pub fn gen_script(rng: &mut Rng, now: u64, gen: &dyn Fn(&mut Rng, u64) -> Command) -> Option<Vec<Command>> {
    let n = rng.range(1, 4) as usize;
    let mut parts = Vec::new();
    let mut tries = 0;
    while parts.len() < n && tries < 200 {
        tries += 1;
        let c = gen(rng, now);
        if lua_args(&c).is_some() && enc_cmd(&c, &RespValue::BulkString(None)).is_some() && !has_binary_name(&c) {
            parts.push(c);
        }
    }
    if parts.is_empty() {
        None
    } else {
        Some(parts)
    }
}

/// one scripted step of a corpus sequence: advance the clock by `dt` (`evict` = set_time) and run
pub struct Scripted {
    pub dt: u64,
    pub evict: bool,
    pub cmd: Command,
    /// for an EVAL of a straight-line script: its calls
    pub parts: Option<Vec<Command>>,
}

pub fn sc(dt: u64, evict: bool, cmd: Command) -> Scripted {
    Scripted { dt, evict, cmd, parts: None }
}

/// EVAL of the straight-line script over `parts`
pub fn sc_script(dt: u64, evict: bool, parts: Vec<Command>) -> Scripted {
    let cmd = script_of(&parts).expect("scripted EVAL: every call must be known to the Lua translator");
    Scripted { dt, evict, cmd, parts: Some(parts) }
}

pub fn run_scripted(out: &mut Out, prop: &str, name: &str, steps: Vec<Scripted>) {
    run_scripted_cfg(out, prop, name, EpochCfg::Zero, steps)
}

/// the configurations `gen_epoch` draws from
pub const EPOCH_CONFIGS: [EpochCfg; 7] = [
    EpochCfg::Zero,
    EpochCfg::Secs(1),
    EpochCfg::Secs(1_790_000_000),
    EpochCfg::Ms(1),
    EpochCfg::Ms(1_790_000_000_123),
    EpochCfg::Both(1_790_000_000, 1_790_000_000_999),
    EpochCfg::Both(1_790_000_000, 1_790_000_000_000),
];

pub fn run_scripted_cfg(out: &mut Out, prop: &str, name: &str, cfg: EpochCfg, steps: Vec<Scripted>) {
    let mut s = reset_with_epoch(out, BASE_MS, cfg);
    let mut seq: Vec<String> = Vec::new();
    if cfg != EpochCfg::Zero {
        seq.push(format!("config: {:?} (Unix time = virtual time + {} ms)", cfg, cfg.ms()));
    }
    for st in steps {
        let t = s.now + st.dt;
        s.set_now(t, st.evict);
        seq.push(format!("t={}{} {:?}", t, if st.evict { "" } else { " (clock only)" }, st.cmd));
        s.script_parts = st.parts.clone();
        do_step(out, &mut s, &st.cmd, prop, &seq);
    }
    out.count(&format!("corpus:{}", name));
}

/// one random sequence of 1..=60 commands
pub fn run_random_sequence(out: &mut Out, rng: &mut Rng, prop: &str, gen: &dyn Fn(&mut Rng, u64) -> Command, boundary_pct: u64) {
    run_random_sequence_len(out, rng, prop, gen, boundary_pct, None)
}

/// `len` = number of commands (default: 1..=60); long histories (thousands of commands on the same
/// executor: keys change type, expire, are recreated many times) use an explicit length
pub fn run_random_sequence_len(out: &mut Out, rng: &mut Rng, prop: &str, gen: &dyn Fn(&mut Rng, u64) -> Command, boundary_pct: u64, len_override: Option<u64>) {
    let start = BASE_MS + rng.below(5000);
    let cfg = gen_epoch(rng);
    let mut s = reset_with_epoch(out, start, cfg);
    out.count(&format!("config:simulation_start_epoch:{}", match cfg { EpochCfg::Zero => "default-0", EpochCfg::Secs(_) => "seconds-only", EpochCfg::Ms(_) => "ms-only", EpochCfg::Both(..) => "seconds+ms" }));
    let len = match rng.below(10) {
        0 => rng.range(1, 3),
        1..=5 => rng.range(4, 20),
        _ => rng.range(21, 60),
    };
    let len = len_override.unwrap_or(len);
    let mut seq: Vec<String> = Vec::new();
    if cfg != EpochCfg::Zero {
        seq.push(format!("config: {:?} (Unix time = virtual time + {} ms)", cfg, cfg.ms()));
    }
    let mut canon = format!("{:?}\n", cfg);
    let mut changed = 0u32;
    let mut informative = 0u32;
    let lazy_session = rng.chance(1, 4); // a session that mostly moves the clock without eviction
    for _ in 0..len {
        let t = next_time(rng, &mut s);
        let evict = if lazy_session { rng.chance(1, 5) } else { !rng.chance(1, 8) };
        s.evict_direct = evict && rng.chance(1, 4);
        if t != s.now {
            out.count(if evict { if s.evict_direct { "clock:evict_expired_direct" } else { "clock:set_time" } } else { "clock:update_time_readonly" });
        }
        if evict && s.evict_direct {
            out.count("entry:evict_expired_direct");
        }
        s.set_now(t, evict);
        // the boundary generator computes absolute times from the virtual clock: default epoch only
        if cfg == EpochCfg::Zero && rng.below(100) < boundary_pct {
            // a boundary input computed from the current state (harness/src/boundary.rs)
            let mut cx = crate::boundary::Ctx { out, s: &mut s, seq: &mut seq, prop, canon: &mut canon, changed: &mut changed, informative: &mut informative };
            crate::boundary::random_boundary(&mut cx, rng);
            continue;
        }
        let mut cmd = gen(rng, s.unix());
        // a straight-line script instead of a single command
        if rng.chance(1, 16) {
            let unix = s.unix();
            if let Some(parts) = gen_script(rng, unix, gen) {
                if let Some(ev) = script_of(&parts) {
                    out.count(&format!("script:calls:{}", parts.len()));
                    cmd = ev;
                    s.script_parts = Some(parts);
                }
            }
        }
        // the other entry points that run a data command
        s.via = match (&cmd, rng.below(8)) {
            (Command::Get(_), 0..=2) => Via::Direct,
            (Command::Set { ex: None, px: None, exat: None, pxat: None, nx: false, xx: false, get: false, keepttl: false, .. }, 0..=2) => Via::Direct,
            (c, 3) if c.is_read_only() => Via::Read,
            _ => Via::Execute,
        };
        seq.push(format!("t={}{} {:?}{}", t, if evict { "" } else { " (clock only)" }, cmd, match s.via { Via::Execute => "", Via::Direct => " [via get_direct/set_direct]", Via::Read => " [via execute_read]" }));
        let so = do_step(out, &mut s, &cmd, prop, &seq);
        if seq.len() > 400 {
            // a long history: the replay keeps the configuration line and the last commands
            seq.drain(1..200);
        }
        canon.push_str(&so.op);
        canon.push('\n');
        if so.before != so.after {
            changed += 1;
        }
        if !so.is_err && so.reply != "_" && so.reply != ":0" && so.reply != "*0" {
            informative += 1;
        }
    }
    out.count(&format!("seq-len:{}", if len <= 3 { "1-3" } else if len <= 20 { "4-20" } else if len <= 60 { "21-60" } else { "long" }));
    out.case(&canon, changed >= 1 && informative >= 1);
    out.sample(json!({"sequence": seq}));
}

// ------------------------------------------------------------------------------------------
// coverage self-audit (machine-readable copy of DESIGN.md §4 C01 / C17 "coverage audit")

pub fn audit_c01() -> serde_json::Value {
    json!([
      {"class": 1, "topic": "entry paths / variants never driven",
       "covered": "every Command variant: exhaustive match (a new variant breaks the harness build) + variant list scanned from command.rs by build.rs; pub fns of impl CommandExecutor scanned from executor/mod.rs and mapped to how they are driven (C01:coverage:executor-fn-not-driven:<fn>): get_direct / set_direct / execute_read / evict_expired_direct are driven inside the random sequences and compared with the model; pub fns of src/redis/data/*.rs scanned and mapped (C01:coverage:data-fn-not-driven:<file>::<fn>): the real RedisSortedSet / RedisList / SDS (and RedisSet / RedisHash against references) are driven directly; straight-line EVAL scripts (SCRIPT ops, Redis.stepScript); SETBIT / GETBIT / BatchSet / BatchGet / KEYS <glob> are now in the model (Model.RedisX)",
       "open": "with_shared_script_cache / set_shared_script_cache (C16); SkipList::remove / get_by_rank / is_empty have no caller and the module is private: unreachable; INCRBYFLOAT (floats), HSCAN / ZSCAN (SCAN itself is transcribed: Model.ExecutorScan, XSCAN lines + full-iteration oracle), OBJECT/DEBUG/CLIENT/CONFIG/ACL stubs stay oracle-only (C17 sweep)"},
      {"class": 2, "topic": "input alphabet",
       "covered": "binary / empty / numeric-looking payloads; values of 22 / 23 / 24 / 100 / 4096 bytes; binary set members, hash fields, zset members; glob patterns from fixed shapes and random strings over a b c k é * ? [ ] ^ - backslash",
       "open": "keys are valid UTF-8 (Command carries String; non-UTF-8 keys are C03 / C04 / C16); the empty key is not generated (KEYS ** differs from Redis on it only)"},
      {"class": 3, "topic": "comparisons at equality",
       "covered": "93 boundary sites computed from the live state (boundary.rs) incl. the SDS inline limit; data-structure driver: every rank index in {isize::MIN, -n-1, -n, -n+1, -1, 0, 1, n-1, n, n+1, isize::MAX}, score bounds at / around existing scores, LIMIT offsets -1..k+1; SETBIT / GETBIT offsets around byte 22 / 23 and 2^32",
       "open": "SETRANGE / SETBIT at 512 MB (allocation cost)"},
      {"class": 4, "topic": "configuration",
       "covered": "simulation_start_epoch / simulation_start_epoch_ms are generated input (default, 1 s, present-day, year 9999; seconds only, ms only, both with an ms value that is not a multiple of 1000): the model runs on Unix time = virtual + epoch; a scripted pass runs every absolute-time command (EXPIREAT, PEXPIREAT, EXPIRETIME, PEXPIRETIME, SET EXAT / PXAT, GETEX EXAT / PXAT, the EXPIRE range check) under each of the 7 configurations",
       "open": "ServerConfig (CONFIG SET) is read by config_ops.rs only"},
      {"class": 5, "topic": "capacity thresholds",
       "covered": "SDS 23-byte inline limit (APPEND / SETRANGE / SET / SETBIT ending at 22 / 23 / 24 bytes; SDS driver); skip-list levels up to 8 in long runs",
       "open": "SKIPLIST_MAXLEVEL = 32 needs about 4^31 inserts: covered by the theorems (any level <= 32) only"},
      {"class": 6, "topic": "fault kinds", "covered": "every call into the real code under catch_unwind; overflow checks on in the harness build", "open": "no I/O in scope"},
      {"class": 7, "topic": "history shapes",
       "covered": "expired-but-unevicted keys (update_time_readonly), type changes on 5 colliding keys, emptied-then-refilled, long histories of 1500 commands on one executor; sorted sets (also held by a real CommandExecutor, ZADD with every flag): long runs, level shrink back to 1, free-slot reuse, repeated updates",
       "open": "no persistence in scope"},
      {"class": 8, "topic": "node-global state", "covered": "per-set rng_state compared after every step", "open": "math.randomseed(current_time) is C20; commands_processed feeds INFO only"},
      {"class": 9, "topic": "observations",
       "covered": "reply + keys / types / values / PTTL after every step; a sorted set's member map, skip list, length field and is_sorted() must describe the same set; the whole skip-list structure (heights, spans, header spans, level, length, rng_state) in the data driver",
       "open": "the exact deadline of a key that is past it (only `dead` is observable)"},
      {"class": 9, "topic": "observations (session 4: internal state)",
       "covered": "XC / XX / XS / XSCAN lines: the transcription of the executor as it is (Model.Executor*: two maps, lazy expiry) runs every command from ITS OWN threaded state and must give the implementation's reply, the PHYSICAL content of `data` (every key, live or `dead`, with PTTL and value) and `expirations.len()` (INFO keys_with_expiration): an orphan deadline, a key that active eviction left behind, a lazy drop that did not happen are disagreements at the very command",
       "open": ""},
      {"class": 10, "topic": "finding signatures",
       "covered": "every C01 known finding is identified by cause: the model of the code as it is (Model.ExecutorCode CODE lines; the specification on the lossy form of binary names) answers first and must predict the very reply and keyspace (must_agree), else <signature>:outcome-differs-from-model; the GETSET rule no longer accepts missing-in-impl; the glob rule only covers patterns with [ or backslash",
       "open": ""},
      {"class": 11, "topic": "harness fragility",
       "covered": "sources are read from the tree named in harness/Cargo.toml; a scan that finds too little panics the build; an unparsable Debug rendering is a violation + exit 3; a driven entry point / data fn with 0 calls is exit 3",
       "open": ""}
    ])
}

pub fn audit_c17() -> serde_json::Value {
    json!([
      {"class": 1, "topic": "entry paths / variants never driven",
       "covered": "the sweep executes every Command variant (exhaustive-match table and the list scanned from command.rs: C17:coverage:variant-not-driven:<V>), now incl. EVAL / EVALSHA; execute_readonly for every command classified read-only; the read-only classification three ways (list in the source of is_read_only, the binary's answer per instance, the model's isReadOnly / isReadOnlyX): C17:source:read-only-list-differs-from-classification, read-only-depends-on-fields, read-only-classification-not-a-plain-variant-list; the whole table goes through the model as op lines on every run; straight-line scripts in the model with their own theorems",
       "open": "scripts other than straight-line redis.call sequences (C16 / C02)"},
      {"class": 2, "topic": "input alphabet", "covered": "shared with C01 plus failure-biased operands", "open": ""},
      {"class": 3, "topic": "comparisons at equality", "covered": "snapshots compared now and at d-1 / d / d+1 for every pre-existing deadline d", "open": ""},
      {"class": 4, "topic": "configuration", "covered": "simulation_start_epoch(_ms) generated in the random sequences", "open": "sweep fixtures use the default epoch"},
      {"class": 5, "topic": "capacity thresholds", "covered": "SDS limit through the shared payloads", "open": "OBJECT ENCODING thresholds only change a constant reply"},
      {"class": 6, "topic": "fault kinds", "covered": "a panic in execute or in execute_readonly is a violation (the latter used to be dropped by .ok())", "open": ""},
      {"class": 7, "topic": "history shapes", "covered": "four fixtures (every type with and without a deadline; every key and a missing key as source and destination) + random prefixes with lazy expiry", "open": ""},
      {"class": 8, "topic": "node-global state", "covered": "transaction / script-cache commands run on a fresh twin each", "open": "not part of the visible keyspace"},
      {"class": 9, "topic": "observations", "covered": "full snapshot of twin executors; zset member map vs skip list", "open": ""},
      {"class": 10, "topic": "finding signatures", "covered": "C17:error-mutates:<CMD>:<error class> per command; the one listed finding (scripts) is tied to its cause by must_agree", "open": ""},
      {"class": 11, "topic": "harness fragility", "covered": "a prepared prefix that replays to a different keyspace is C17:harness:twin-diverged (was counted and skipped); a variant classified as executed with 0 instances is exit 3", "open": ""}
    ])
}
