//! C20 — what the SOURCE of the tree under test says about the simulation harnesses.
//!
//! The dynamic part of C20 (harness/src/c20.rs) runs harnesses in fresh processes and compares them
//! with each other and with the Lean models' predictions.  Two things no amount of running can show
//! are checked here, statically, on the source tree this binary was BUILT against (the `redis-sim`
//! path dependency of harness/Cargo.toml):
//!
//! 1. **completeness** (coverage class 1 / 4): every simulation entry point of the tree — every
//!    `pub struct …Harness / …Simulation / …Simulator / …Runner / …Builder`, every `pub fn` of those
//!    and of the kernel types, every preset constructor and every `pub` field of a harness
//!    configuration struct, every free `run_*` / `summarize_*` function of a simulation file — is
//!    either DRIVEN by c20.rs (its name occurs there as a call / a field) or listed in `NOT_DRIVEN`
//!    with the reason.  A new harness, preset, entry point or configuration field that nobody runs
//!    twice fails the check (`C20:coverage:…-not-driven:<name>`).  The table "harness → modelled /
//!    only run-twice-compared / not covered" (`HARNESSES`) is checked against the same enumeration
//!    and against c20.rs's `FAMILIES`.
//!
//! 2. **no other source of nondeterminism** — the assumption under which a Lean model that reads
//!    only (seed, configuration) can predict the trace.  The simulation-reachable modules are
//!    scanned for reads of hidden inputs: wall clock, entropy, environment, threads / tasks, real
//!    sleeps, the file system, pointer values, platform libm, and ITERATION of a hash container
//!    (`HashMap` / `HashSet` / …: `.iter() .keys() .values() .drain() .difference() for … in …`).
//!    Every occurrence must be on the allow-list `ALLOWED`, keyed by (file, function, kind, what) —
//!    not by line, so moving code does not alarm — with a justification; the justifications
//!    `sorted` and `commutative` are themselves machine-checked (the function still sorts / the
//!    chain still ends in an order-insensitive fold).  A new unlisted occurrence is a violation with
//!    file:line as the failing site (`C20:source:unlisted-nondeterminism-source:<kind>:<file>::<fn>`),
//!    a listed one whose justification no longer holds is `C20:source:justification-broken:…`.
//!
//! A failed scan (tree not found, a file unreadable, implausibly few files / functions) is itself
//! a violation (`C20:source:scan-failed`), never a silent pass.
use crate::out::Out;
use serde_json::json;
use std::collections::{BTreeMap, BTreeSet};

/// the source tree this binary was built against
pub fn repo_dir() -> String {
    // development aid (c20.rs reports `C20:harness:partial-run` whenever it is set): scan another tree
    if let Ok(r) = std::env::var("C20_SRC_ROOT") {
        return r;
    }
    const MANIFEST: &str = include_str!("../Cargo.toml");
    for line in MANIFEST.lines() {
        if line.trim_start().starts_with("redis-sim") {
            if let Some(i) = line.find("path = \"") {
                let rest = &line[i + 8..];
                if let Some(j) = rest.find('"') {
                    return rest[..j].to_string();
                }
            }
        }
    }
    "/repo".to_string()
}

// ------------------------------------------------------------------------------------------
// lexing
// ------------------------------------------------------------------------------------------

/// comments, string literals and char literals blanked (newlines kept): offsets and line numbers
/// of the result are those of the input
fn code_only(src: &str) -> String {
    let b: Vec<char> = src.chars().collect();
    let mut o: Vec<char> = Vec::with_capacity(b.len());
    let mut i = 0;
    let blank = |c: char| if c == '\n' { '\n' } else { ' ' };
    while i < b.len() {
        let c = b[i];
        let n = if i + 1 < b.len() { b[i + 1] } else { '\0' };
        if c == '/' && n == '/' {
            while i < b.len() && b[i] != '\n' {
                o.push(' ');
                i += 1;
            }
        } else if c == '/' && n == '*' {
            let mut depth = 0;
            while i < b.len() {
                if b[i] == '/' && i + 1 < b.len() && b[i + 1] == '*' {
                    depth += 1;
                    o.push(' ');
                    o.push(' ');
                    i += 2;
                } else if b[i] == '*' && i + 1 < b.len() && b[i + 1] == '/' {
                    depth -= 1;
                    o.push(' ');
                    o.push(' ');
                    i += 2;
                    if depth == 0 {
                        break;
                    }
                } else {
                    o.push(blank(b[i]));
                    i += 1;
                }
            }
        } else if c == 'r' && (n == '"' || n == '#') && (i == 0 || !(b[i - 1].is_alphanumeric() || b[i - 1] == '_')) {
            // raw string r"…" / r#"…"#
            let mut j = i + 1;
            let mut hashes = 0;
            while j < b.len() && b[j] == '#' {
                hashes += 1;
                j += 1;
            }
            if j < b.len() && b[j] == '"' {
                j += 1;
                loop {
                    if j >= b.len() {
                        break;
                    }
                    if b[j] == '"' {
                        let mut k = 0;
                        while k < hashes && j + 1 + k < b.len() && b[j + 1 + k] == '#' {
                            k += 1;
                        }
                        if k == hashes {
                            j += 1 + hashes;
                            break;
                        }
                    }
                    j += 1;
                }
                o.push('"');
                for k in (i + 1)..j.saturating_sub(1) {
                    o.push(blank(b[k]));
                }
                o.push('"');
                i = j;
            } else {
                o.push(c);
                i += 1;
            }
        } else if c == '"' {
            o.push('"');
            i += 1;
            while i < b.len() && b[i] != '"' {
                if b[i] == '\\' && i + 1 < b.len() {
                    o.push(' ');
                    o.push(blank(b[i + 1]));
                    i += 2;
                } else {
                    o.push(blank(b[i]));
                    i += 1;
                }
            }
            if i < b.len() {
                o.push('"');
                i += 1;
            }
        } else if c == '\'' {
            // char literal or lifetime
            if n == '\\' {
                let mut j = i + 2;
                while j < b.len() && b[j] != '\'' {
                    j += 1;
                }
                for _ in i..=j.min(b.len() - 1) {
                    o.push(' ');
                }
                i = j + 1;
            } else if i + 2 < b.len() && b[i + 2] == '\'' {
                o.push(' ');
                o.push(' ');
                o.push(' ');
                i += 3;
            } else {
                o.push(c);
                i += 1;
            }
        } else {
            o.push(c);
            i += 1;
        }
    }
    o.into_iter().collect()
}

#[derive(Clone, Debug)]
struct Tok {
    s: String,
    line: usize,
}

fn tokens(code: &str) -> Vec<Tok> {
    let mut v = Vec::new();
    let mut line = 1;
    let cs: Vec<char> = code.chars().collect();
    let mut i = 0;
    while i < cs.len() {
        let c = cs[i];
        if c == '\n' {
            line += 1;
            i += 1;
        } else if c.is_whitespace() {
            i += 1;
        } else if c.is_alphanumeric() || c == '_' {
            let st = i;
            while i < cs.len() && (cs[i].is_alphanumeric() || cs[i] == '_') {
                i += 1;
            }
            v.push(Tok { s: cs[st..i].iter().collect(), line });
        } else {
            v.push(Tok { s: c.to_string(), line });
            i += 1;
        }
    }
    v
}

// ------------------------------------------------------------------------------------------
// one file
// ------------------------------------------------------------------------------------------

#[derive(Clone, Debug)]
pub struct FnDecl {
    /// impl type (or "-" for a free function)
    pub owner: String,
    pub name: String,
    pub is_pub: bool,
    pub has_self: bool,
    /// `&mut self` / `mut self` / `self` by value (anything but a shared `&self`)
    pub mut_self: bool,
    pub line: usize,
}

#[derive(Clone, Debug)]
pub struct Site {
    pub file: String,
    /// `Type::fn` or `fn`
    pub func: String,
    pub kind: &'static str,
    pub what: String,
    pub line: usize,
    /// the statement the occurrence is part of (tokens joined), for the justification check
    pub stmt: String,
}

#[derive(Default)]
pub struct FileScan {
    pub fns: Vec<FnDecl>,
    /// `pub struct` names with their `pub` fields
    pub structs: Vec<(String, Vec<String>, usize)>,
    pub sites: Vec<Site>,
    /// for every function (qualified name): its token text, for the `sorted` justification
    pub bodies: BTreeMap<String, String>,
    /// for every function: its signature (`fn name ( … ) -> …`) as token text
    pub sigs: BTreeMap<String, String>,
    /// the whole file as token text (test items included)
    pub text: String,
}

const HASH_TYPES: &[&str] = &["HashMap", "HashSet", "AHashMap", "AHashSet", "DashMap", "DashSet", "FxHashMap", "FxHashSet", "IndexMap"];
const ITER_METHODS: &[&str] = &[
    "iter", "iter_mut", "keys", "values", "values_mut", "into_iter", "drain", "into_keys", "into_values", "retain",
    "difference", "symmetric_difference", "intersection", "union", "extract_if",
];
const LIBM: &[&str] = &["powf", "ln", "exp", "log2", "log10", "log", "sin", "cos", "tan", "exp2", "ln_1p", "exp_m1", "tanh", "atan2", "cbrt", "hypot"];

/// adapters after which a hash container is still a hash container (or a guard / reference to it)
const PASS_METHODS: &[&str] = &["clone", "to_owned", "as_ref", "as_mut", "borrow", "borrow_mut", "lock", "read", "write", "unwrap", "expect", "deref", "deref_mut", "by_ref", "cloned", "copied"];
/// calls that iterate their argument
const ITER_SINKS: &[&str] = &["extend", "from_iter", "chain", "zip", "extend_from_slice"];

/// index after a chain of `. pass ( … )` segments starting at `j` (which must point at the first `.`)
fn pass_chain_end(t: &[Tok], mut j: usize) -> usize {
    let at = |i: usize| -> &str { if i < t.len() { t[i].s.as_str() } else { "" } };
    loop {
        if at(j) == "." && PASS_METHODS.contains(&at(j + 1)) && at(j + 2) == "(" {
            let mut d = 0i64;
            let mut k = j + 2;
            while k < t.len() {
                if at(k) == "(" {
                    d += 1;
                } else if at(k) == ")" {
                    d -= 1;
                    if d == 0 {
                        break;
                    }
                }
                k += 1;
            }
            j = k + 1;
        } else if at(j) == "?" {
            j += 1;
        } else {
            return j;
        }
    }
}

/// `[&] [mut] [*] a . b . name [. pass ( ) …] <end>` with `name` a hash container: the name
fn simple_hash_expr(t: &[Tok], start: usize, hn: &BTreeSet<String>, hn_local: &BTreeSet<String>, end: &str) -> Option<String> {
    let at = |i: usize| -> &str { if i < t.len() { t[i].s.as_str() } else { "" } };
    let mut j = start;
    while matches!(at(j), "&" | "mut" | "*") {
        j += 1;
    }
    let mut last = String::new();
    let mut segments = 0;
    loop {
        let x = at(j);
        if (x == "self" || is_ident(x)) && at(j + 1) != "(" && at(j + 1) != "!" && at(j + 1) != ":" {
            last = x.to_string();
            segments += 1;
            j += 1;
            if at(j) == "." && (at(j + 1) == "self" || is_ident(at(j + 1))) && at(j + 2) != "(" {
                j += 1;
                continue;
            }
            break;
        }
        return None;
    }
    let e = if at(j) == "." { pass_chain_end(t, j) } else { j };
    // a bare local must be typed in this file; a field path (`self.x`, `a.b.x`) may be typed by its struct anywhere
    if at(e) == end && (if segments == 1 { hn_local.contains(&last) } else { hn.contains(&last) }) {
        Some(last)
    } else {
        None
    }
}

fn is_ident(s: &str) -> bool {
    s.chars().next().map(|c| c.is_alphabetic() || c == '_').unwrap_or(false)
}

/// what the whole tree says about hash containers (pass 1)
#[derive(Default, Clone)]
pub struct Globals {
    /// type aliases of a hash container (`type RoutingTable = HashMap<…>`)
    pub hash_types: BTreeSet<String>,
    /// functions whose return type mentions a hash container
    pub hash_fns: BTreeSet<String>,
    /// struct fields declared with a hash-container type (visible from other files)
    pub hash_fields: BTreeSet<String>,
    /// `static` / `thread_local!` items: process-global state
    pub statics: BTreeSet<String>,
}

fn is_hash_type(g: &Globals, s: &str) -> bool {
    HASH_TYPES.contains(&s) || g.hash_types.contains(s)
}

pub fn collect_globals(src: &str, g: &mut Globals) {
    let t = tokens(&code_only(src));
    let at = |i: usize| -> &str { if i < t.len() { t[i].s.as_str() } else { "" } };
    for i in 0..t.len() {
        // static [mut] NAME :   (also inside thread_local! { … })
        if at(i) == "static" {
            let n = if at(i + 1) == "mut" { i + 2 } else { i + 1 };
            if is_ident(at(n)) && at(n + 1) == ":" && at(n) != "str" {
                g.statics.insert(at(n).to_string());
            }
        }
        // type X [<…>] = HashMap
        if at(i) == "type" && is_ident(at(i + 1)) {
            let mut j = i + 2;
            while j < t.len() && at(j) != "=" && at(j) != ";" {
                j += 1;
            }
            if at(j) == "=" {
                let mut k = j + 1;
                while k < t.len() && at(k) != ";" && at(k) != "<" {
                    if HASH_TYPES.contains(&at(k)) {
                        g.hash_types.insert(at(i + 1).to_string());
                    }
                    k += 1;
                }
            }
        }
        // fn f (…) -> … HashMap … {
        if at(i) == "fn" && is_ident(at(i + 1)) {
            let mut j = i + 2;
            let mut pd = 0i64;
            let mut arrow = None;
            while j < t.len() {
                let x = at(j);
                if x == "(" || x == "[" {
                    pd += 1;
                } else if x == ")" || x == "]" {
                    pd -= 1;
                } else if pd == 0 && (x == "{" || x == ";") {
                    break;
                } else if pd == 0 && x == ">" && at(j - 1) == "-" && arrow.is_none() {
                    arrow = Some(j);
                }
                j += 1;
            }
            if let Some(a) = arrow {
                let mut k = a + 1;
                while k < j && at(k) != "where" {
                    if HASH_TYPES.contains(&at(k)) || g.hash_types.contains(at(k)) {
                        g.hash_fns.insert(at(i + 1).to_string());
                    }
                    k += 1;
                }
            }
        }
        // struct S { [pub] name : HashMap<…> }
        if at(i) == "struct" && is_ident(at(i + 1)) {
            let mut j = i + 2;
            while j < t.len() && at(j) != "{" && at(j) != ";" && at(j) != "(" {
                j += 1;
            }
            if at(j) == "{" {
                let mut d = 0i64;
                let mut k = j;
                while k < t.len() {
                    let x = at(k);
                    if x == "{" {
                        d += 1;
                    } else if x == "}" {
                        d -= 1;
                        if d == 0 {
                            break;
                        }
                    } else if d == 1 && is_ident(x) && at(k + 1) == ":" && at(k + 2) != ":" {
                        // type tokens up to the `,` at depth 0
                        let mut m = k + 2;
                        let mut ad = 0i64;
                        let mut hashy = false;
                        while m < t.len() {
                            let y = at(m);
                            if y == "<" || y == "(" {
                                ad += 1;
                            } else if y == ">" || y == ")" {
                                ad -= 1;
                            } else if (y == "," && ad <= 0) || y == "}" {
                                break;
                            }
                            if ad == 0 && (HASH_TYPES.contains(&y) || g.hash_types.contains(y)) {
                                hashy = true;
                            }
                            if ad == 1 && (HASH_TYPES.contains(&y) || g.hash_types.contains(y)) && matches!(at(m - 2), "Option" | "Arc" | "Mutex" | "RwLock" | "Box" | "RefCell" | "Rc") {
                                hashy = true;
                            }
                            m += 1;
                        }
                        if hashy {
                            g.hash_fields.insert(x.to_string());
                        }
                        k = m;
                        continue;
                    }
                    k += 1;
                }
            }
        }
    }
}

/// names declared with a hash-container type anywhere in the file (fields, parameters, lets)
fn hash_names(t: &[Tok], g: &Globals) -> BTreeSet<String> {
    let mut names: BTreeSet<String> = g.hash_fields.clone();
    let at = |i: usize| -> &str { if i < t.len() { t[i].s.as_str() } else { "" } };
    // `let [mut] name [: T] = … f ( … ) [? | .clone() | .unwrap() | .await …] ;` with f returning a hash container
    for i in 0..t.len() {
        if at(i) != "let" {
            continue;
        }
        let mut n = i + 1;
        if at(n) == "mut" {
            n += 1;
        }
        if !is_ident(at(n)) {
            continue;
        }
        let name = at(n).to_string();
        // statement end
        let mut z = n + 1;
        let mut d = 0i64;
        while z < t.len() {
            let x = at(z);
            if x == "(" || x == "[" || x == "{" {
                d += 1;
            } else if x == ")" || x == "]" || x == "}" {
                d -= 1;
                if d < 0 {
                    break;
                }
            } else if x == ";" && d == 0 {
                break;
            }
            z += 1;
        }
        // walk back over trailing adapters to the last call
        let mut e = z;
        loop {
            if e >= 1 && at(e - 1) == "?" {
                e -= 1;
            } else if e >= 2 && at(e - 1) == "await" && at(e - 2) == "." {
                e -= 2;
            } else if e >= 4 && at(e - 1) == ")" && at(e - 2) == "(" && at(e - 4) == "." && matches!(at(e - 3), "clone" | "unwrap" | "unwrap_or_default" | "cloned" | "to_owned") {
                e -= 4;
            } else {
                break;
            }
        }
        if e >= 1 && at(e - 1) == ")" {
            // matching open paren
            let mut d = 0i64;
            let mut o = e - 1;
            loop {
                if at(o) == ")" {
                    d += 1;
                } else if at(o) == "(" {
                    d -= 1;
                    if d == 0 {
                        break;
                    }
                }
                if o == 0 {
                    break;
                }
                o -= 1;
            }
            if o >= 1 && g.hash_fns.contains(at(o - 1)) {
                names.insert(name);
            }
        }
    }
    for i in 0..t.len() {
        if !is_hash_type(g, t[i].s.as_str()) {
            continue;
        }
        // `name : [& ['a] [mut]] [Option <] [std :: collections ::] HashMap`
        let mut j = i;
        // skip a path prefix `a :: b ::`
        while j >= 3 && t[j - 1].s == ":" && t[j - 2].s == ":" && is_ident(&t[j - 3].s) {
            j -= 3;
        }
        let mut k = j;
        loop {
            if k == 0 {
                break;
            }
            let p = t[k - 1].s.as_str();
            if p == "&" || p == "mut" || p == "<" || p == "Option" || p == "Arc" || p == "Mutex" || p == "RwLock" || p == "Box" || p == "RefCell" || p == "Rc" || p == "'" || (k >= 2 && t[k - 2].s == "'") {
                k -= 1;
            } else {
                break;
            }
        }
        if k >= 2 && t[k - 1].s == ":" && t[k - 2].s != ":" && is_ident(&t[k - 2].s) {
            names.insert(t[k - 2].s.clone());
        }
        // `let [mut] name = HashMap :: new` / `let name : … = … collect :: < HashSet`
        // walk back to the start of the statement and look for `let [mut] name`
        let mut s = i;
        let mut steps = 0;
        while s > 0 && steps < 60 && t[s - 1].s != ";" && t[s - 1].s != "{" && t[s - 1].s != "}" {
            s -= 1;
            steps += 1;
        }
        if s < t.len() && t[s].s == "let" {
            let mut n = s + 1;
            if n < t.len() && t[n].s == "mut" {
                n += 1;
            }
            if n < t.len() && is_ident(&t[n].s) {
                names.insert(t[n].s.clone());
            }
        }
    }
    names
}

pub fn scan_file(rel: &str, src: &str, g: &Globals) -> FileScan {
    let code = code_only(src);
    let t = tokens(&code);
    let hn = hash_names(&t, g);
    // names typed by a declaration in THIS file only (a bare local that merely shares its name with a
    // hash-typed struct field of another file is not a hash container)
    let hn_local = {
        let mut g2 = g.clone();
        g2.hash_fields.clear();
        hash_names(&t, &g2)
    };
    let mut fs = FileScan::default();
    fs.text = t.iter().map(|x| x.s.as_str()).collect::<Vec<_>>().join(" ");

    #[derive(Clone)]
    enum B {
        Impl(String),
        Fn(String, usize),
        Other,
    }
    let mut stack: Vec<B> = Vec::new();
    let mut cfg_test = false;
    let mut i = 0;
    let at = |i: usize| -> &str { if i < t.len() { t[i].s.as_str() } else { "" } };
    // matching close brace of the `{` at index `open`
    let close_of = |open: usize| -> usize {
        let mut d = 0i64;
        let mut j = open;
        while j < t.len() {
            if t[j].s == "{" {
                d += 1;
            } else if t[j].s == "}" {
                d -= 1;
                if d == 0 {
                    return j;
                }
            }
            j += 1;
        }
        t.len()
    };
    let cur_fn = |stack: &Vec<B>| -> Option<String> {
        let mut owner = String::new();
        let mut f: Option<String> = None;
        for b in stack {
            match b {
                B::Impl(n) => owner = n.clone(),
                B::Fn(n, _) => {
                    if f.is_none() {
                        f = Some(n.clone());
                    }
                }
                B::Other => {}
            }
        }
        f.map(|f| if owner.is_empty() { f } else { format!("{}::{}", owner, f) })
    };
    while i < t.len() {
        let s = at(i);
        // #[cfg(test)] / #[cfg(all(test, …))] / #[test]
        if s == "#" && at(i + 1) == "[" {
            let mut j = i + 2;
            let mut d = 1;
            let mut is_test = false;
            while j < t.len() && d > 0 {
                if t[j].s == "[" {
                    d += 1;
                } else if t[j].s == "]" {
                    d -= 1;
                } else if t[j].s == "test" {
                    is_test = true;
                }
                j += 1;
            }
            if is_test {
                cfg_test = true;
            }
            i = j;
            continue;
        }
        match s {
            "impl" if !stack.iter().any(|b| matches!(b, B::Fn(..))) => {
                // header up to `{`
                let mut j = i + 1;
                let mut hdr: Vec<&str> = Vec::new();
                while j < t.len() && t[j].s != "{" && t[j].s != ";" {
                    hdr.push(t[j].s.as_str());
                    j += 1;
                }
                if let Some(w) = hdr.iter().position(|x| *x == "where") {
                    hdr.truncate(w);
                }
                let after_for: Vec<&str> = match hdr.iter().rposition(|x| *x == "for") {
                    Some(p) => hdr[p + 1..].to_vec(),
                    None => {
                        // skip leading generics
                        let mut k = 0;
                        if hdr.first() == Some(&"<") {
                            let mut d = 0;
                            while k < hdr.len() {
                                if hdr[k] == "<" {
                                    d += 1;
                                } else if hdr[k] == ">" {
                                    d -= 1;
                                    if d == 0 {
                                        k += 1;
                                        break;
                                    }
                                }
                                k += 1;
                            }
                        }
                        hdr[k..].to_vec()
                    }
                };
                let mut name = String::new();
                for x in &after_for {
                    if *x == "<" {
                        break;
                    }
                    if is_ident(x) {
                        name = x.to_string();
                    }
                }
                if at(j) == "{" {
                    if cfg_test {
                        i = close_of(j) + 1;
                        cfg_test = false;
                        continue;
                    }
                    stack.push(B::Impl(name));
                    i = j + 1;
                } else {
                    i = j + 1;
                }
                cfg_test = false;
                continue;
            }
            "mod" if is_ident(at(i + 1)) => {
                if at(i + 2) == "{" {
                    if cfg_test || at(i + 1) == "tests" {
                        i = close_of(i + 2) + 1;
                        cfg_test = false;
                        continue;
                    }
                    stack.push(B::Other);
                    i += 3;
                    cfg_test = false;
                    continue;
                }
                cfg_test = false;
            }
            "struct" if is_ident(at(i + 1)) && !stack.iter().any(|b| matches!(b, B::Fn(..))) => {
                let is_pub = i >= 1 && (at(i - 1) == "pub" || (at(i - 1) == ")" && i >= 4 && at(i - 4) == "pub"));
                let name = at(i + 1).to_string();
                let line = t[i].line;
                // find `{` or `;` / `(`
                let mut j = i + 2;
                while j < t.len() && t[j].s != "{" && t[j].s != ";" && t[j].s != "(" {
                    j += 1;
                }
                let mut fields = Vec::new();
                if at(j) == "{" {
                    let end = close_of(j);
                    let mut k = j + 1;
                    let mut d = 0i64;
                    while k < end {
                        let x = at(k);
                        if x == "<" || x == "(" || x == "[" || x == "{" {
                            d += 1;
                        } else if x == ">" || x == ")" || x == "]" || x == "}" {
                            d -= 1;
                        } else if d == 0 && x == "pub" && is_ident(at(k + 1)) && at(k + 2) == ":" && at(k + 3) != ":" {
                            fields.push(at(k + 1).to_string());
                        }
                        k += 1;
                    }
                    i = end + 1;
                } else {
                    i = j + 1;
                }
                if is_pub && !cfg_test {
                    fs.structs.push((name, fields, line));
                }
                cfg_test = false;
                continue;
            }
            "fn" if is_ident(at(i + 1)) => {
                let name = at(i + 1).to_string();
                let line = t[i].line;
                // visibility: `pub fn`, `pub async fn`, `pub(crate) fn`, `pub const fn` …
                let mut k = i;
                let mut is_pub = false;
                let mut back = 0;
                while k > 0 && back < 8 {
                    let p = at(k - 1);
                    if p == "pub" {
                        // `pub(crate)` / `pub(super)` are not public API
                        is_pub = at(k) != "(";
                        break;
                    }
                    if p == "async" || p == "const" || p == "unsafe" || p == "extern" || p == ")" || p == "(" || p == "crate" || p == "super" {
                        k -= 1;
                        back += 1;
                    } else {
                        break;
                    }
                }
                // parameters
                let mut j = i + 2;
                // generics
                if at(j) == "<" {
                    let mut d = 0;
                    while j < t.len() {
                        if t[j].s == "<" {
                            d += 1;
                        } else if t[j].s == ">" && at(j - 1) != "-" {
                            d -= 1;
                            if d == 0 {
                                j += 1;
                                break;
                            }
                        }
                        j += 1;
                    }
                }
                let mut has_self = false;
                let mut mut_self = false;
                if at(j) == "(" {
                    let mut m = j + 1;
                    let mut shared = false;
                    let mut mutable = false;
                    while m < t.len() && (at(m) == "&" || at(m) == "mut" || at(m) == "'" || (m >= 1 && at(m - 1) == "'")) {
                        if at(m) == "&" {
                            shared = true;
                        }
                        if at(m) == "mut" {
                            mutable = true;
                        }
                        m += 1;
                    }
                    has_self = at(m) == "self";
                    mut_self = has_self && (mutable || !shared);
                }
                let mut pd = 0i64;
                while j < t.len() {
                    let x = at(j);
                    if x == "(" || x == "[" {
                        pd += 1;
                    } else if x == ")" || x == "]" {
                        pd -= 1;
                    } else if pd == 0 && (x == "{" || x == ";") {
                        break;
                    }
                    j += 1;
                }
                let owner = stack.iter().rev().find_map(|b| if let B::Impl(n) = b { Some(n.clone()) } else { None }).unwrap_or_else(|| "-".into());
                let nested = stack.iter().any(|b| matches!(b, B::Fn(..)));
                if at(j) == "{" {
                    if cfg_test {
                        i = close_of(j) + 1;
                        cfg_test = false;
                        continue;
                    }
                    if !nested {
                        fs.fns.push(FnDecl { owner: owner.clone(), name: name.clone(), is_pub, has_self, mut_self, line });
                    }
                    stack.push(B::Fn(name, j));
                    if !nested {
                        let q = cur_fn(&stack).unwrap_or_default();
                        let end = close_of(j);
                        let body: Vec<&str> = t[j..end.min(t.len())].iter().map(|x| x.s.as_str()).collect();
                        let sig: Vec<&str> = t[i..j.min(t.len())].iter().map(|x| x.s.as_str()).collect();
                        fs.sigs.insert(q.clone(), sig.join(" "));
                        fs.bodies.insert(q, body.join(" "));
                    }
                    i = j + 1;
                } else {
                    i = j + 1;
                }
                cfg_test = false;
                continue;
            }
            "{" => {
                stack.push(B::Other);
                i += 1;
                continue;
            }
            "}" => {
                stack.pop();
                i += 1;
                continue;
            }
            "use" | "enum" | "trait" | "type" | "const" | "static" => {
                if cfg_test && s != "use" {
                    // a test-only item with a block
                    let mut j = i;
                    while j < t.len() && t[j].s != "{" && t[j].s != ";" {
                        j += 1;
                    }
                    if at(j) == "{" {
                        i = close_of(j) + 1;
                        cfg_test = false;
                        continue;
                    }
                }
                cfg_test = false;
            }
            _ => {}
        }
        // ---- sites (only inside a function body) ----
        if let Some(func) = cur_fn(&stack) {
            let mut hit: Option<(&'static str, String)> = None;
            let p1 = if i >= 1 { at(i - 1) } else { "" };
            let n1 = at(i + 1);
            let n2 = at(i + 2);
            let n3 = at(i + 3);
            let path_next = n1 == ":" && n2 == ":";
            match s {
                "SystemTime" | "Instant" | "Utc" | "Local" if path_next && n3 == "now" => hit = Some(("wall-clock", format!("{}::now", s))),
                "elapsed" if p1 == "." && n1 == "(" && n2 == ")" => hit = Some(("wall-clock", "elapsed".into())),
                "thread_rng" | "from_entropy" | "OsRng" | "getrandom" | "new_v4" => hit = Some(("entropy", s.to_string())),
                // the tree's own production defaults: an entropy-seeded generator, the system clock
                "ProductionRng" => hit = Some(("entropy", "ProductionRng".into())),
                "ProductionTimeSource" | "ProductionClock" | "ProductionRuntime" if p1 != "struct" && p1 != "for" && p1 != "impl" => hit = Some(("wall-clock", s.to_string())),
                "rand" if path_next && n3 == "random" => hit = Some(("entropy", "rand::random".into())),
                // std's and ahash's RandomState: `new()` and `default()` both take per-process random keys
                "RandomState" if path_next && (n3 == "new" || n3 == "default") => hit = Some(("entropy", format!("RandomState::{}", n3))),
                "_rdtsc" | "_rdrand64_step" | "_rdrand32_step" | "_rdseed64_step" | "_rdseed32_step" => hit = Some(("entropy", s.to_string())),
                "env" if path_next && (n3 == "var" || n3 == "vars" || n3 == "args" || n3 == "var_os" || n3 == "vars_os" || n3 == "args_os") => hit = Some(("environment", format!("env::{}", n3))),
                "current_dir" | "current_exe" | "home_dir" | "hostname" | "gethostname" if n1 == "(" && p1 != "fn" => hit = Some(("environment", s.to_string())),
                "process" if path_next && n3 == "id" => hit = Some(("environment", "process::id".into())),
                "thread" if path_next && (n3 == "spawn" || n3 == "current" || n3 == "sleep" || n3 == "scope" || n3 == "park" || n3 == "yield_now") => hit = Some((if n3 == "sleep" { "real-sleep" } else { "concurrency" }, format!("thread::{}", n3))),
                // any other way of starting a thread / task: scoped threads (`s.spawn`), `thread::Builder::new().spawn`,
                // `tokio::task::spawn`, `handle.spawn`, `rayon::spawn` — everything but the two spellings matched above
                "spawn" if n1 == "(" && (p1 == "." || p1 == ":") && !(p1 == ":" && i >= 3 && matches!(at(i - 3), "thread" | "tokio")) => hit = Some(("concurrency", "spawn".into())),
                "available_parallelism" | "num_cpus" => hit = Some(("concurrency", s.to_string())),
                "tokio" if path_next && n3 == "spawn" => hit = Some(("concurrency", "tokio::spawn".into())),
                "spawn_blocking" | "spawn_local" | "par_iter" | "par_iter_mut" | "into_par_iter" => hit = Some(("concurrency", s.to_string())),
                "sleep" if p1 == ":" && n1 == "(" => hit = Some(("real-sleep", "time::sleep".into())),
                "fs" if path_next && p1 == ":" => hit = Some(("file-system", format!("fs::{}", n3))),
                "File" if path_next && (n3 == "open" || n3 == "create") => hit = Some(("file-system", format!("File::{}", n3))),
                "temp_dir" | "tempdir" | "tempfile" | "NamedTempFile" => hit = Some(("file-system", s.to_string())),
                "as" if n1 == "*" && (n2 == "const" || n2 == "mut") => hit = Some(("address", "as-raw-pointer".into())),
                "addr_of" | "addr_of_mut" => hit = Some(("address", s.to_string())),
                "as_ptr" | "as_mut_ptr" if (p1 == "." || p1 == ":") && n1 == "(" => hit = Some(("address", format!("{}()", s))),
                "into_raw" | "expose_addr" | "expose_provenance" if (p1 == "." || p1 == ":") && n1 == "(" => hit = Some(("address", format!("{}()", s))),
                "from_ref" | "from_mut" if p1 == ":" && i >= 3 && at(i - 3) == "ptr" => hit = Some(("address", format!("ptr::{}", s))),
                "MaybeUninit" | "assume_init" | "set_len" => hit = Some(("uninitialised-memory", s.to_string())),
                "FuturesUnordered" | "JoinSet" | "join_all" | "select_all" => hit = Some(("concurrency", s.to_string())),
                "select" if n1 == "!" && p1 == ":" => hit = Some(("concurrency", "select!".into())),
                _ => {}
            }
            if hit.is_none() && g.statics.contains(s) && p1 != "static" {
                hit = Some(("global-state", s.to_string()));
            }
            if hit.is_none() && p1 == "." && n1 == "(" && LIBM.contains(&s) {
                hit = Some(("platform-libm", s.to_string()));
            }
            // hash-container iteration: `name . method (`
            if hit.is_none() && hn.contains(s) && n1 == "." && ITER_METHODS.contains(&n2) && n3 == "(" {
                hit = Some(("hash-iteration", format!("{}.{}", s, n2)));
            }
            // … also behind adapters that keep the container a container: `name . clone ( ) . into_iter (`
            if hit.is_none() && hn.contains(s) && n1 == "." && PASS_METHODS.contains(&n2) {
                let e = pass_chain_end(&t, i + 1);
                if e > i + 1 && at(e) == "." && ITER_METHODS.contains(&at(e + 1)) && at(e + 2) == "(" {
                    hit = Some(("hash-iteration", format!("{}.{}", s, at(e + 1))));
                }
            }
            // a hash container handed over to something that iterates it: `v . extend ( set.clone() )`,
            // `Vec :: from_iter ( set )`, `a . chain ( & set )`, `a . zip ( set )`
            if hit.is_none() && ITER_SINKS.contains(&s) && n1 == "(" && (p1 == "." || p1 == ":") {
                if let Some(name) = simple_hash_expr(&t, i + 2, &hn, &hn_local, ")") {
                    hit = Some(("hash-iteration", format!("{}.{}-arg", name, s)));
                }
            }
            // `f ( … ) . method (` with f returning a hash container
            if hit.is_none() && s == ")" && n1 == "." && ITER_METHODS.contains(&n2) && n3 == "(" {
                let mut d = 0i64;
                let mut o = i;
                loop {
                    if at(o) == ")" {
                        d += 1;
                    } else if at(o) == "(" {
                        d -= 1;
                        if d == 0 {
                            break;
                        }
                    }
                    if o == 0 {
                        break;
                    }
                    o -= 1;
                }
                if o >= 1 && g.hash_fns.contains(at(o - 1)) {
                    hit = Some(("hash-iteration", format!("{}().{}", at(o - 1), n2)));
                }
            }
            // `for pat in [&] [mut] a . b . name {`
            if hit.is_none() && s == "in" {
                // only when this `in` belongs to a `for` (look back for `for` within the statement)
                let mut b = i;
                let mut is_for = false;
                let mut steps = 0;
                while b > 0 && steps < 40 {
                    let x = at(b - 1);
                    if x == "for" {
                        is_for = true;
                        break;
                    }
                    if x == ";" || x == "{" || x == "}" {
                        break;
                    }
                    b -= 1;
                    steps += 1;
                }
                if is_for {
                    // `[&] [mut] [*] a . b . name [. clone ( ) …] {`
                    if let Some(name) = simple_hash_expr(&t, i + 1, &hn, &hn_local, "{") {
                        hit = Some(("hash-iteration", format!("{}.for-in", name)));
                    }
                }
            }
            if let Some((kind, what)) = hit {
                // the enclosing statement
                let mut a = i;
                let mut steps = 0;
                while a > 0 && steps < 80 && !matches!(at(a - 1), ";" | "{" | "}") {
                    a -= 1;
                    steps += 1;
                }
                // forward from the START of the statement (an occurrence nested in a call's parentheses must not end
                // the statement at that call's `)`), ending at the first `;` / closing bracket at depth 0 past the site
                let mut z = a;
                let mut d = 0i64;
                steps = 0;
                while z < t.len() && steps < 280 {
                    let x = at(z);
                    if x == "(" || x == "[" || x == "{" {
                        d += 1;
                    } else if x == ")" || x == "]" || x == "}" {
                        d -= 1;
                        if d < 0 && z >= i {
                            break;
                        }
                        if d < 0 {
                            d = 0;
                        }
                    } else if x == ";" && d <= 0 && z >= i {
                        break;
                    }
                    z += 1;
                    if z > i {
                        steps += 1;
                    }
                }
                let stmt: Vec<&str> = t[a..z.min(t.len())].iter().map(|x| x.s.as_str()).collect();
                fs.sites.push(Site { file: rel.to_string(), func, kind, what, line: t[i].line, stmt: stmt.join(" ") });
            }
        }
        i += 1;
    }
    // `{:p}` lives inside string literals: the literal must be an argument of a macro invocation
    // (`format!`, `println!`, `write!`, `tracing::debug!`, `assert!`, …) to be a format string
    for (ln, lit_start) in pointer_format_literals(src) {
        let l = src.lines().nth(ln).unwrap_or("");
        let _ = lit_start;
        fs.sites.push(Site { file: rel.to_string(), func: "?".into(), kind: "address", what: "{:p}".into(), line: ln + 1, stmt: l.trim().to_string() });
    }
    fs
}

/// (line index, char offset) of every string literal that contains a pointer format spec
/// (`{:p}`, `{:#p}`, `{0:p}`, `{name:p}`, `{:>16p}` …) AND is an argument of a macro invocation
fn pointer_format_literals(src: &str) -> Vec<(usize, usize)> {
    let code: Vec<char> = code_only(src).chars().collect();
    let raw: Vec<char> = src.chars().collect();
    let mut res = Vec::new();
    if code.len() != raw.len() {
        return res;
    }
    let mut i = 0;
    while i < code.len() {
        if code[i] == '"' {
            // literal spans to the next '"' of the blanked text
            let mut j = i + 1;
            while j < code.len() && code[j] != '"' {
                j += 1;
            }
            let text: String = raw[i..j.min(raw.len())].iter().collect();
            let mut has = false;
            let tb: Vec<char> = text.chars().collect();
            let mut k = 0;
            while k < tb.len() {
                if tb[k] == '{' && k + 1 < tb.len() && tb[k + 1] != '{' {
                    let mut m = k + 1;
                    while m < tb.len() && tb[m] != '}' && tb[m] != '{' {
                        m += 1;
                    }
                    if m < tb.len() && tb[m] == '}' {
                        let spec: String = tb[k + 1..m].iter().collect();
                        if let Some((_, f)) = spec.split_once(':') {
                            if f.ends_with('p') {
                                has = true;
                            }
                        }
                    }
                    k = m;
                } else if tb[k] == '{' {
                    k += 1;
                }
                k += 1;
            }
            if has {
                // walk back to the innermost unmatched `(` / `[` / `{` and look for `ident !` before it
                let mut d = 0i64;
                let mut b = i;
                let mut in_macro = false;
                while b > 0 {
                    b -= 1;
                    let c = code[b];
                    if c == ')' || c == ']' || c == '}' {
                        d += 1;
                    } else if c == '(' || c == '[' || c == '{' {
                        if d == 0 {
                            let mut q = b;
                            while q > 0 && code[q - 1].is_whitespace() {
                                q -= 1;
                            }
                            in_macro = q > 0 && code[q - 1] == '!';
                            break;
                        }
                        d -= 1;
                    } else if c == ';' && d == 0 {
                        break;
                    }
                }
                if in_macro {
                    let ln = raw[..i].iter().filter(|c| **c == '\n').count();
                    res.push((ln, i));
                }
            }
            i = j + 1;
        } else {
            i += 1;
        }
    }
    res
}

// ------------------------------------------------------------------------------------------
// which files
// ------------------------------------------------------------------------------------------

/// tier 1: the harnesses and the simulation kernel themselves — every kind is scanned;
/// tier 2: the code under test the harnesses reach (replication state / gossip / anti-entropy,
///         streaming persistence, the data structures) — every kind is scanned as well, because
///         that is where the three genuine defects and the round-4 seed lived;
/// tier 3: the command executor — hidden-input reads only (wall clock, entropy, environment,
///         threads, sleeps, file system, pointers); the iteration order of unordered replies
///         (SMEMBERS, HGETALL, KEYS, SCAN) is specified as a relation by C01 / C16 and the harnesses
///         here compare such replies by length / as sets
pub fn tier_of(rel: &str) -> u8 {
    let r = rel;
    if r.starts_with("src/bin/") || r.contains("/tests/") || r.ends_with("_tests.rs") || r.ends_with("/tests.rs") || r.starts_with("src/stateright/") {
        return 0;
    }
    if r.starts_with("src/simulator/") || r == "src/io/simulation.rs" || r == "src/io/mod.rs" || r.starts_with("src/buggify/") || r.ends_with("_dst.rs")
        || r == "src/streaming/dst.rs" || r == "src/streaming/simulated_store.rs" || r == "src/streaming/clock.rs"
    {
        return 1;
    }
    if r.starts_with("src/replication/") || r.starts_with("src/streaming/") || r.starts_with("src/redis/data/") {
        return 2;
    }
    if r.starts_with("src/redis/") || r.starts_with("src/security/acl/") {
        return 3;
    }
    0
}

fn walk(dir: &std::path::Path, out: &mut Vec<std::path::PathBuf>) -> std::io::Result<()> {
    for e in std::fs::read_dir(dir)? {
        let e = e?;
        let p = e.path();
        if p.is_dir() {
            walk(&p, out)?;
        } else if p.extension().map(|x| x == "rs").unwrap_or(false) {
            out.push(p);
        }
    }
    Ok(())
}

pub struct Tree {
    pub globals: Globals,
    pub files: BTreeMap<String, FileScan>,
    pub errors: Vec<String>,
}

pub fn scan_tree() -> Tree {
    let root = repo_dir();
    let mut paths = Vec::new();
    let mut errors = Vec::new();
    if let Err(e) = walk(&std::path::Path::new(&root).join("src"), &mut paths) {
        errors.push(format!("walking {}/src: {}", root, e));
    }
    paths.sort();
    let mut files = BTreeMap::new();
    let mut g = Globals::default();
    for round in 0..2 {
        // two rounds: aliases found in round 0 are used for return types / fields in round 1
        let _ = round;
        for p in &paths {
            if let Ok(src) = std::fs::read_to_string(p) {
                collect_globals(&src, &mut g);
            }
        }
    }
    // names too generic to carry a type across files
    for n in ["data", "new", "default", "from", "clone", "get", "iter"] {
        g.hash_fns.remove(n);
    }
    for n in ["data", "keys", "values", "items", "entries", "fields", "members", "elements", "files", "checks", "state", "map", "set", "nodes", "counts"] {
        g.hash_fields.remove(n);
    }
    for p in paths {
        let rel = p.strip_prefix(&root).map(|x| x.to_string_lossy().to_string()).unwrap_or_else(|_| p.to_string_lossy().to_string());
        let rel = rel.trim_start_matches('/').to_string();
        match std::fs::read_to_string(&p) {
            Ok(src) => {
                files.insert(rel.clone(), scan_file(&rel, &src, &g));
            }
            Err(e) => errors.push(format!("reading {}: {}", rel, e)),
        }
    }
    Tree { files, errors, globals: g }
}

// ------------------------------------------------------------------------------------------
// part 1 — entry points
// ------------------------------------------------------------------------------------------

/// what drives the harnesses: the text of c20.rs (and of the family modules), comments stripped
fn driver_text() -> String {
    let mut s = String::new();
    for src in [include_str!("c20.rs"), include_str!("c20_more.rs"), include_str!("c20_mn.rs"), include_str!("c20_bug.rs")] {
        s.push_str(&code_only(src));
        s.push('\n');
    }
    s
}

fn word_in(text: &str, pat: &str) -> bool {
    // `pat` occurs with a non-identifier character before it
    let mut from = 0;
    while let Some(i) = text[from..].find(pat) {
        let at = from + i;
        let before = text[..at].chars().last();
        if !before.map(|c| c.is_alphanumeric() || c == '_').unwrap_or(false) {
            return true;
        }
        from = at + pat.len();
    }
    false
}

/// is this a simulation-harness-like public type?
fn harness_like(name: &str) -> bool {
    name.ends_with("Harness") || name.ends_with("Simulation") || name.ends_with("Simulator") || name.ends_with("Runner") || name == "ScenarioBuilder"
        || name.ends_with("Workload") || name == "SimulatedConnection" || name == "SimulationContext" || name == "SimulatedRng" || name == "DeterministicRng"
        || name == "ZipfianGenerator" || name == "SimulatedRuntime"
}

/// level: M = trace / result predicted by a Lean model and compared in fresh processes;
///        E = run several times (fresh processes, in-process, after another harness) and compared, no model;
///        K = kernel object driven op by op against the model (part A);
///        N = not driven (reason given)
pub const HARNESSES: &[(&str, &str, &str, &str)] = &[
    // (type, level, c20.rs family or "-", note)
    ("DeterministicRng", "K", "-", "part A: RNG det … (every pub fn is an op)"),
    ("SimulatedRng", "K", "-", "part A: RNG sim …"),
    ("Simulation", "K", "sim-executor", "part A ops SIM/HOST/TIMER/SEND/…/RUNTO + whole scripts across processes"),
    ("SimulationContext", "K", "-", "part A ops CTX/TADD/TADV/TBY/TPROC/TNEXT"),
    ("SimulatedRuntime", "N", "-", "clock()/network() return references to temporaries (cannot be called soundly); sleep/spawn need a driver loop nobody in the tree has"),
    ("GCounterDSTHarness", "M", "crdt-gcounter", ""),
    ("PNCounterDSTHarness", "M", "crdt-pncounter", ""),
    ("ORSetDSTHarness", "M", "crdt-orset", ""),
    ("VectorClockDSTHarness", "M", "crdt-vclock", ""),
    ("CrashSimulator", "M", "dst", "through DSTSimulation; its own API (checkpoint, simulate_state_loss, complete_recovery, …): family dst-api preset crash, explored"),
    ("DSTSimulation", "M", "dst", "runs: family dst (stepwise + run_operations(ops) as one call); its public API as a subclass uses it (new / with_nodes / with_faults, random_running_node, maybe_crash_node, crash_node, start_recovery, advance_time, step, record_operation, rng, context().local_time with the drawn clock offsets, BUGGIFY statistics of a fresh process): family dst-api preset sim, predicted by SimMore.runDstApi"),
    ("BatchRunner", "E", "batch", "run_default / run_sequential compared with single runs of the same seeds (family batch, preset runner)"),
    ("RedisDSTSimulation", "M", "redis-dst", "Zipf table probed from the real sampler"),
    ("ZipfianGenerator", "M", "redis-dst", "sample() probed for every draw value: monotone step function, input of the model"),
    ("ExecutorDSTHarness", "E", "executor", "draws depend on a response-driven shadow of ~59 command kinds"),
    ("ListDSTHarness", "M", "list", ""),
    ("SetDSTHarness", "M", "set", ""),
    ("HashDSTHarness", "M", "hash", ""),
    ("SortedSetDSTHarness", "M", "sorted-set", ""),
    ("TransactionDSTHarness", "M", "transaction", ""),
    ("MultiNodeSimulation", "M", "multi-node", "+ multi-node-gen (generated scenarios), partition (run_partition_test): scripts of API calls predicted by Model/SimMulti (buckets / ring owners probed from the real code); the API scenarios of family multi-node-api stay explored"),
    ("StreamingDSTHarness", "E", "streaming", ""),
    ("StreamingWorkload", "M", "streaming-workload", "operation sequence predicted and compared with the history the real harness records (workload_ops_independent_of_store)"),
    ("CompactionDSTHarness", "E", "compaction", ""),
    ("CompactionWorkload", "M", "compaction-workload", "as StreamingWorkload"),
    ("WalDSTHarness", "M", "wal", ""),
    ("PipelineSimulator", "E", "connection", "its observable result does not depend on the seed"),
    ("SimulatedConnection", "E", "connection-gen", "generated pipelines, partial reads, partial arrivals; also through PipelineSimulator"),
    ("SimulationHarness", "M", "scenario-timing", "timing (invoke / complete times) predicted (scenario_timing_independent_of_executor); replies compared across processes (also family scenario, E)"),
    ("ScenarioBuilder", "M", "scenario-timing", "run and run_with_eviction"),
    ("AclDSTHarness", "N", "-", "behind cargo feature `acl` (off in the default build, in the 691-test baseline and in this harness: enabling it here would change connection_optimized.rs for every other property); its SOURCE is covered by the nondeterminism scan below (tier 1)"),
];

/// pub fns / fields that c20.rs does not mention, and why that is acceptable
pub const NOT_DRIVEN: &[(&str, &str)] = &[
    // behind cargo feature `acl` (see HARNESSES: AclDSTHarness)
    ("run_acl_batch", "feature acl: not compiled into this harness"),
    ("summarize_acl_batch", "feature acl: not compiled into this harness"),
    ("AclDSTConfig::new", "feature acl"),
    ("AclDSTConfig::small_users", "feature acl"),
    ("AclDSTConfig::large_users", "feature acl"),
    ("AclDSTConfig::high_churn", "feature acl"),
    ("AclDSTConfig.num_operations", "feature acl"),
    ("AclDSTConfig.num_users", "feature acl"),
    ("AclDSTConfig.key_pool_size", "feature acl"),
    ("AclDSTConfig.password_pool_size", "feature acl"),
    // a hook of this framework, not a simulation entry point
    ("SimulatedConnection::verif_encode_resp", "verification hook (cfg redis_rust_verif) used by C04's correspondence"),
    // configuration fields no code reads — CHECKED: the scan finds no `.field` access in any simulation-reachable file
    ("CRDTDSTConfig.max_operations", "inert: never read"),
    ("CRDTDSTConfig.partition_prob", "inert: never read (the harnesses implement message drops only)"),
    ("CompactionDSTConfig.max_operations", "inert: never read"),
    ("StreamingDSTConfig.max_operations", "inert: never read"),
    ("DSTConfig.ops_per_step", "inert: never read"),
];

pub struct Entry {
    pub name: String,
    pub file: String,
    pub line: usize,
    pub how: String,
}

fn entry_points(tree: &Tree, out: &mut Out) -> serde_json::Value {
    let drv = driver_text();
    let not_driven: BTreeMap<&str, &str> = NOT_DRIVEN.iter().cloned().collect();
    let table: BTreeMap<&str, (&str, &str, &str)> = HARNESSES.iter().map(|(a, b, c, d)| (*a, (*b, *c, *d))).collect();
    let mut rows: BTreeMap<String, serde_json::Value> = BTreeMap::new();
    let mut seen_types: BTreeSet<String> = BTreeSet::new();
    let mut n_fns = 0usize;
    let mut n_driven = 0usize;
    let mut n_listed = 0usize;
    let mut ro_undriven: Vec<String> = Vec::new();
    let mut unrelated_free: Vec<String> = Vec::new();
    for (file, fs) in &tree.files {
        let tier = tier_of(file);
        // (a) harness-like public types anywhere outside src/bin and tests
        for (name, fields, line) in &fs.structs {
            let hl = harness_like(name);
            if hl && tier == 0 && !file.starts_with("src/bin/") && !file.contains("test") && !file.starts_with("src/stateright/") && !file.starts_with("src/production/") && !file.starts_with("src/observability") {
                out.violation(&format!("C20:coverage:simulation-file-not-accounted:{}", file),
                    &format!("{} declares the harness-like public type {} but is not in the set of simulation files C20 scans (harness/src/c20_src.rs tier_of)", file, name),
                    json!({"file": file, "line": line, "type": name}));
            }
            if tier != 1 {
                continue;
            }
            if hl {
                seen_types.insert(name.clone());
                match table.get(name.as_str()) {
                    None => out.violation(&format!("C20:coverage:harness-not-driven:{}", name),
                        &format!("{}:{} declares the simulation harness {} which no C20 family runs twice and no table row accounts for (harness/src/c20_src.rs HARNESSES)", file, line, name),
                        json!({"file": file, "line": line, "type": name})),
                    Some((level, family, note)) => {
                        rows.insert(name.clone(), json!({"file": file, "level": level, "family": family, "note": note}));
                    }
                }
            }
            // (b) configuration structs: every pub field is generated input or listed
            if name.ends_with("Config") && (file.ends_with("_dst.rs") || file.ends_with("/dst.rs") || file == "src/simulator/crash.rs" || file == "src/streaming/simulated_store.rs" || file == "src/simulator/partition_tests.rs" || file == "src/simulator/executor.rs") {
                for f in fields {
                    n_fns += 1;
                    let key = format!("{}.{}", name, f);
                    if word_in(&drv, f) {
                        n_driven += 1;
                    } else if let Some(why) = not_driven.get(key.as_str()) {
                        n_listed += 1;
                        if why.starts_with("inert") {
                            // CHECKED: nobody reads the field
                            let needle = format!(". {} ", f);
                            if let Some((rf, _)) = tree.files.iter().find(|(rf, x)| tier_of(rf) != 0 && format!("{} ", x.text).contains(&needle)) {
                                out.violation(&format!("C20:coverage:config-field-not-generated:{}", key),
                                    &format!("{} is listed as inert (never read) but {} now reads `.{}`: it must become generated input of a C20 family", key, rf, f),
                                    json!({"field": key, "read_in": rf}));
                            }
                        }
                    } else {
                        out.violation(&format!("C20:coverage:config-field-not-generated:{}", key),
                            &format!("{}: the configuration field {} is never set / read by the C20 harness (no generated configuration varies it) and is not listed in NOT_DRIVEN", file, key),
                            json!({"file": file, "field": key}));
                    }
                }
            }
        }
        if tier != 1 {
            continue;
        }
        // (c) pub fns of harness-like types, of their Config / Result types, and free pub fns
        for f in &fs.fns {
            if !f.is_pub {
                continue;
            }
            let relevant = f.owner == "-" && (file.ends_with("_dst.rs") || file.ends_with("/dst.rs") || file.starts_with("src/simulator/") || file.starts_with("src/buggify/"))
                || harness_like(&f.owner)
                || (f.owner.ends_with("Config") && !f.has_self && (file.ends_with("_dst.rs") || file.ends_with("/dst.rs") || file.starts_with("src/simulator/") || file.starts_with("src/buggify/") || file == "src/streaming/simulated_store.rs"));
            if !relevant {
                continue;
            }
            let key = if f.owner == "-" { f.name.clone() } else { format!("{}::{}", f.owner, f.name) };
            if f.owner == "-" && !(f.name.starts_with("run_") || f.name.starts_with("summarize_") || f.name.starts_with("check_")) {
                // a free function of a simulation file is an ENTRY POINT only if it can run or judge a simulation: its
                // signature or body mentions a harness-like type, a DST configuration / result, or a seeded generator.
                // An unrelated helper (`pub fn millis_per_second() -> u64`) is not; if its body holds a nondeterminism
                // site the site scan names it.
                let text = format!("{} {}", fs.sigs.get(&key).cloned().unwrap_or_default(), fs.bodies.get(&key).cloned().unwrap_or_default());
                let about_simulation = text.split(' ').any(|w| is_ident(w) && (harness_like(w) || w.ends_with("DSTConfig") || w.ends_with("DSTResult") || w == "Rng" || w == "TimestampedOperation" || w == "VirtualTime" || w == "FaultConfig"));
                if !about_simulation && !fs.sites.iter().any(|x| x.func == key) {
                    unrelated_free.push(format!("{} ({}:{})", key, file, f.line));
                    continue;
                }
            }
            n_fns += 1;
            let driven = if f.owner == "-" {
                // called, or handed to a macro / passed as a function value
                word_in(&drv, &format!("{}(", f.name)) || word_in(&drv, &format!("{},", f.name)) || word_in(&drv, &format!("{})", f.name))
            } else if f.has_self {
                drv.contains(&format!(".{}(", f.name))
            } else {
                word_in(&drv, &format!("{}::{}(", f.owner, f.name)) || word_in(&drv, &format!("{}::{}", f.owner, f.name))
            };
            if driven {
                n_driven += 1;
            } else if not_driven.contains_key(key.as_str()) {
                n_listed += 1;
            } else {
                // a type that is not driven at all (level N) accounts for its own functions
                let by_type = table.get(f.owner.as_str()).map(|x| x.0 == "N").unwrap_or(false);
                if by_type {
                    n_listed += 1;
                } else {
                    // a new `&self` accessor cannot change what a simulation does: it is an observation nobody compares
                    // yet, not an entry path nobody drives.  It is a violation only if its body holds a nondeterminism
                    // site (then the site scan names it as well); otherwise it is listed in the evidence.
                    let has_site = fs.sites.iter().any(|x| x.func == key);
                    if f.has_self && !f.mut_self && !has_site {
                        ro_undriven.push(format!("{} ({}:{})", key, file, f.line));
                        continue;
                    }
                    out.violation(&format!("C20:coverage:entry-not-driven:{}", key),
                        &format!("{}:{}: the public simulation entry point {} is never called by the C20 harness and is not listed in NOT_DRIVEN (harness/src/c20_src.rs)", file, f.line, key),
                        json!({"file": file, "line": f.line, "entry": key, "has_self": f.has_self}));
                }
            }
        }
    }
    // table rows whose type no longer exists: reported in the evidence only
    let stale: Vec<&str> = HARNESSES.iter().map(|x| x.0).filter(|n| !seen_types.contains(*n)).collect();
    // levels must agree with c20.rs FAMILIES
    for (name, level, family, _) in HARNESSES {
        if *family == "-" {
            continue;
        }
        match crate::c20::family_modelled(family) {
            None => out.violation(&format!("C20:coverage:family-missing:{}", family), &format!("table row {} names family {} which c20.rs does not run", name, family), json!({"type": name, "family": family})),
            Some(m) => {
                if (m && *level == "E") || (!m && *level == "M") {
                    out.violation(&format!("C20:coverage:level-mismatch:{}", name), &format!("table row {} says level {} but family {} has modelled={}", name, level, family, m), json!({"type": name, "family": family}));
                }
            }
        }
    }
    if n_fns < 150 || seen_types.len() < 20 {
        out.violation("C20:source:scan-failed", &format!("implausibly few simulation entry points found ({} functions / fields, {} harness types): the source scan is broken", n_fns, seen_types.len()), json!({"root": repo_dir()}));
    }
    json!({"harness_table(type → level M modelled / E explored / K kernel op-by-op / N not driven)": rows, "entry_points_and_config_fields": n_fns, "driven": n_driven,
           "listed_not_driven": n_listed, "stale_table_rows": stale,
           "readonly_accessors_not_driven(a new `&self` fn without a nondeterminism site: an observation nobody compares yet, not a violation)": ro_undriven,
           "free_functions_not_about_a_simulation(no harness-like type, DST configuration / result or generator in signature or body)": unrelated_free})
}

// ------------------------------------------------------------------------------------------
// part 2 — nondeterminism sources
// ------------------------------------------------------------------------------------------

/// justification kinds:
///  sorted       — the result is sorted (or collected into a BTree*) before anything order-sensitive
///                 sees it; CHECKED: the function body still contains a sort / BTree
///  commutative  — the iteration ends in an order-insensitive fold (sum / max / min / count / all /
///                 any / len / contains / extend-into-a-set / insert-into-a-map); CHECKED: the
///                 statement still contains one of those
///  pointwise    — every element is treated independently, nothing drawn or appended in order
///  unobservable — feeds only something no harness output contains
///  relation     — the order reaches a reply whose order Redis leaves unspecified; harnesses compare
///                 it as a set / by length (C01 / C16 specify it as a relation)
///  latent       — reaches an observable TEXT only on a failure path (a violation message)
///  production   — a production-only default (an injected clock / rng replaces it in simulation)
///  inert        — the value is read but cannot influence any harness output (explained)
///  not-hash     — the receiver is not a hash container here (name collision of the scan)
///  off-path     — the function is not reachable from any simulation file; CHECKED: no tier-1 file
///                 calls a function of that name
///  modelled     — the hidden input is an explicit parameter of the Lean model (BugCtx, pi)
///  debug-assert — inside verify_invariants / debug_assert: compiled out of the release profile the
///                 harness runs, and order-insensitive (universally quantified) anyway
pub const ALLOWED: &[(&str, usize, &str, &str)] = &[
    // (file|fn|kind|what, max occurrences, justification kind, note)
    ("src/buggify/mod.rs|BuggifyStats::merge|hash-iteration|checks.for-in", 1, "commutative", "per-key `+=` into the receiving map"),
    ("src/buggify/mod.rs|BuggifyStats::merge|hash-iteration|triggers.for-in", 1, "commutative", "per-key `+=` into the receiving map"),
    ("src/buggify/mod.rs|BuggifyStats::summary|hash-iteration|checks.keys", 1, "sorted", "fault ids sorted before the lines are formatted"),
    ("src/buggify/mod.rs|BuggifySuppressor::drop|global-state|BUGGIFY_CONTEXT", 1, "modelled", "the thread-local BUGGIFY context is the `BugCtx` / `suppressed` / `enabled` parameter of the model (store_harness_independent_of_previous_context, buggify_no_draw); every harness that consults it installs its own configuration (REQUIRED below)"),
    ("src/buggify/mod.rs|BuggifySuppressor::new|global-state|BUGGIFY_CONTEXT", 1, "modelled", "the thread-local BUGGIFY context is the `BugCtx` / `suppressed` / `enabled` parameter of the model (store_harness_independent_of_previous_context, buggify_no_draw); every harness that consults it installs its own configuration (REQUIRED below)"),
    ("src/buggify/mod.rs|get_stats|global-state|BUGGIFY_CONTEXT", 1, "modelled", "the thread-local BUGGIFY context is the `BugCtx` / `suppressed` / `enabled` parameter of the model (store_harness_independent_of_previous_context, buggify_no_draw); every harness that consults it installs its own configuration (REQUIRED below)"),
    ("src/buggify/mod.rs|reset_stats|global-state|BUGGIFY_CONTEXT", 1, "modelled", "the thread-local BUGGIFY context is the `BugCtx` / `suppressed` / `enabled` parameter of the model (store_harness_independent_of_previous_context, buggify_no_draw); every harness that consults it installs its own configuration (REQUIRED below)"),
    ("src/buggify/mod.rs|set_config|global-state|BUGGIFY_CONTEXT", 1, "modelled", "the thread-local BUGGIFY context is the `BugCtx` / `suppressed` / `enabled` parameter of the model (store_harness_independent_of_previous_context, buggify_no_draw); every harness that consults it installs its own configuration (REQUIRED below)"),
    ("src/buggify/mod.rs|should_buggify_with_prob|global-state|BUGGIFY_CONTEXT", 1, "modelled", "the thread-local BUGGIFY context is the `BugCtx` / `suppressed` / `enabled` parameter of the model (store_harness_independent_of_previous_context, buggify_no_draw); every harness that consults it installs its own configuration (REQUIRED below)"),
    ("src/buggify/mod.rs|should_buggify|global-state|BUGGIFY_CONTEXT", 1, "modelled", "the thread-local BUGGIFY context is the `BugCtx` / `suppressed` / `enabled` parameter of the model (store_harness_independent_of_previous_context, buggify_no_draw); every harness that consults it installs its own configuration (REQUIRED below)"),
    ("src/io/simulation.rs|SimulatedRuntime::clock|address|as-raw-pointer", 1, "unobservable", "pointer cast to hand out a reference to a temporary: never dereferenced by any harness (SimulatedRuntime is level N); the VALUE of the pointer is not formatted anywhere"),
    ("src/io/simulation.rs|SimulatedRuntime::network|address|as-raw-pointer", 1, "unobservable", "pointer cast to hand out a reference to a temporary: never dereferenced by any harness (SimulatedRuntime is level N); the VALUE of the pointer is not formatted anywhere"),
    ("src/redis/data/hash.rs|RedisHash::get_all|hash-iteration|fields.iter", 1, "relation", "HGETALL / HKEYS / HVALS order is unspecified; hash_dst compares keys() as a set, c20.rs sorts get_all() before printing"),
    ("src/redis/data/hash.rs|RedisHash::iter|hash-iteration|fields.iter", 1, "relation", "HGETALL / HKEYS / HVALS order is unspecified; hash_dst compares keys() as a set, c20.rs sorts get_all() before printing"),
    ("src/redis/data/hash.rs|RedisHash::keys|hash-iteration|fields.keys", 1, "relation", "HGETALL / HKEYS / HVALS order is unspecified; hash_dst compares keys() as a set, c20.rs sorts get_all() before printing"),
    ("src/redis/data/hash.rs|RedisHash::values|hash-iteration|fields.values", 1, "relation", "HGETALL / HKEYS / HVALS order is unspecified; hash_dst compares keys() as a set, c20.rs sorts get_all() before printing"),
    ("src/redis/data/hash.rs|RedisHash::verify_invariants|hash-iteration|fields.for-in", 1, "debug-assert", ""),
    ("src/redis/data/set.rs|RedisSet::members|hash-iteration|members.iter", 1, "relation", "SMEMBERS order is unspecified; set_dst collects into a HashSet, executor_dst checks the length, c20.rs sorts"),
    ("src/redis/data/set.rs|RedisSet::pop_count|hash-iteration|members.iter", 1, "relation", "SPOP returns an arbitrary member (the first in hash order): no simulation harness issues SPOP (executor_dst / set_dst generate SADD, SREM, SISMEMBER, SCARD, SMEMBERS only); scripts given to ScenarioBuilder / MultiNodeSimulation by c20.rs do not either"),
    ("src/redis/data/set.rs|RedisSet::pop|hash-iteration|members.iter", 1, "relation", "SPOP returns an arbitrary member (the first in hash order): no simulation harness issues SPOP (executor_dst / set_dst generate SADD, SREM, SISMEMBER, SCARD, SMEMBERS only); scripts given to ScenarioBuilder / MultiNodeSimulation by c20.rs do not either"),
    ("src/redis/data/set.rs|RedisSet::verify_invariants|hash-iteration|members.for-in", 1, "debug-assert", ""),
    ("src/redis/data/sorted_set.rs|RedisSortedSet::verify_invariants|hash-iteration|members.for-in", 1, "debug-assert", ""),
    ("src/redis/executor/acl_ops.rs|CommandExecutor::execute_acl_genpass|wall-clock|SystemTime::now", 1, "off-path", "ACL GENPASS seeds from the wall clock by design; behind feature `acl`, no harness issues it"),
    ("src/redis/executor_dst.rs|ExecutorDSTHarness::run_expiry_op|hash-iteration|data.keys", 1, "commutative", "collected into a HashSet (set difference below)"),
    ("src/redis/executor_dst.rs|ExecutorDSTHarness::run_expiry_op|hash-iteration|get_data().keys", 1, "commutative", "collected into a HashSet (set difference below)"),
    ("src/redis/executor_dst.rs|ExecutorDSTHarness::run_expiry_op|hash-iteration|shadow_keys.difference", 1, "commutative", "every key of the difference is removed from the shadow: the result is the same set whatever the order"),
    ("src/redis/executor_dst.rs|ExecutorDSTHarness::run_key_op|hash-iteration|data.keys", 1, "commutative", "collected into a HashSet (set difference below)"),
    ("src/redis/executor_dst.rs|ExecutorDSTHarness::run_key_op|hash-iteration|get_data().keys", 1, "commutative", "collected into a HashSet (set difference below)"),
    ("src/redis/executor_dst.rs|ExecutorDSTHarness::run_key_op|hash-iteration|shadow_keys.difference", 1, "commutative", "every key of the difference is removed from the shadow: the result is the same set whatever the order"),
    ("src/redis/executor_dst.rs|ExecutorDSTHarness::zipfian_index|platform-libm|powf", 1, "inert", "powf(u, exponent): platform libm — identical in every process on one platform (cross-platform differences are declared not covered); exponent 1.0 (all presets but chaos) is exact"),
    ("src/redis/executor_dst.rs|ShadowState::evict_expired|hash-iteration|expirations.iter", 1, "pointwise", "expired keys are collected, then each is removed: order-insensitive"),
    ("src/redis/hash_dst.rs|HashDSTHarness::check_invariants|hash-iteration|expected_fields.difference", 1, "latent", "`{:?}` of the two differences in the violation text, failure path only (same theorems)"),
    ("src/redis/hash_dst.rs|HashDSTHarness::check_invariants|hash-iteration|expected_fields.for-in", 2, "latent", "returns the FIRST offender in hash order: reaches the violation text only when the data structure is buggy; verdict independent of the order: hash_check_verdict_independent_of_order / set_…; text: …_text_depends_on_order_counterexample"),
    ("src/redis/hash_dst.rs|HashDSTHarness::check_invariants|hash-iteration|keys.difference", 1, "latent", "`{:?}` of the two differences in the violation text, failure path only (same theorems)"),
    ("src/redis/set_dst.rs|SetDSTHarness::check_invariants|hash-iteration|actual_members.difference", 1, "latent", "`{:?}` of the two differences in the violation text, failure path only (same theorems)"),
    ("src/redis/set_dst.rs|SetDSTHarness::check_invariants|hash-iteration|expected_members.difference", 1, "latent", "`{:?}` of the two differences in the violation text, failure path only (same theorems)"),
    ("src/redis/set_dst.rs|SetDSTHarness::check_invariants|hash-iteration|expected_members.for-in", 1, "latent", "returns the FIRST offender in hash order: reaches the violation text only when the data structure is buggy; verdict independent of the order: hash_check_verdict_independent_of_order / set_…; text: …_text_depends_on_order_counterexample"),
    ("src/replication/anti_entropy.rs|AntiEntropyManager::get_keys_in_buckets|hash-iteration|keys.iter", 1, "sorted", "sorted by key since dc1be9d (defect B): the receiver advances its Lamport clock per delta"),
    ("src/replication/anti_entropy.rs|AntiEntropyManager::handle_sync_request|hash-iteration|our_keys.iter", 2, "off-path", "message-level sync (`iter().take(n)`: WHICH keys are sent depends on the map order): MultiNodeSimulation syncs through get_keys_in_buckets; the response order / choice is C18`s (sim_response_order_independent)"),
    ("src/replication/anti_entropy.rs|AntiEntropyManager::peers_needing_sync|hash-iteration|divergent_peers.iter", 1, "off-path", "production anti-entropy scheduling"),
    ("src/replication/anti_entropy.rs|AntiEntropyManager::peers_needing_sync|hash-iteration|last_sync_time.for-in", 1, "off-path", "production anti-entropy scheduling"),
    ("src/replication/anti_entropy.rs|StateDigest::from_state|hash-iteration|keys.for-in", 1, "sorted", "each bucket is sorted by (key_hash, value_hash) before it is folded (C18 fix)"),
    ("src/replication/anti_entropy.rs|canonical_hash|hash-iteration|m.iter", 1, "sorted", ""),
    ("src/replication/gossip.rs|GossipState::queue_deltas|hash-iteration|routing_table.for-in", 1, "off-path", "targeted messages are queued in routing-table order: production gossip actor only — MultiNodeSimulation never uses its nodes` GossipState queue"),
    ("src/replication/gossip_router.rs|GossipRouter::peer_ids|hash-iteration|peer_addresses.keys", 1, "off-path", "returns an iterator in map order: no simulation file calls it"),
    ("src/replication/gossip_router.rs|GossipRouter::route_broadcast|hash-iteration|peer_addresses.for-in", 1, "commutative", "inserts every peer into the routing table (a map): order-insensitive"),
    ("src/replication/gossip_router.rs|GossipRouter::route_with_stats|hash-iteration|routing_table.values", 1, "commutative", "sum of the lengths"),
    ("src/replication/hash_ring.rs|HashRing::get_distribution_stats|hash-iteration|node_counts.values", 1, "off-path", "debug statistics (sum / mean / min / max of the counts)"),
    ("src/replication/lattice.rs|GCounter::eq|hash-iteration|all_keys.for-in", 1, "commutative", "union of the key sets, then a universally quantified comparison"),
    ("src/replication/lattice.rs|GCounter::eq|hash-iteration|counts.keys", 2, "commutative", "union of the key sets, then a universally quantified comparison"),
    ("src/replication/lattice.rs|GCounter::merge|hash-iteration|counts.for-in", 1, "commutative", "per-key max into the merged map"),
    ("src/replication/lattice.rs|GCounter::value|hash-iteration|counts.values", 1, "commutative", "sum: gcounter_value_order_independent"),
    ("src/replication/lattice.rs|GCounter::verify_invariants|hash-iteration|counts.values", 1, "debug-assert", ""),
    ("src/replication/lattice.rs|GSet::elements|hash-iteration|elements.iter", 1, "off-path", "iterator in set order: no simulation file uses GSet"),
    ("src/replication/lattice.rs|GSet::merge|hash-iteration|elements.union", 1, "off-path", "union collected into a set; no simulation file uses GSet"),
    ("src/replication/lattice.rs|ORSet::apply_remove|hash-iteration|removed_tags.for-in", 1, "pointwise", "every removed tag is removed from the tag set"),
    ("src/replication/lattice.rs|ORSet::elements|hash-iteration|elements.iter", 1, "latent", "iterator in map order: ORSetDSTHarness collects it into a HashSet; the order reaches only the `{:?}` of a violation (orset_verdict_independent_of_set_rendering / orset_violation_text_depends_on_order_counterexample)"),
    ("src/replication/lattice.rs|ORSet::eq|hash-iteration|elements.for-in", 1, "commutative", "universally quantified comparison"),
    ("src/replication/lattice.rs|ORSet::len|hash-iteration|elements.iter", 1, "commutative", "count"),
    ("src/replication/lattice.rs|ORSet::merge|hash-iteration|all_elements.for-in", 1, "commutative", "union of key sets; per-element union of tag sets; per-replica max of sequence numbers"),
    ("src/replication/lattice.rs|ORSet::merge|hash-iteration|elements.keys", 2, "commutative", "union of key sets; per-element union of tag sets; per-replica max of sequence numbers"),
    ("src/replication/lattice.rs|ORSet::merge|hash-iteration|next_sequence.for-in", 2, "commutative", "union of key sets; per-element union of tag sets; per-replica max of sequence numbers"),
    ("src/replication/lattice.rs|ORSet::verify_invariants|hash-iteration|elements.for-in", 2, "debug-assert", ""),
    ("src/replication/lattice.rs|ORSet::verify_invariants|hash-iteration|elements.iter", 1, "debug-assert", ""),
    ("src/replication/lattice.rs|VectorClock::eq|hash-iteration|clocks.for-in", 2, "commutative", "universally / existentially quantified comparisons"),
    ("src/replication/lattice.rs|VectorClock::happens_before|hash-iteration|clocks.for-in", 2, "commutative", "universally / existentially quantified comparisons"),
    ("src/replication/lattice.rs|VectorClock::merge|hash-iteration|clocks.for-in", 1, "commutative", "per-key max into the merged map"),
    ("src/replication/lattice.rs|VectorClock::verify_invariants|hash-iteration|clocks.for-in", 2, "debug-assert", ""),
    ("src/security/acl/commands.rs|AclCommandHandler::handle_genpass|wall-clock|SystemTime::now", 1, "off-path", "ACL GENPASS seeds from the wall clock by design; acl_dst never calls it (SETUSER / DELUSER / AUTH / checks only)"),
    ("src/security/acl/file.rs|load_acl_file|file-system|File::open", 1, "off-path", "ACL file load / save: production only"),
    ("src/security/acl/file.rs|save_acl_file|file-system|File::create", 1, "off-path", "ACL file load / save: production only"),
    ("src/security/acl/mod.rs|AclLogStore::now_epoch_secs|wall-clock|SystemTime::now", 1, "inert", "timestamp of ACL LOG entries: acl_dst never reads the log"),
    ("src/security/acl_dst.rs|AclDSTHarness::check_user_list_invariant|hash-iteration|real_names.difference", 1, "latent", "`{:?}` of the differences in the violation text, failure path only"),
    ("src/security/acl_dst.rs|AclDSTHarness::check_user_list_invariant|hash-iteration|shadow.keys", 1, "commutative", "collected into a HashSet"),
    ("src/security/acl_dst.rs|AclDSTHarness::check_user_list_invariant|hash-iteration|shadow_names.difference", 1, "latent", "`{:?}` of the differences in the violation text, failure path only"),
    ("src/security/acl_dst.rs|ShadowUser::is_command_permitted|hash-iteration|allowed_categories.for-in", 1, "commutative", "existential test over the category set (`contains` → return): order-insensitive"),
    ("src/security/acl_dst.rs|ShadowUser::is_command_permitted|hash-iteration|denied_categories.for-in", 1, "commutative", "existential test over the category set (`contains` → return): order-insensitive"),
    ("src/simulator/crash.rs|CrashSimulator::crashed_nodes|hash-iteration|node_states.iter", 1, "sorted", "sort_by_key(id) since 3012c3c (defect A); model: DstCfg.sortedNodes, dst_step_order_independent / dst_run_order_independent"),
    ("src/simulator/crash.rs|CrashSimulator::recovering_nodes|hash-iteration|node_states.iter", 1, "sorted", "sort_by_key(id) since 3012c3c (defect A); model: DstCfg.sortedNodes, dst_step_order_independent / dst_run_order_independent"),
    ("src/simulator/dst_integration.rs|ZipfianGenerator::new|platform-libm|powf", 1, "inert", "powf(k, skew): platform libm, identical in every process on one platform; the redis-dst model takes the sampler`s step function from the real code"),
    ("src/simulator/multi_node.rs|MultiNodeSimulation::count_gossip_messages|hash-iteration|routing_table.values", 1, "commutative", "sum of the lengths"),
    ("src/simulator/multi_node.rs|MultiNodeSimulation::gossip_round|hash-iteration|routing_table.into_iter", 1, "sorted", "targets sorted by id since 7f8c4c6 (defect B2): send_deltas draws per target"),
    ("src/simulator/multi_node.rs|SimulatedNode::get_all_deltas|hash-iteration|replicated_keys.iter", 1, "sorted", "sorted by key since 1d6e2a2 (was C20:accessor-in-map-order:multi-node-api:get_all_deltas); model: getAllDeltas true, accessor_sorted_order_independent"),
    ("src/streaming/clock.rs|ProductionClock::new|wall-clock|Instant::now", 1, "production", "the default clock of StreamingPersistence::new; the DST harnesses drive WriteBuffer / Compactor / RecoveryManager with Lamport times they generate"),
    ("src/streaming/clock.rs|ProductionClock::new|wall-clock|SystemTime::now", 1, "production", "the default clock of StreamingPersistence::new; the DST harnesses drive WriteBuffer / Compactor / RecoveryManager with Lamport times they generate"),
    ("src/streaming/clock.rs|ProductionClock::now|wall-clock|elapsed", 1, "production", "the default clock of StreamingPersistence::new; the DST harnesses drive WriteBuffer / Compactor / RecoveryManager with Lamport times they generate"),
    ("src/streaming/compaction.rs|CompactionWorker::run|real-sleep|time::sleep", 1, "off-path", "background worker loop"),
    ("src/streaming/compaction.rs|Compactor::compact|hash-iteration|key_to_delta.into_values", 1, "sorted", "sort_by_key(timestamp) — ties keep map order: same multiset and same byte LENGTH (what the fault draws read); the order inside a compacted segment is in no harness output (workload timestamps are strictly increasing: no ties in any preset or generated configuration)"),
    ("src/streaming/compaction.rs|Compactor::compact|hash-iteration|key_to_delta.retain", 1, "commutative", "per-entry predicate + a counter (`+=`)"),
    ("src/streaming/delta_sink.rs|PersistenceWorker::run|real-sleep|time::sleep", 1, "off-path", "background worker loop"),
    ("src/streaming/integration.rs|StreamingIntegration::start_workers|concurrency|tokio::spawn", 2, "off-path", "production wiring (tokio tasks, real intervals)"),
    ("src/streaming/integration.rs|run_delta_sink_bridge|real-sleep|time::sleep", 1, "off-path", "production wiring (tokio tasks, real intervals)"),
    ("src/streaming/integration.rs|run_delta_sink_bridge|wall-clock|Instant::now", 2, "off-path", "production wiring (tokio tasks, real intervals)"),
    ("src/streaming/integration.rs|run_delta_sink_bridge|wall-clock|elapsed", 1, "off-path", "production wiring (tokio tasks, real intervals)"),
    ("src/streaming/integration.rs|spawn_persistence_actor|concurrency|tokio::spawn", 1, "off-path", "production wiring (tokio tasks, real intervals)"),
    ("src/streaming/object_store.rs|InMemoryObjectStore::list|hash-iteration|data.iter", 1, "sorted", ""),
    ("src/streaming/object_store.rs|InMemoryObjectStore::now_ms|wall-clock|SystemTime::now", 1, "inert", "`created_at_ms` of an object: never compared, never printed by a harness (ObjectMeta of list / head is used for keys and sizes only)"),
    ("src/streaming/object_store.rs|LocalFsObjectStore::delete|file-system|fs::remove_file", 1, "off-path", "file-system store: production / integration tests; the DST harnesses use InMemoryObjectStore under SimulatedObjectStore"),
    ("src/streaming/object_store.rs|LocalFsObjectStore::ensure_parent|file-system|fs::create_dir_all", 1, "off-path", "file-system store: production / integration tests; the DST harnesses use InMemoryObjectStore under SimulatedObjectStore"),
    ("src/streaming/object_store.rs|LocalFsObjectStore::get|file-system|fs::read", 1, "off-path", "file-system store: production / integration tests; the DST harnesses use InMemoryObjectStore under SimulatedObjectStore"),
    ("src/streaming/object_store.rs|LocalFsObjectStore::head|file-system|fs::metadata", 1, "off-path", "file-system store: production / integration tests; the DST harnesses use InMemoryObjectStore under SimulatedObjectStore"),
    ("src/streaming/object_store.rs|LocalFsObjectStore::list|file-system|fs::metadata", 1, "off-path", "file-system store: production / integration tests; the DST harnesses use InMemoryObjectStore under SimulatedObjectStore"),
    ("src/streaming/object_store.rs|LocalFsObjectStore::list|file-system|fs::read_dir", 1, "off-path", "file-system store: production / integration tests; the DST harnesses use InMemoryObjectStore under SimulatedObjectStore"),
    ("src/streaming/object_store.rs|LocalFsObjectStore::put|file-system|fs::write", 1, "off-path", "file-system store: production / integration tests; the DST harnesses use InMemoryObjectStore under SimulatedObjectStore"),
    ("src/streaming/object_store.rs|LocalFsObjectStore::rename|file-system|fs::rename", 1, "off-path", "file-system store: production / integration tests; the DST harnesses use InMemoryObjectStore under SimulatedObjectStore"),
    ("src/streaming/object_store.rs|LocalFsObjectStore::temp|file-system|fs::create_dir_all", 1, "off-path", "file-system store: production / integration tests; the DST harnesses use InMemoryObjectStore under SimulatedObjectStore"),
    ("src/streaming/object_store.rs|LocalFsObjectStore::temp|file-system|temp_dir", 4, "off-path", "file-system store: production / integration tests; the DST harnesses use InMemoryObjectStore under SimulatedObjectStore"),
    ("src/streaming/object_store.rs|LocalFsObjectStore::temp|wall-clock|SystemTime::now", 1, "off-path", "file-system store: production / integration tests; the DST harnesses use InMemoryObjectStore under SimulatedObjectStore"),
    ("src/streaming/persistence.rs|PersistenceWorker::run|real-sleep|time::sleep", 1, "off-path", "background worker loop"),
    ("src/streaming/s3_store.rs|S3ObjectStore::new|environment|env::var", 2, "off-path", "feature s3"),
    ("src/streaming/simulated_store.rs|SimulatedObjectStore::get|real-sleep|time::sleep", 1, "inert", "latency sleep of a duration drawn from the seeded generator: the elapsed real time is never read back (c20.rs runs it under paused tokio time)"),
    ("src/streaming/simulated_store.rs|SimulatedObjectStore::put|real-sleep|time::sleep", 1, "inert", "latency sleep of a duration drawn from the seeded generator: the elapsed real time is never read back (c20.rs runs it under paused tokio time)"),
    ("src/streaming/wal_actor.rs|spawn_wal_actor|concurrency|tokio::spawn", 1, "off-path", "production wiring"),
    ("src/streaming/wal_store.rs|InMemoryWalStore::list|hash-iteration|files.keys", 1, "sorted", ""),
    ("src/streaming/wal_store.rs|InMemoryWalStore::simulate_crash|hash-iteration|files.values_mut", 1, "pointwise", "every file truncated to its own synced position: wal_crash_pointwise"),
    ("src/streaming/wal_store.rs|LocalWalReader::read_all|file-system|fs::read", 1, "off-path", "file-system WAL store: production"),
    ("src/streaming/wal_store.rs|LocalWalStore::create|file-system|File::create", 1, "off-path", "file-system WAL store: production"),
    ("src/streaming/wal_store.rs|LocalWalStore::create|file-system|fs::File", 1, "off-path", "file-system WAL store: production"),
    ("src/streaming/wal_store.rs|LocalWalStore::delete|file-system|fs::remove_file", 1, "off-path", "file-system WAL store: production"),
    ("src/streaming/wal_store.rs|LocalWalStore::list|file-system|fs::read_dir", 1, "off-path", "file-system WAL store: production"),
    ("src/streaming/wal_store.rs|LocalWalStore::new|file-system|fs::create_dir_all", 1, "off-path", "file-system WAL store: production"),
    ("src/streaming/write_buffer.rs|FlushWorker::run|real-sleep|time::sleep", 1, "off-path", "background worker loop"),
    ("src/streaming/write_buffer.rs|WriteBuffer::flush|wall-clock|Instant::now", 1, "inert", "`last_flush` is read only by should_flush (off-path, previous entry)"),
    ("src/streaming/write_buffer.rs|WriteBuffer::should_flush|wall-clock|elapsed", 1, "off-path", "time-based flush trigger (real elapsed time): the DST harnesses flush explicitly, by a seeded probability"),
    ("src/streaming/write_buffer.rs|WriteBufferInner::new|wall-clock|Instant::now", 1, "inert", "`last_flush` is read only by should_flush (off-path, previous entry)"),
    ("src/simulator/connection.rs|SimulatedConnection::process|entropy|ProductionRng", 1, "production", "inside #[cfg(feature = \"simulation\")]: an entropy-seeded generator decides BUGGIFY delays — builds with --features simulation are declared not covered (tools/props/C20.json); the default build does not compile it"),
    ("src/simulator/connection.rs|SimulatedConnection::send_command|entropy|ProductionRng", 1, "production", "as above (packet drop / duplicate under --features simulation)"),
    ("src/streaming/checkpoint.rs|CheckpointManager::new|wall-clock|ProductionTimeSource", 1, "production", "default time source of CheckpointManager::new; no simulation harness builds a CheckpointManager"),
    ("src/streaming/clock.rs|ProductionClock::new|wall-clock|ProductionClock", 1, "production", "its own constructor"),
    ("src/streaming/compaction.rs|Compactor::new|wall-clock|ProductionTimeSource", 1, "inert", "ON the path of CompactionDSTHarness: the tombstone cutoff is wall-clock ms − ttl, compared with LAMPORT times of the workload (1 … a few thousand): every tombstone is below the cutoff for any clock after 1970 + ttl, so the comparison has the same outcome in every run (that all tombstones are dropped is C13's finding tombstone-gc:clock-domains, not a C20 matter)"),
    ("src/streaming/persistence.rs|StreamingPersistence::new|wall-clock|ProductionClock", 1, "inert", "ON the path of StreamingDSTHarness: the clock only stamps last_flush, which is read by should_flush alone — never called by a simulation file (allow-listed off-path, machine-checked)"),
];

/// `inert` made checkable for values that are STORED: a struct field that holds a hidden input (a wall-clock
/// reading) is inert only as long as nobody outside its producer reads it.  (field, the allow-list key of the
/// read that fills it, files / functions that may mention `.field` — the producers, which copy it around).
/// A `.field` read anywhere else in a simulation-reachable module breaks the justification:
/// `C20:source:justification-broken:wall-clock:<producer>:inert` with the reader's file:line.
pub const INERT_FIELDS: &[(&str, &str, &[&str])] = &[
    ("created_at_ms", "src/streaming/object_store.rs|InMemoryObjectStore::now_ms|wall-clock|SystemTime::now",
        &["src/streaming/object_store.rs", "src/streaming/s3_store.rs"]),
    ("last_flush", "src/streaming/write_buffer.rs|WriteBuffer::flush|wall-clock|Instant::now",
        &["src/streaming/write_buffer.rs|WriteBuffer::should_flush", "src/streaming/write_buffer.rs|WriteBuffer::flush", "src/streaming/write_buffer.rs|WriteBufferInner::new",
          // the field of the same name in StreamingPersistence (stamped by its injected clock): read by should_flush alone,
          // which no simulation file calls (allow-listed off-path, machine-checked)
          "src/streaming/persistence.rs|StreamingPersistence::should_flush", "src/streaming/persistence.rs|StreamingPersistence::flush", "src/streaming/persistence.rs|StreamingPersistence::new"]),
];

/// calls that MUST be present: a harness whose fault decisions go through the thread-local BUGGIFY
/// context installs its own configuration (474577c, defect C) — otherwise its trace depends on what
/// ran earlier on the thread
pub const REQUIRED: &[(&str, &str, &str, &str)] = &[
    // (file, function, token sequence that must occur in its body, why)
    ("src/simulator/dst.rs", "DSTSimulation::with_config", "set_config (", "DSTSimulation installs the fault configuration it was given"),
    ("src/simulator/dst.rs", "DSTSimulation::with_config", "reset_stats (", "the statistics copied into SimulationResult start at zero (c6be241)"),
    ("src/simulator/dst.rs", "DSTSimulation::with_faults", "set_config (", "with_faults re-installs"),
    ("src/streaming/wal_dst.rs", "WalDSTHarness::run", "set_config (", "store faults go through should_buggify_with_prob: own context (474577c)"),
    ("src/streaming/dst.rs", "StreamingDSTHarness::new", "set_config (", "own context (474577c)"),
    ("src/streaming/compaction_dst.rs", "CompactionDSTHarness::new", "set_config (", "own context (474577c)"),
];

const COMMUTATIVE: &[&str] = &[
    ". sum (", ". count (", ". max (", ". min (", ". all (", ". any (", ". len (", ". contains (", ". contains_key (", ". is_empty (", ". product (",
    ". max_by", ". min_by", ". fold (", ". insert (", ". extend (", ". remove (", "HashSet", "HashMap", "BTreeSet", "BTreeMap", ". is_subset (", ". is_superset (", "= =", "! =",
    ". entry (", ". or_insert", ". merge (", "+ =", "return false", "return true",
];

fn sites(tree: &Tree, out: &mut Out) -> serde_json::Value {
    let allowed: BTreeMap<&str, (usize, &str, &str)> = ALLOWED.iter().map(|(k, n, j, t)| (*k, (*n, *j, *t))).collect();
    let mut by_key: BTreeMap<String, Vec<&Site>> = BTreeMap::new();
    let mut per_kind: BTreeMap<String, u64> = BTreeMap::new();
    let mut n_files = 0usize;
    let mut n_funcs = 0usize;
    for (file, fs) in &tree.files {
        let tier = tier_of(file);
        if tier == 0 {
            continue;
        }
        n_files += 1;
        n_funcs += fs.bodies.len();
        for s in &fs.sites {
            if tier == 3 && (s.kind == "hash-iteration" || s.kind == "platform-libm") {
                continue;
            }
            by_key.entry(format!("{}|{}|{}|{}", s.file, s.func, s.kind, s.what)).or_default().push(s);
            *per_kind.entry(s.kind.to_string()).or_insert(0) += 1;
        }
    }
    let dump = std::env::var("C20_DUMP_SITES").is_ok();
    let mut dumped = String::new();
    let mut used: BTreeSet<&str> = BTreeSet::new();
    let mut per_just: BTreeMap<String, u64> = BTreeMap::new();
    // allow-list entries whose code is still where the list says it is
    let present: BTreeSet<&str> = by_key.keys().filter_map(|k| allowed.get_key_value(k.as_str()).map(|(k, _)| *k)).collect();
    let mut taken: BTreeSet<&str> = BTreeSet::new();
    let mut rekeyed: Vec<String> = Vec::new();
    let mut auto_justified: Vec<String> = Vec::new();
    for (key, ss) in &by_key {
        let first = ss[0];
        // a function that was RENAMED, or whose body moved into a helper / another file, keeps its entry: an
        // unlisted site inherits the entry of the same (kind, receiver.method) whose own code is gone, if that
        // entry is in the same file or belongs to a function of the same name — the justification is re-checked
        // on the new body exactly as for a listed site
        let mut resolved = allowed.get_key_value(key.as_str()).map(|(k, v)| (*k, *v));
        if resolved.is_none() {
            let last = |f: &str| f.rsplit("::").next().unwrap_or("").to_string();
            for (k, n, j, note) in ALLOWED.iter() {
                if present.contains(k) || taken.contains(k) {
                    continue;
                }
                let p: Vec<&str> = k.split('|').collect();
                // same kind and same RECEIVER (`our_keys.iter` rewritten as `for … in our_keys` is the same iteration)
                let recv = |w: &str| w.split('.').next().unwrap_or("").to_string();
                if p.len() == 4 && p[2] == first.kind && (p[3] == first.what || (first.kind == "hash-iteration" && recv(p[3]) == recv(&first.what) && p[0] == first.file && last(p[1]) == last(&first.func)))
                    && (p[0] == first.file || last(p[1]) == last(&first.func)) {
                    taken.insert(*k);
                    rekeyed.push(format!("{} -> {}|{}", k, first.file, first.func));
                    resolved = Some((*k, (*n, *j, *note)));
                    break;
                }
            }
        }
        // an UNLISTED hash iteration that is order-insensitive on its face needs no entry (a merge moved into a
        // new helper, a loop rewritten as a chain): either its statement folds per key into a map (`.entry(…)`),
        // or its function RETURNS a hash / BTree container — and neither the statement nor the function body
        // exposes an order (no push / next / take / find / break / format / Vec / generator draw …)
        if resolved.is_none() && first.kind == "hash-iteration" {
            const EXPOSES: &[&str] = &["push", "push_str", "push_back", "push_front", "next", "take", "skip", "find", "find_map", "position", "first", "last", "nth", "break",
                "format", "write", "writeln", "print", "println", "gen_range", "gen_bool", "next_u64", "rng", "shuffle", "zip", "enumerate", "rev", "fold", "reduce", "send", "try_send",
                "Vec", "VecDeque", "String", "join", "concat", "min_by_key", "max_by_key", "min_by", "max_by"];
            let body = tree.files.get(&first.file).and_then(|f| f.bodies.get(&first.func)).cloned().unwrap_or_default();
            let sig = tree.files.get(&first.file).and_then(|f| f.sigs.get(&first.func)).cloned().unwrap_or_default();
            let exposes = |text: &str| text.split(' ').any(|w| EXPOSES.contains(&w));
            let ret = sig.rsplit_once("- >").map(|x| x.1.to_string()).unwrap_or_default();
            let returns_unordered = ret.split(' ').any(|w| HASH_TYPES.contains(&w) || w == "BTreeMap" || w == "BTreeSet" || tree.globals.hash_types.contains(w));
            let per_key_fold = ss.iter().all(|x| x.stmt.contains(". entry (") && !exposes(&x.stmt));
            if !body.is_empty() && !exposes(&body) && (per_key_fold || returns_unordered) {
                auto_justified.push(format!("{} ({}:{}: {})", key, first.file, first.line, if per_key_fold { "per-key fold into a map" } else { "feeds only the unordered container the function returns" }));
                continue;
            }
        }
        match resolved {
            None => {
                if dump {
                    dumped.push_str(&format!("    (\"{}\", {}, \"?\", \"\"), // {}:{}  {}\n", key, ss.len(), first.file, first.line, first.stmt.chars().take(160).collect::<String>()));
                }
                out.violation(&format!("C20:source:unlisted-nondeterminism-source:{}:{}::{}", first.kind, first.file, first.func),
                    &format!("{}:{}: {} `{}` in {} is not on the allow-list of harness/src/c20_src.rs (a simulation-reachable module reads a hidden input or iterates a hash container; say why the result cannot reach a trace, or sort it)", first.file, first.line, first.kind, first.what, first.func),
                    json!({"file": first.file, "line": first.line, "function": first.func, "kind": first.kind, "what": first.what, "statement": first.stmt, "occurrences": ss.len()}));
            }
            Some((k, (max, just, _note))) => {
                let (k, max, just) = (&k, &max, &just);
                used.insert(*k);
                *per_just.entry(just.to_string()).or_insert(0) += ss.len() as u64;
                if ss.len() > *max {
                    let extra = ss[*max];
                    out.violation(&format!("C20:source:unlisted-nondeterminism-source:{}:{}::{}", first.kind, first.file, first.func),
                        &format!("{}:{}: {} occurrences of {} `{}` in {} where the allow-list accounts for {}", extra.file, extra.line, ss.len(), first.kind, first.what, first.func, max),
                        json!({"file": extra.file, "line": extra.line, "function": first.func, "kind": first.kind, "what": first.what, "statement": extra.stmt, "occurrences": ss.len(), "listed": max}));
                }
                let body = tree.files.get(&first.file).and_then(|f| f.bodies.get(&first.func)).cloned().unwrap_or_default();
                let fname = first.func.rsplit("::").next().unwrap_or("").to_string();
                let broken = match *just {
                    "off-path" => {
                        // owner type mentioned AND a method of that name called in some other simulation file
                        let owner = first.func.rsplit_once("::").map(|x| x.0.to_string());
                        tree.files.iter().any(|(f, fs)| {
                            tier_of(f) == 1 && *f != first.file && {
                                let padded = format!(" {} ", fs.text);
                                let calls = padded.contains(&format!(". {} (", fname)) || padded.contains(&format!(": : {} (", fname)) || (owner.is_none() && padded.contains(&format!(" {} (", fname)));
                                let owner_seen = owner.as_ref().map(|o| padded.contains(&format!(" {} ", o))).unwrap_or(true);
                                calls && owner_seen
                            }
                        })
                    }
                    "sorted" => !(body.contains(". sort") || body.contains("BTreeMap") || body.contains("BTreeSet") || body.contains("sorted")),
                    // an order-insensitive fold — but not over floats: an f64 sum / product in hash order differs in the last bits
                    "commutative" => !ss.iter().all(|s| COMMUTATIVE.iter().any(|c| s.stmt.contains(c)) && !(s.stmt.contains("f64") && (s.stmt.contains(". sum (") || s.stmt.contains(". product (") || s.stmt.contains("+ =")))),
                    _ => false,
                };
                if broken {
                    out.violation(&format!("C20:source:justification-broken:{}:{}::{}:{}", first.kind, first.file, first.func, just),
                        &format!("{}:{}: `{}` in {} is allow-listed as `{}` but the function no longer {}", first.file, first.line, first.what, first.func, just,
                            match *just { "sorted" => "sorts the result (no .sort… / BTree… in its body)", "off-path" => "is unreachable from the simulation files (a tier-1 file now calls it)", _ => "folds it order-insensitively (no sum / max / count / all / any / insert … in the statement)" }),
                        json!({"file": first.file, "line": first.line, "function": first.func, "kind": first.kind, "what": first.what, "statement": first.stmt, "justification": just}));
                }
            }
        }
    }
    if dump {
        let _ = std::fs::write(out.dir.join("sites.txt"), dumped);
    }
    // stored hidden inputs stay inert only while nobody else reads the field
    for (field, producer, allowed_readers) in INERT_FIELDS {
        let pat_a = format!(". {} ", field);
        for (file, fs) in &tree.files {
            if tier_of(file) == 0 {
                continue;
            }
            for (func, body) in &fs.bodies {
                let padded = format!("{} ", body);
                // a read: `. field` not followed by `:` (struct literal) or `=` (assignment target)
                let mut from = 0;
                let mut reads = false;
                while let Some(i) = padded[from..].find(&pat_a) {
                    let after = padded[from + i + pat_a.len()..].trim_start();
                    if !(after.starts_with("= ") && !after.starts_with("= =")) {
                        reads = true;
                    }
                    from += i + pat_a.len();
                }
                if !reads {
                    continue;
                }
                let here = format!("{}|{}", file, func);
                if allowed_readers.iter().any(|a| *a == file.as_str() || *a == here) {
                    continue;
                }
                let p: Vec<&str> = producer.split('|').collect();
                let line = fs.fns.iter().find(|f| (if f.owner == "-" { f.name.clone() } else { format!("{}::{}", f.owner, f.name) }) == *func).map(|f| f.line).unwrap_or(0);
                out.violation(&format!("C20:source:justification-broken:{}:{}::{}:inert", p[2], p[0], p[1]),
                    &format!("{}:{}: {} reads the field `{}`, which holds a {} reading (`{}` in {}) allow-listed as `inert` because nobody read it: the hidden input now reaches this function", file, line, func, field, p[2], p[3], p[1]),
                    json!({"file": file, "function": func, "line": line, "field": field, "producer": producer}));
            }
        }
    }
    for (file, func, needle, why) in REQUIRED {
        let body = tree.files.get(*file).and_then(|f| f.bodies.get(*func));
        match body {
            None => out.violation(&format!("C20:source:required-call-missing:{}::{}", file, func), &format!("{}: function {} not found (renamed? the harness-installs-its-own-BUGGIFY-configuration check cannot be made)", file, func), json!({"file": file, "function": func})),
            Some(b) => {
                if !b.contains(needle) {
                    out.violation(&format!("C20:source:required-call-missing:{}::{}", file, func), &format!("{}: {} no longer calls `{}` — {}", file, func, needle.replace(' ', ""), why), json!({"file": file, "function": func, "needle": needle}));
                }
            }
        }
    }
    for e in &tree.errors {
        out.violation("C20:source:scan-failed", e, json!({"root": repo_dir()}));
    }
    // "implausibly small": well below what the tree has (93 files / 1556 functions in 2026-09) — a refactoring that
    // removes a few dozen helpers must not alarm, a scan that silently read a tenth of the tree must
    if n_files < 40 || n_funcs < 600 {
        out.violation("C20:source:scan-failed", &format!("implausibly small scan: {} files, {} functions under {}/src", n_files, n_funcs, repo_dir()), json!({"root": repo_dir()}));
    }
    let stale: Vec<&str> = ALLOWED.iter().map(|x| x.0).filter(|k| !used.contains(k)).collect();
    for (k, n) in &per_kind {
        out.count_n(&format!("source-site:{}", k), *n);
    }
    json!({"files_scanned": n_files, "functions_scanned": n_funcs, "sites_by_kind": per_kind, "sites_by_justification": per_just,
           "allow_list_entries": ALLOWED.len(), "stale_allow_list_entries(the code they excused is gone)": stale,
           "entries_followed_to_a_renamed_or_moved_function": rekeyed,
           "unlisted_hash_iterations_order_insensitive_on_their_face": auto_justified})
}

pub fn report(out: &mut Out) {
    let tree = scan_tree();
    let ep = entry_points(&tree, out);
    let st = sites(&tree, out);
    out.extra.insert("source_entry_points".into(), ep);
    out.extra.insert("source_nondeterminism_audit".into(), st);
}
