//! C14 — stored and gossiped updates round-trip; damaged storage is detected, not decoded.
//! Round trips (oracle, structural equality on the canonical text of every field): real
//! `WalEntry::{from_delta,encode,decode,to_delta}`, `SegmentWriter/Reader`,
//! `CheckpointWriter/Reader`, `GossipMessage::{serialize,deserialize}` for every CRDT kind and
//! shape.  Correspondence with the framing model (`Model/Codec.lean`): the images the real
//! writers produce, and the outcome (error class / decoded records) of reading every truncation
//! length and byte position x {bit flip, 0x00, 0xFF} of segment and checkpoint images (quick:
//! header/footer positions + sample; thorough: all).
use crate::c07;
use crate::c10::{boundary_values, constant_runs, le_bytes, overwrite};
use crate::enc::{hex, show_real, MCrdt, MLww, MRv};
use crate::out::Out;
use crate::rng::Rng;
use crate::Args;
use redis_sim::replication::gossip::GossipMessage;
use redis_sim::replication::lattice::ReplicaId;
use redis_sim::replication::state::{ReplicatedValue, ReplicationDelta};
use redis_sim::streaming::checkpoint::{CheckpointError, CheckpointReader, CheckpointWriter};
use redis_sim::streaming::segment::{Compression, SegmentError, SegmentReader, SegmentWriter};
use redis_sim::streaming::WalEntry;
use serde_json::json;
use std::collections::HashMap;
use std::panic::{catch_unwind, AssertUnwindSafe};

fn show_delta(d: &ReplicationDelta) -> String {
    format!("{} {} {}", hex(d.key.as_bytes()), d.source_replica.0, show_real(&d.value))
}

fn seg_err(e: &SegmentError) -> &'static str {
    match e {
        SegmentError::InvalidMagic => "magic",
        SegmentError::UnsupportedVersion(_) => "version",
        SegmentError::ChecksumMismatch { .. } => "checksum",
        SegmentError::Serialization(_) => "ser",
        SegmentError::Io(_) => "eof",
        SegmentError::Empty => "empty",
        SegmentError::UnsupportedCompression(_) => "compression",
    }
}

fn chk_err(e: &CheckpointError) -> &'static str {
    match e {
        CheckpointError::Io(_) => "eof",
        CheckpointError::Segment(_) => "segment",
        CheckpointError::Serialization(_) => "ser",
        CheckpointError::ChecksumMismatch { .. } => "checksum",
        CheckpointError::InvalidFormat(m) => {
            if m.contains("too small") {
                "tooSmall"
            } else if m.contains("Invalid magic") {
                "magic"
            } else if m.contains("Unsupported version") {
                "version"
            } else if m.contains("Missing data length") {
                "noLength"
            } else if m.contains("Missing footer") {
                "noFooter"
            } else if m.contains("Data size mismatch") {
                "size"
            } else if m.contains("data truncated") {
                "truncated"
            } else if m.contains("Compression") {
                "compression"
            } else {
                "format?"
            }
        }
    }
}

/// what recovery does with a segment object: open, validate, collect
fn read_segment(data: &[u8]) -> Result<Result<Vec<ReplicationDelta>, SegmentError>, ()> {
    catch_unwind(AssertUnwindSafe(|| {
        let r = SegmentReader::open(data)?;
        r.validate()?;
        r.deltas()?.collect::<Result<Vec<_>, _>>()
    }))
    .map_err(|_| ())
}

fn read_checkpoint(data: &[u8]) -> Result<Result<HashMap<String, ReplicatedValue>, CheckpointError>, ()> {
    catch_unwind(AssertUnwindSafe(|| {
        let r = CheckpointReader::open(data)?;
        r.validate()?;
        Ok(r.load()?.state)
    }))
    .map_err(|_| ())
}

fn show_state(st: &HashMap<String, ReplicatedValue>) -> String {
    let mut v: Vec<String> = st.iter().map(|(k, v)| format!("{}={}", hex(k.as_bytes()), show_real(v))).collect();
    v.sort();
    v.join(";")
}

fn big_payload(rng: &mut Rng, len: usize) -> Vec<u8> {
    (0..len).map(|_| rng.below(256) as u8).collect()
}

const KEYS: [&str; 8] = ["", "k", "key:é", "a\u{0}b", "\u{10FFFF}", "with space", "\r\n", "0123456789abcdefghijklmnopqrstuvwxyz"];

/// deltas of every CRDT kind and shape; keys made distinct inside one batch
fn gen_deltas(rng: &mut Rng, out: &mut Out, n: usize) -> Vec<ReplicationDelta> {
    // forked generators: what the shared value generators draw (it can depend on HashMap iteration
    // order) must not shift this harness' own random stream
    let mut prng = Rng::new(rng.next());
    let mut pool = c07::reachable_pool(&mut prng, 12, out);
    // (the stored values come out of a HashMap: canonical order, so that an index picks the same value on every run)
    pool.sort_by_key(show_real);
    let mut ds = Vec::new();
    for i in 0..n {
        let v: ReplicatedValue = match rng.below(10) {
            0..=3 => c07::random_value(rng).to_real(),
            4..=5 if !pool.is_empty() => pool[rng.below(pool.len() as u64) as usize].clone(),
            6 => {
                let mut arng = Rng::new(rng.next());
                c07::api_crdt_value(&mut arng)
            }
            7 => {
                // many hash fields
                let mut h = std::collections::BTreeMap::new();
                for j in 0..rng.range(20, 60) {
                    h.insert(format!("f{}", j), MLww { v: Some(big_payload(rng, 3)), t: rng.below(9), r: rng.range(1, 3), tomb: rng.chance(1, 5) });
                }
                MRv { crdt: MCrdt::H(h), vc: None, exp: None, t: rng.below(9), r: 1, rf: None }.to_real()
            }
            8 => {
                // binary / empty / larger string payloads, tombstones, expiry, vector clock, extremes
                let len = *rng.pick(&[0usize, 1, 255, 256, 1000]);
                let tomb = rng.chance(1, 4);
                let mut vc = std::collections::BTreeMap::new();
                vc.insert(1u64, u64::MAX);
                vc.insert(u64::MAX, 0u64);
                MRv {
                    crdt: MCrdt::Lww(MLww { v: if tomb { None } else { Some(big_payload(rng, len)) }, t: u64::MAX, r: u64::MAX, tomb }),
                    vc: Some(vc),
                    exp: Some(u64::MAX),
                    t: u64::MAX,
                    r: u64::MAX,
                    rf: Some(255),
                }
                .to_real()
            }
            _ => c07::random_value(rng).to_real(),
        };
        let kind = MRv::from_real(&v).crdt.kind_name();
        out.count(&format!("kind:{}", kind));
        let key = format!("{}#{}", rng.pick(&KEYS), i);
        ds.push(ReplicationDelta::new(key, v, ReplicaId::new(rng.range(0, 3))));
    }
    ds
}

fn roundtrips(ds: &[ReplicationDelta], rng: &mut Rng, out: &mut Out) {
    // WAL entry
    for d in ds {
        let ts = if rng.chance(1, 5) { u64::MAX } else { rng.below(1000) };
        let e = WalEntry::from_delta(d, ts).unwrap();
        let enc = e.encode();
        out.op(format!("W {} {}", ts, hex(&e.data)), hex(&enc));
        let back = match catch_unwind(AssertUnwindSafe(|| WalEntry::decode(&enc))) {
            Ok(b) => b,
            Err(_) => {
                out.violation("C14:wal-entry:panic:roundtrip", "WalEntry::decode panicked on a freshly encoded entry", json!({"entry": hex(&enc)}));
                None
            }
        };
        out.op(
            format!("wd {}", hex(&enc)),
            match &back {
                None => "none".into(),
                Some((e2, n)) => format!("{} {} {} {}", e2.timestamp, e2.checksum, hex(&e2.data), n),
            },
        );
        out.count("roundtrip:wal-entry");
        let ok = match back {
            Some((e2, n)) => n == enc.len() && e2.timestamp == ts && e2.to_delta().map(|d2| show_delta(&d2) == show_delta(d)).unwrap_or(false),
            None => false,
        };
        if !ok {
            out.violation("C14:roundtrip:wal-entry", "a delta did not survive from_delta/encode/decode/to_delta", json!({"delta": show_delta(d), "ts": ts}));
        }
    }
    gossip_roundtrips(ds, rng, out);
}

fn variant_name(m: &GossipMessage) -> &'static str {
    match m {
        GossipMessage::DeltaBatch { .. } => "DeltaBatch",
        GossipMessage::TargetedDelta { .. } => "TargetedDelta",
        GossipMessage::SyncRequest { .. } => "SyncRequest",
        GossipMessage::SyncResponse { .. } => "SyncResponse",
        GossipMessage::Heartbeat { .. } => "Heartbeat",
    }
}

/// canonical text of a gossip message: every field, payload BYTES in hex (through the public
/// fields of the registers, not through Display / serde)
fn show_gossip(m: &GossipMessage) -> String {
    let meta = match m {
        GossipMessage::DeltaBatch { source_replica, epoch, .. } => format!("{} {}", source_replica.0, epoch),
        GossipMessage::TargetedDelta { source_replica, target_replica, epoch, .. } => format!("{} {} {}", source_replica.0, target_replica.0, epoch),
        GossipMessage::SyncRequest { source_replica, known_versions } => {
            let mut kv: Vec<String> = known_versions.iter().map(|(k, v)| format!("{}={}", hex(k.as_bytes()), v)).collect();
            kv.sort();
            format!("{} {}", source_replica.0, kv.join(","))
        }
        GossipMessage::SyncResponse { source_replica, .. } => format!("{}", source_replica.0),
        GossipMessage::Heartbeat { source_replica, epoch } => format!("{} {}", source_replica.0, epoch),
    };
    let ds: Vec<String> = m.clone().into_deltas().unwrap_or_default().iter().map(show_delta).collect();
    format!("{} {} [{}]", variant_name(m), meta, ds.join(" | "))
}

/// the gossip encoding (serde_json over the derived impls) as a first-class part of the tie:
/// every delta through every message variant, payload bytes compared; every truncation of the
/// JSON frame must be rejected; byte flips are measured (JSON frames carry no checksum, so a
/// flipped digit legitimately decodes to other data: the property claims the round trip only)
static JSON_FRAMES: std::sync::atomic::AtomicU64 = std::sync::atomic::AtomicU64::new(0);

fn gossip_roundtrips(ds: &[ReplicationDelta], rng: &mut Rng, out: &mut Out) {
    let src = ReplicaId::new(rng.range(1, 3));
    let msgs = vec![
        GossipMessage::new_delta_batch(src, ds.to_vec(), rng.next()),
        GossipMessage::new_targeted_delta(src, ReplicaId::new(9), ds.to_vec(), 7),
        GossipMessage::SyncResponse { source_replica: src, deltas: ds.to_vec() },
        GossipMessage::new_heartbeat(src, u64::MAX),
        GossipMessage::SyncRequest { source_replica: src, known_versions: ds.iter().map(|d| (d.key.clone(), rng.next())).collect() },
    ];
    for m in msgs {
        let var = variant_name(&m);
        out.count(&format!("roundtrip:gossip:{}", var));
        let want = show_gossip(&m);
        let bytes = match catch_unwind(AssertUnwindSafe(|| m.serialize())) {
            Ok(Ok(b)) => b,
            _ => {
                out.op(format!("g {} 0", var), "serialize FAILED".into());
                out.violation(&format!("C14:gossip:roundtrip:{}", var), "a gossip message could not be serialised", json!({"message": want}));
                continue;
            }
        };
        let back = catch_unwind(AssertUnwindSafe(|| GossipMessage::deserialize(&bytes)));
        let got = match &back {
            Ok(Ok(m2)) => Some(show_gossip(m2)),
            _ => None,
        };
        let ok = got.as_deref() == Some(want.as_str());
        // the law `de (ser m) = some m` of the model's gossip codec instance, checked on every run
        out.op(format!("g {} {}", var, bytes.len()), if ok { "roundtrip ok".into() } else { "roundtrip DIFFERENT".into() });
        // the REAL serde_json bytes decoded by the model's canonical JSON decoder (Model/Json.lean): the text
        // of every field must be the real decoder's — so, by the model's `exact` law, the real bytes ARE the
        // model's encoding of the real message
        out.op(format!("JG {}", hex(&bytes)), match &got { Some(g) => format!("ok {}", g), None => "err".into() });
        out.count("json:frame:pristine");
        // the damaged variants of every 4th frame go through the model too (volume)
        let json_damage = JSON_FRAMES.fetch_add(1, std::sync::atomic::Ordering::Relaxed) % 4 == 0;
        if !ok {
            // name the first delta that differs, with its payload bytes
            let orig: Vec<String> = m.clone().into_deltas().unwrap_or_default().iter().map(show_delta).collect();
            let dec: Vec<String> = match back {
                Ok(Ok(m2)) => m2.into_deltas().unwrap_or_default().iter().map(show_delta).collect(),
                _ => vec![],
            };
            let first = orig.iter().zip(dec.iter()).find(|(a, b)| a != b).map(|(a, b)| json!({"sent": a, "received": b}));
            out.violation(
                &format!("C14:gossip:roundtrip:{}", var),
                "a gossip message did not survive serialize/deserialize unchanged (payload bytes compared)",
                json!({"variant": var, "first_differing_delta": first, "sent": want.chars().take(600).collect::<String>(), "received": got.map(|g| g.chars().take(600).collect::<String>()), "json": String::from_utf8_lossy(&bytes).chars().take(600).collect::<String>()}),
            );
            continue;
        }
        // truncation at every length (sampled when the frame is long): never a decoded message
        let n = bytes.len();
        for l in 0..n {
            if n > 400 && !(l < 48 || l + 48 >= n || rng.chance(1, (n / 120).max(1) as u64)) {
                continue;
            }
            out.count("damage:gossip:truncate");
            if json_damage && (l < 6 || l + 6 >= n || l % (n / 12).max(1) == 0) {
                // ... and by the model: no proper prefix of a frame is a frame (gossip_json_truncated_rejected)
                let r = catch_unwind(AssertUnwindSafe(|| GossipMessage::deserialize(&bytes[..l])));
                out.op(format!("JG {}", hex(&bytes[..l])), match r { Ok(Ok(m2)) => format!("ok {}", show_gossip(&m2)), Ok(Err(_)) => "err".into(), Err(_) => "crash".into() });
                out.count("json:frame:truncated");
            }
            match catch_unwind(AssertUnwindSafe(|| GossipMessage::deserialize(&bytes[..l]))) {
                Err(_) => out.violation("C14:gossip:panic:truncate", "deserialising a truncated gossip frame panicked", json!({"variant": var, "len": l})),
                Ok(Err(_)) => {}
                Ok(Ok(m2)) => out.violation("C14:gossip:truncate:decoded", "a truncated gossip frame was decoded", json!({"variant": var, "len": l, "of": n, "decoded": show_gossip(&m2).chars().take(300).collect::<String>()})),
            }
        }
        // byte flips: measured, not judged (no checksum on the wire)
        for _ in 0..24.min(n) {
            let p = rng.below(n as u64) as usize;
            let mut b = bytes.clone();
            b[p] ^= 1 << rng.below(8);
            if json_damage {
                // a damaged frame: where the document is still canonical (a changed digit, letter, payload byte)
                // the model's decoding must be the real one; elsewhere the model makes no claim (op JX)
                let r = catch_unwind(AssertUnwindSafe(|| GossipMessage::deserialize(&b)));
                let imp = match r { Ok(Ok(m2)) => format!("ok {}", show_gossip(&m2)), Ok(Err(_)) => "err".into(), Err(_) => "crash".into() };
                out.op(format!("JX {} {}", hex(&b), imp), "checked".into());
                out.count("json:frame:bit-flip");
            }
            match catch_unwind(AssertUnwindSafe(|| GossipMessage::deserialize(&b))) {
                Err(_) => out.violation("C14:gossip:panic:flip", "deserialising a damaged gossip frame panicked", json!({"variant": var, "pos": p})),
                Ok(Err(_)) => out.count("gossip-flip:rejected"),
                Ok(Ok(m2)) => out.count(if show_gossip(&m2) == want { "gossip-flip:identical" } else { "gossip-flip:decoded-different(no checksum on the wire)" }),
            }
        }
    }
}


// ---------------------------------------------------------------------------------------------
// the concrete bincode model (lean/RedisVerif/Model/Bincode.lean) tied to the real (de)serialiser
// ---------------------------------------------------------------------------------------------

/// the code's own deserialisation path of a delta payload (`WalEntry::to_delta`)
fn real_de_delta(b: &[u8]) -> String {
    let e = WalEntry { data: b.to_vec(), timestamp: 0, checksum: 0 };
    match catch_unwind(AssertUnwindSafe(|| e.to_delta())) {
        Err(_) => "crash".into(),
        Ok(Err(_)) => "err".into(),
        Ok(Ok(d)) => format!("ok {}", show_delta(&d)),
    }
}

/// state text in the order of the model's key codes (length, then bytes)
fn show_state_canon(st: &HashMap<String, ReplicatedValue>) -> String {
    let mut ks: Vec<&String> = st.keys().collect();
    ks.sort_by(|a, b| crate::enc::key_cmp(a, b));
    ks.iter().map(|k| format!("{}={}", hex(k.as_bytes()), show_real(&st[*k]))).collect::<Vec<_>>().join(";")
}

fn real_de_state(b: &[u8]) -> String {
    match catch_unwind(AssertUnwindSafe(|| bincode::deserialize::<redis_sim::streaming::checkpoint::CheckpointData>(b))) {
        Err(_) => "crash".into(),
        Ok(Err(_)) => "err".into(),
        Ok(Ok(d)) => format!("ok {} {}", d.state.len(), show_state_canon(&d.state)),
    }
}

/// damaged variants of a payload: prefixes, trailing bytes, byte substitutions, boundary values
/// written over every (dense) or sampled position as u64 / u32 fields
fn payload_mutations(b: &[u8], rng: &mut Rng, dense: bool) -> Vec<(Vec<u8>, &'static str)> {
    let n = b.len();
    let mut v: Vec<(Vec<u8>, &'static str)> = Vec::new();
    for l in 0..n {
        if (dense && n <= 400) || l < 4 || l + 4 >= n || rng.chance(1, (n / 12).max(1) as u64) {
            v.push((b[..l].to_vec(), "prefix"));
        }
    }
    for t in [vec![0u8], vec![0xFF; 9], vec![1, 0, 0, 0, 0, 0, 0, 0, 65]] {
        let mut x = b.to_vec();
        x.extend_from_slice(&t);
        v.push((x, "trailing-bytes"));
    }
    let step = if dense { 1 } else { (n as u64 / 10).max(6) };
    for p in 0..n {
        if !(dense || rng.chance(1, step)) {
            continue;
        }
        for val in [b[p] ^ (1 << rng.below(8)), 0, 1, 2, 0xFF] {
            // (the draw comes first: the random stream must not depend on the payload BYTES, whose map
            // order differs from run to run)
            let take = dense || rng.chance(1, 2);
            if val != b[p] && take {
                let mut x = b.to_vec();
                x[p] = val;
                v.push((x, "byte"));
            }
        }
        if dense || rng.chance(1, 3) {
            let rem = (n - p) as u64;
            for f in [0u64, 1, 2, rem.saturating_sub(8), rem.saturating_sub(7), rem.saturating_sub(9), rem, 1 << 32, 1 << 63, u64::MAX] {
                if dense || rng.chance(1, 3) {
                    v.push((overwrite(b, p, &f.to_le_bytes()), "u64-field"));
                }
            }
            for f in [0u32, 1, 5, 6, 7, u32::MAX] {
                if rng.chance(1, 3) {
                    v.push((overwrite(b, p, &f.to_le_bytes()), "u32-field"));
                }
            }
        }
    }
    v
}

/// every generated delta: its real bincode bytes decoded by the model (text of every field compared
/// with the real decoder's and with the original), every / sampled damaged variant decoded by both
fn bincode_tie(ds: &[ReplicationDelta], rng: &mut Rng, out: &mut Out, dense_first: bool) {
    for (i, d) in ds.iter().enumerate() {
        let b = bincode::serialize(d).unwrap();
        let r = real_de_delta(&b);
        out.op(format!("BD {}", hex(&b)), r.clone());
        out.count("bincode:delta:pristine");
        if r != format!("ok {}", show_delta(d)) {
            out.violation("C14:roundtrip:bincode-delta", "a delta did not survive bincode serialize/deserialize", json!({"delta": show_delta(d), "decoded": r}));
        }
        // damaged variants: densely for the first delta of every 16th batch (if small), lightly sampled for
        // one more delta per batch
        let dense = dense_first && i == 0 && b.len() <= 160;
        if b.len() > 1500 || !(dense || i == 0) {
            continue;
        }
        for (x, what) in payload_mutations(&b, rng, dense) {
            let r = real_de_delta(&x);
            out.count(&format!("bincode:delta:{}:{}", what, if r == "err" { "rejected" } else if r == "crash" { "crash" } else { "decoded" }));
            if r == "crash" {
                out.violation(&format!("C14:bincode:panic:{}", what), "deserialising a damaged delta payload panicked", json!({"payload": hex(&x), "pristine": hex(&b)}));
            }
            if what == "prefix" && r != "err" {
                out.violation("C14:bincode:truncated-payload-decoded", "a truncated delta payload was decoded", json!({"payload": hex(&x), "pristine": hex(&b), "decoded": r}));
            }
            if what == "trailing-bytes" && r != format!("ok {}", show_delta(d)) {
                out.violation("C14:bincode:trailing-bytes-change-the-value", "bytes after a delta payload changed what it decodes to", json!({"payload": hex(&x), "decoded": r}));
            }
            out.op(format!("BD {}", hex(&x)), r);
        }
    }
}

/// a tiny wire builder for hand-made payloads (shapes no real serialiser produces: duplicate map
/// keys / set elements, invalid UTF-8 keys, out-of-range tags)
struct Wb(Vec<u8>);
impl Wb {
    fn u64(mut self, v: u64) -> Self { self.0.extend_from_slice(&v.to_le_bytes()); self }
    fn u32(mut self, v: u32) -> Self { self.0.extend_from_slice(&v.to_le_bytes()); self }
    fn u8(mut self, v: u8) -> Self { self.0.push(v); self }
    fn bytes(mut self, b: &[u8]) -> Self { self.0.extend_from_slice(&(b.len() as u64).to_le_bytes()); self.0.extend_from_slice(b); self }
    fn raw(mut self, b: &[u8]) -> Self { self.0.extend_from_slice(b); self }
}

/// `key | crdt-bytes | vc none | expiry none | stamp (3,1) | rf none | source 1`
fn raw_delta(key: &[u8], crdt: &[u8]) -> Vec<u8> {
    Wb(vec![]).bytes(key).raw(crdt).u8(0).u8(0).u64(3).u64(1).u8(0).u64(1).0
}

fn crafted_payloads() -> Vec<(Vec<u8>, &'static str)> {
    let lww = |v: &[u8], t: u64, r: u64| Wb(vec![]).u8(1).bytes(v).u64(t).u64(r).u8(0).0;
    let mut v: Vec<(Vec<u8>, &'static str)> = Vec::new();
    // duplicate keys in HashMap<ReplicaId,u64>: the later pair wins
    v.push((raw_delta(b"g", &Wb(vec![]).u32(1).u64(3).u64(7).u64(10).u64(8).u64(20).u64(7).u64(30).0), "dup-key:gcounter"));
    v.push((raw_delta(b"p", &Wb(vec![]).u32(2).u64(2).u64(1).u64(1).u64(1).u64(2).u64(2).u64(5).u64(9).u64(5).u64(0).0), "dup-key:pncounter"));
    // duplicate elements in HashSet<String>
    v.push((raw_delta(b"s", &Wb(vec![]).u32(3).u64(3).bytes(b"a").bytes(b"bb").bytes(b"a").0), "dup-elem:gset"));
    // ORSet: duplicate element key (later tag set wins), duplicate tags, empty tag set
    v.push((raw_delta(b"o", &Wb(vec![]).u32(4).u64(3).bytes(b"x").u64(2).u64(1).u64(1).u64(1).u64(1).bytes(b"y").u64(0).bytes(b"x").u64(1).u64(2).u64(9).u64(1).u64(1).u64(4).0), "dup-key:orset"));
    // Hash: duplicate field
    v.push((raw_delta(b"h", &Wb(vec![]).u32(5).u64(2).bytes(b"f").raw(&lww(b"1", 1, 1)).bytes(b"f").raw(&lww(b"2", 2, 1)).0), "dup-key:hash"));
    // variant index / option tag / bool out of range
    for t in [6u32, 7, 255, 256, u32::MAX] {
        v.push((raw_delta(b"k", &Wb(vec![]).u32(t).raw(&lww(b"v", 1, 1)).0), "variant-index"));
    }
    for tag in [2u8, 3, 0x80, 0xFF] {
        v.push((raw_delta(b"k", &Wb(vec![]).u32(0).u8(tag).bytes(b"v").u64(1).u64(1).u8(0).0), "option-tag"));
        v.push((raw_delta(b"k", &Wb(vec![]).u32(0).u8(1).bytes(b"v").u64(1).u64(1).u8(tag).0), "bool-byte"));
    }
    // keys: valid and invalid UTF-8
    for k in utf8_samples() {
        v.push((raw_delta(&k, &Wb(vec![]).u32(0).raw(&lww(b"v", 1, 1)).0), "key-bytes"));
    }
    // element / field names inside the containers
    for k in [&[0xFFu8][..], &[0xC0, 0x80], &[0xED, 0xA0, 0x80], &[0xF4, 0x90, 0x80, 0x80], "é".as_bytes(), &[]] {
        v.push((raw_delta(b"s", &Wb(vec![]).u32(3).u64(1).bytes(k).0), "gset-element-bytes"));
        v.push((raw_delta(b"h", &Wb(vec![]).u32(5).u64(1).bytes(k).raw(&lww(&[0xFF, 0x00], 1, 1)).0), "hash-field-bytes"));
    }
    // counts that promise more than is there
    for n in [1u64, 2, 1 << 20, 1 << 32, 1 << 63, u64::MAX] {
        v.push((raw_delta(b"g", &Wb(vec![]).u32(1).u64(n).0), "count-beyond-input"));
        v.push((raw_delta(b"s", &Wb(vec![]).u32(3).u64(n).bytes(b"a").0), "count-beyond-input"));
        v.push((Wb(vec![]).u64(n).raw(b"abc").0, "key-length-beyond-input"));
    }
    v
}

/// byte strings around every boundary of the UTF-8 well-formedness table
fn utf8_samples() -> Vec<Vec<u8>> {
    let mut v: Vec<Vec<u8>> = vec![vec![], b"plain".to_vec(), "é€𐍈\u{10FFFF}\u{0}".as_bytes().to_vec()];
    for b0 in 0..=255u8 {
        v.push(vec![b0]);
    }
    for b0 in [0x7Fu8, 0x80, 0xBF, 0xC0, 0xC1, 0xC2, 0xDF, 0xE0, 0xEF, 0xF0, 0xF4, 0xF5] {
        for b1 in [0x00u8, 0x7F, 0x80, 0x8F, 0x90, 0x9F, 0xA0, 0xBF, 0xC0, 0xFF] {
            v.push(vec![b0, b1]);
        }
    }
    for b0 in [0xE0u8, 0xE1, 0xEC, 0xED, 0xEE, 0xEF] {
        for b1 in [0x7Fu8, 0x80, 0x9F, 0xA0, 0xBF, 0xC0] {
            for b2 in [0x7Fu8, 0x80, 0xBF, 0xC0] {
                v.push(vec![b0, b1, b2]);
            }
        }
    }
    for b0 in [0xF0u8, 0xF1, 0xF3, 0xF4, 0xF5, 0xF7, 0xF8, 0xFF] {
        for b1 in [0x7Fu8, 0x80, 0x8F, 0x90, 0xBF, 0xC0] {
            for b2 in [0x7Fu8, 0x80, 0xBF, 0xC0] {
                for b3 in [0x7Fu8, 0x80, 0xBF, 0xC0] {
                    v.push(vec![b0, b1, b2, b3]);
                }
            }
        }
    }
    // sequences: valid char followed by a torn one, etc.
    v.push(vec![0x61, 0xC3]);
    v.push(vec![0xC3, 0xA9, 0xE2, 0x82]);
    v.push(vec![0xF0, 0x90, 0x8D, 0x88, 0x61, 0xF0, 0x90, 0x8D]);
    v
}

fn bincode_fixed(out: &mut Out) {
    for k in utf8_samples() {
        out.op(format!("U8 {}", hex(&k)), if std::str::from_utf8(&k).is_ok() { "1".into() } else { "0".into() });
        out.count("bincode:utf8-sample");
    }
    for (b, what) in crafted_payloads() {
        let r = real_de_delta(&b);
        out.count(&format!("bincode:crafted:{}:{}", what, if r == "err" { "rejected" } else if r == "crash" { "crash" } else { "decoded" }));
        if r == "crash" {
            out.violation(&format!("C14:bincode:panic:{}", what), "deserialising a hand-made delta payload panicked", json!({"payload": hex(&b)}));
        }
        out.op(format!("BD {}", hex(&b)), r);
    }
    // checkpoint payloads: duplicate key (later wins), invalid key, count beyond input
    let rvb = |v: &[u8]| Wb(vec![]).u32(0).u8(1).bytes(v).u64(1).u64(1).u8(0).u8(0).u8(0).u64(1).u64(1).u8(0).0;
    let states: Vec<Vec<u8>> = vec![
        Wb(vec![]).u64(0).0,
        Wb(vec![]).u64(2).bytes(b"k").raw(&rvb(b"1")).bytes(b"k").raw(&rvb(b"2")).0,
        Wb(vec![]).u64(2).bytes(b"kk").raw(&rvb(b"1")).bytes(b"z").raw(&rvb(b"2")).0,
        Wb(vec![]).u64(1).bytes(&[0xFF]).raw(&rvb(b"1")).0,
        Wb(vec![]).u64(3).bytes(b"k").raw(&rvb(b"1")).0,
        Wb(vec![]).u64(u64::MAX).0,
        Wb(vec![]).u64(1).bytes(b"k").raw(&rvb(b"1")).raw(b"trailing").0,
    ];
    for b in states {
        out.op(format!("BS {}", hex(&b)), real_de_state(&b));
        out.count("bincode:crafted:state");
    }
}


/// cause: `CheckpointReader::load` slices `data[48..52]` and `data[52..52+len]` without a bounds check
const LOAD_PANIC_SIG: &str = "C14:checkpoint:load-without-validate:panics-on-short-image";

/// `CheckpointReader::open` + `load` WITHOUT `validate` (public API; every caller inside /repo validates first)
fn load_only(data: &[u8]) -> Result<Result<HashMap<String, ReplicatedValue>, CheckpointError>, ()> {
    catch_unwind(AssertUnwindSafe(|| {
        let r = CheckpointReader::open(data)?;
        Ok(r.load()?.state)
    }))
    .map_err(|_| ())
}

/// does `load` bounds-check a short image (1) or panic (0)?  Probed on a header-only image of a real
/// checkpoint; sent to the model with the `V` op.  The ORACLE on this path is unconditional.
fn probe_load_checked() -> bool {
    let img = CheckpointWriter::new(Compression::None).write(HashMap::new(), 1, 1).unwrap();
    load_only(&img[..48]).is_ok()
}

/// accessors of the opened segment / checkpoint against the model's reading of the same bytes
fn segment_accessors(ds: &[ReplicationDelta], img: &[u8], out: &mut Out) {
    let mut w = SegmentWriter::new(Compression::None);
    let mut ok = w.is_empty() && w.record_count() == 0;
    for d in ds {
        w.write_delta(d).unwrap();
    }
    ok = ok && !w.is_empty() && w.record_count() == ds.len() && w.estimated_size() == img.len();
    if !ok {
        out.violation("C14:segment:writer-accessors", "SegmentWriter::{is_empty,record_count,estimated_size} disagree with what was written", json!({"records": ds.len(), "image_len": img.len()}));
    }
    if let Ok(r) = SegmentReader::open(img) {
        let (h, f, sg) = (r.header(), r.footer(), r.segment());
        out.op(
            "SH".into(),
            format!("count {} min {} max {} hcrc {} dcrc {} usize {} csize {} total {}", h.record_count, h.min_timestamp, h.max_timestamp, h.header_checksum, f.data_checksum, f.uncompressed_size, f.compressed_size, sg.size_bytes()),
        );
        if sg.record_count() != h.record_count || sg.min_timestamp() != h.min_timestamp || sg.max_timestamp() != h.max_timestamp {
            out.violation("C14:segment:accessors", "Segment accessors disagree with the header", json!({}));
        }
        out.count("op:segment-accessors");
    }
}

fn checkpoint_accessors(img: &[u8], out: &mut Out) {
    if let Ok(r) = CheckpointReader::open(img) {
        out.op("CH".into(), format!("keys {} ts {} last {} compressed {}", r.key_count(), r.timestamp_ms(), r.last_segment_id(), r.is_compressed() as u8));
        out.count("op:checkpoint-accessors");
    }
}

struct Muts {
    cuts: Vec<usize>,
    subs: Vec<(usize, u8)>,
}

/// truncation lengths and byte substitutions; `dense` = positions that are always all exercised
fn gen_muts(img: &[u8], dense: &dyn Fn(usize) -> bool, rng: &mut Rng, thorough: bool) -> Muts {
    let n = img.len();
    let mut cuts = Vec::new();
    for l in 0..n {
        if thorough || n <= 400 || dense(l) || rng.chance(1, (n / 150).max(1) as u64) {
            cuts.push(l);
        }
    }
    let mut subs = Vec::new();
    for p in 0..n {
        if thorough {
            for b in 0..8 {
                subs.push((p, img[p] ^ (1 << b)));
            }
            subs.push((p, 0));
            subs.push((p, 0xFF));
        } else if dense(p) {
            subs.push((p, img[p] ^ (1 << rng.below(8))));
            subs.push((p, 0));
            subs.push((p, 0xFF));
        } else if rng.chance(1, (n / 60).max(1) as u64) {
            subs.push((p, img[p] ^ (1 << rng.below(8))));
            if rng.chance(1, 3) {
                subs.push((p, if rng.chance(1, 2) { 0 } else { 0xFF }));
            }
        }
    }
    subs.retain(|(p, v)| img[*p] != *v);
    Muts { cuts, subs }
}

fn segment_case(ds: &[ReplicationDelta], rng: &mut Rng, out: &mut Out, thorough: bool, source: &str) {
    let mut w = SegmentWriter::new(Compression::None);
    let mut parts = Vec::new();
    for d in ds {
        w.write_delta(d).unwrap();
        parts.push(format!("{} {}", d.value.timestamp.time, hex(&bincode::serialize(d).unwrap())));
    }
    let img = match w.finish() {
        Ok(b) => b,
        Err(e) => {
            out.op(format!("S {} {}", ds.len(), parts.join(" ")), if seg_err(&e) == "empty" { "none".into() } else { format!("err {}", seg_err(&e)) });
            return;
        }
    };
    out.op(format!("S {} {}", ds.len(), parts.join(" ")), hex(&img));
    let orig: Vec<String> = ds.iter().map(show_delta).collect();
    let show = |r: &Result<Result<Vec<ReplicationDelta>, SegmentError>, ()>| -> String {
        match r {
            Err(_) => "crash".into(),
            Ok(Err(e)) => format!("err {}", seg_err(e)),
            Ok(Ok(v)) => {
                let mut s = format!("ok {}", v.len());
                for d in v {
                    let t = show_delta(d);
                    s.push(' ');
                    s.push_str(&orig.iter().position(|o| *o == t).map(|i| i.to_string()).unwrap_or("?".into()));
                }
                s
            }
        }
    };
    let r = read_segment(&img);
    out.op(format!("IS {}", hex(&img)), show(&r));
    out.count("roundtrip:segment");
    segment_accessors(ds, &img, out);
    // damage that REACHES the deserialiser: one record byte replaced and the data checksum recomputed;
    // what comes back is compared field by field with the model's bincode decoder (no oracle: whoever
    // recomputes the checksum can store other data)
    {
        let n = img.len();
        let tries = if thorough { 120 } else { 24 };
        for _ in 0..tries {
            let p = 40 + rng.below((n - 64) as u64) as usize;
            let v = match rng.below(4) { 0 => 0u8, 1 => 0xFF, 2 => img[p] ^ (1 << rng.below(8)), _ => rng.below(256) as u8 };
            if v == img[p] {
                continue;
            }
            let mut b = img.clone();
            b[p] = v;
            let c = crc32fast::hash(&b[40..n - 24]);
            b[n - 24..n - 20].copy_from_slice(&c.to_le_bytes());
            let r = read_segment(&b);
            let imp = match &r {
                Err(_) => "crash".to_string(),
                Ok(Err(e)) => format!("err {}", seg_err(e)),
                Ok(Ok(v)) => std::iter::once(format!("ok {}", v.len())).chain(v.iter().map(show_delta)).collect::<Vec<_>>().join(" | "),
            };
            out.count(&format!("damage:segment:record-byte+checksum-recomputed:{}", if imp.starts_with("ok") { "decoded" } else if imp == "crash" { "crash" } else { "rejected" }));
            if r.is_err() {
                out.violation("C14:segment:panic:record-byte+checksum-recomputed", "reading a segment with a damaged record (valid checksum) panicked", json!({"segment": hex(&b)}));
            }
            out.op(format!("sxf {} {}", p, v), imp);
        }
    }
    out.case(&format!("seg {}", orig.join("|")), ds.len() >= 2);
    out.sample(json!({"segment": hex(&img[..img.len().min(200)]), "deltas": orig.len(), "source": source}));
    let same = |v: &Vec<ReplicationDelta>| v.len() == ds.len() && v.iter().zip(&orig).all(|(d, o)| show_delta(d) == *o);
    if !matches!(&r, Ok(Ok(v)) if same(v)) {
        out.violation("C14:roundtrip:segment", "a batch did not survive SegmentWriter/SegmentReader", json!({"deltas": orig}));
    }
    let n = img.len();
    let dense = move |p: usize| p < 40 || p + 24 >= n;
    let m = gen_muts(&img, &dense, rng, thorough);
    let mut extra_cuts: Vec<usize> = Vec::new();
    if source.starts_with("corpus") {
        // the cut right after "record 1 + 24 bytes"
        let l1 = 4 + bincode::serialize(&ds[0]).unwrap().len();
        extra_cuts.push(40 + l1 + 24);
    }
    for l in extra_cuts.into_iter().chain(m.cuts.into_iter()) {
        let r = read_segment(&img[..l]);
        out.op(format!("st {}", l), show(&r));
        out.count("damage:segment:truncate");
        match &r {
            Err(_) => out.violation("C14:segment:truncate:panic", "reading a truncated segment panicked", json!({"deltas": orig, "len": l})),
            Ok(Err(_)) => {}
            Ok(Ok(v)) => {
                let sig = if v.len() < ds.len() && v.iter().zip(&orig).all(|(d, o)| show_delta(d) == *o) {
                    "C14:segment:truncate:embedded-footer-decodes-fewer-records"
                } else {
                    "C14:segment:truncate:decoded"
                };
                out.violation(sig, &format!("a truncated segment ({} of {} bytes) passed open+validate+read_all and returned {} of {} records", l, n, v.len(), ds.len()),
                    json!({"segment": hex(&img), "truncate_to": l, "records": ds.len(), "decoded": v.len(), "source": source}));
            }
        }
    }
    // boundary values in every integer field (header: version, flags, record_count, min/max stamp,
    // header crc; every record length prefix; footer: data crc, sizes) and constant runs at every
    // field / record boundary, written over or appended after a cut
    {
        let mut fields: Vec<(usize, usize, &str)> = vec![(4, 1, "header"), (5, 1, "header"), (6, 4, "record-count"), (10, 8, "header"), (18, 8, "header"), (26, 4, "header-crc"), (n - 24, 4, "footer-crc"), (n - 20, 8, "footer-size"), (n - 12, 8, "footer-size")];
        let mut bounds: Vec<usize> = vec![0, 4, 6, 10, 18, 26, 30, 40, n - 24, n - 20, n - 4, n];
        let mut off = 40usize;
        for (i, d) in ds.iter().enumerate() {
            let l = bincode::serialize(d).unwrap().len();
            if thorough || i == 0 || i + 1 == ds.len() {
                fields.push((off, 4, "record-length"));
                bounds.extend([off, off + 4]);
            }
            off += 4 + l;
        }
        bounds.sort();
        bounds.dedup();
        let mut check = |out: &mut Out, op: String, b: &[u8], what: &str| {
            let r = read_segment(b);
            out.op(op.clone(), show(&r));
            out.count(&format!("damage:segment:{}", what));
            match &r {
                Err(_) => out.violation(&format!("C14:segment:panic:{}", what), "reading a damaged segment panicked", json!({"segment": hex(&img), "damage": op})),
                Ok(Err(_)) => {}
                Ok(Ok(d)) => {
                    if !same(d) {
                        out.violation(&format!("C14:segment:{}:decoded-different", what), "a damaged segment decoded into different data", json!({"segment": hex(&img), "damage": op}));
                    }
                }
            }
        };
        for (pos, width, what) in fields {
            let remaining = (n - pos) as u64;
            let extra = [remaining, remaining.saturating_sub(4), remaining.saturating_sub(28), (1u64 << 32) - pos as u64, (1u64 << 32) - 4 - pos as u64];
            for v in boundary_values(width, &extra) {
                let w = le_bytes(v, width);
                if img[pos..pos + width] == w[..] {
                    continue;
                }
                check(out, format!("sw {} {}", pos, hex(&w)), &overwrite(&img, pos, &w), &format!("boundary-value:{}", what));
            }
        }
        for p in bounds {
            for run in constant_runs() {
                if p < n && (thorough || run[0] != 0x55) {
                    check(out, format!("sw {} {}", p, hex(&run)), &overwrite(&img, p, &run), "constant-run");
                }
                if run.len() >= 16 {
                    let mut b = img[..p].to_vec();
                    b.extend_from_slice(&run);
                    check(out, format!("sta {} {}", p, hex(&run)), &b, "cut+constant-tail");
                }
            }
        }
    }
    for (p, v) in m.subs {
        let mut b = img.clone();
        b[p] = v;
        let r = read_segment(&b);
        out.op(format!("sx {} {}", p, v), show(&r));
        let region = if p < 30 {
            "header-covered"
        } else if p < 40 {
            "header-padding"
        } else if p >= n - 4 {
            "footer-magic"
        } else if p >= n - 20 {
            "footer-sizes"
        } else if p >= n - 24 {
            "footer-crc"
        } else {
            "records"
        };
        out.count(&format!("damage:segment:{}", region));
        match &r {
            Err(_) => out.violation("C14:segment:corrupt:panic", "reading a corrupted segment panicked", json!({"deltas": orig, "pos": p, "val": v})),
            Ok(Err(_)) => {}
            Ok(Ok(d)) => {
                if !same(d) {
                    out.violation(&format!("C14:segment:corrupt:{}:decoded-different", region), "a corrupted segment decoded into different data", json!({"segment": hex(&img), "pos": p, "val": v}));
                } else {
                    out.count(&format!("harmless:segment:{}", region));
                }
            }
        }
    }
}

fn checkpoint_case(ds: &[ReplicationDelta], rng: &mut Rng, out: &mut Out, thorough: bool) {
    let state: HashMap<String, ReplicatedValue> = ds.iter().map(|d| (d.key.clone(), d.value.clone())).collect();
    let (ts, last) = (rng.next(), rng.below(100));
    let img = CheckpointWriter::new(Compression::None).write(state.clone(), ts, last).unwrap();
    // the serialised state is whatever the writer put between the length field and the footer
    let payload = img[52..img.len() - 16].to_vec();
    out.op(format!("C {} {} {} {}", state.len(), ts, last, hex(&payload)), hex(&img));
    let orig = show_state(&state);
    let show = |r: &Result<Result<HashMap<String, ReplicatedValue>, CheckpointError>, ()>| -> String {
        match r {
            Err(_) => "crash".into(),
            Ok(Err(e)) => format!("err {}", chk_err(e)),
            Ok(Ok(s)) => if show_state(s) == orig { "ok same".into() } else { "ok diff".into() },
        }
    };
    let r = read_checkpoint(&img);
    out.op(format!("IC {}", hex(&img)), show(&r));
    out.count("roundtrip:checkpoint");
    checkpoint_accessors(&img, out);
    // the model's bincode decoder on the real payload (checkpoint state, field by field)
    out.op(format!("BS {}", hex(&payload)), real_de_state(&payload));
    // load() WITHOUT validate(): every / sampled truncation and a few substitutions
    {
        let n = img.len();
        for l in 0..n {
            if !(thorough || l < 60 || l + 20 >= n || rng.chance(1, (n / 40).max(1) as u64)) {
                continue;
            }
            let r = load_only(&img[..l]);
            out.op(format!("cl {}", l), show(&r));
            out.count("damage:checkpoint:load-without-validate:truncate");
            match &r {
                Err(_) => out.violation(
                    LOAD_PANIC_SIG,
                    &format!("CheckpointReader::open succeeded on a checkpoint cut to {} of {} bytes and load() panicked instead of returning an error (image ends {})", l, n, if l < 52 { "inside the data-length field" } else { "inside the data section" }),
                    json!({"checkpoint": hex(&img), "truncate_to": l}),
                ),
                // (a cut inside the footer leaves the payload intact: load() does not look at the footer and
                // returns the SAME state — not "different data")
                Ok(Ok(st)) => {
                    if show_state(st) != orig {
                        out.violation("C14:checkpoint:load-without-validate:truncate:decoded-different", "load() decoded a truncated checkpoint into different data", json!({"checkpoint": hex(&img), "truncate_to": l}))
                    } else {
                        out.count("load-without-validate:cut-inside-the-footer:same-state");
                    }
                }
                Ok(Err(_)) => {}
            }
        }
        for p in [5usize, 48, 49, 50, 51] {
            for v in [0u8, 1, 0xFF] {
                if img[p] == v {
                    continue;
                }
                let mut b = img.clone();
                b[p] = v;
                let r = load_only(&b);
                out.op(format!("clx {} {}", p, v), show(&r));
                out.count("damage:checkpoint:load-without-validate:field");
                if r.is_err() {
                    // the data-length field now announces more than the image holds: the same missing bounds check
                    let dl = u32::from_le_bytes([b[48], b[49], b[50], b[51]]) as usize;
                    let sig = if 52 + dl > b.len() { LOAD_PANIC_SIG } else { "C14:checkpoint:load-without-validate:panic:other" };
                    out.violation(sig, "load() panicked on a checkpoint whose data-length field was changed", json!({"checkpoint": hex(&img), "pos": p, "val": v, "announced_data_length": dl, "image_length": b.len()}));
                }
            }
        }
        // payload byte replaced, both checksums recomputed: reaches bincode
        let tries = if thorough { 120 } else { 24 };
        for _ in 0..tries {
            if n <= 68 {
                break;
            }
            let p = 52 + rng.below((n - 68) as u64) as usize;
            let v = match rng.below(4) { 0 => 0u8, 1 => 0xFF, 2 => img[p] ^ (1 << rng.below(8)), _ => rng.below(256) as u8 };
            if v == img[p] {
                continue;
            }
            let mut b = img.clone();
            b[p] = v;
            let dc = crc32fast::hash(&b[52..n - 16]);
            b[n - 16..n - 12].copy_from_slice(&dc.to_le_bytes());
            let fc = crc32fast::hash(&b[n - 16..n - 4]);
            b[n - 4..].copy_from_slice(&fc.to_le_bytes());
            let r = read_checkpoint(&b);
            let imp = match &r {
                Err(_) => "crash".to_string(),
                Ok(Err(e)) => format!("err {}", chk_err(e)),
                Ok(Ok(st)) => format!("ok {}", show_state_canon(st)),
            };
            out.count(&format!("damage:checkpoint:payload-byte+checksums-recomputed:{}", if imp.starts_with("ok") { "decoded" } else if imp == "crash" { "crash" } else { "rejected" }));
            if r.is_err() {
                out.violation("C14:checkpoint:panic:payload-byte+checksums-recomputed", "reading a checkpoint with a damaged payload (valid checksums) panicked", json!({"checkpoint": hex(&b)}));
            }
            out.op(format!("cxf {} {}", p, v), imp);
        }
    }
    out.case(&format!("chk {}", orig), state.len() >= 2);
    if show(&r) != "ok same" {
        out.violation("C14:roundtrip:checkpoint", "a state did not survive CheckpointWriter/CheckpointReader", json!({"state": orig}));
    }
    let n = img.len();
    let dense = move |p: usize| p < 52 || p + 16 >= n;
    let m = gen_muts(&img, &dense, rng, thorough);
    for l in m.cuts {
        let r = read_checkpoint(&img[..l]);
        out.op(format!("ct {}", l), show(&r));
        out.count("damage:checkpoint:truncate");
        match &r {
            Err(_) => out.violation("C14:checkpoint:truncate:panic", "reading a truncated checkpoint panicked", json!({"len": l, "state": orig})),
            Ok(Err(_)) => {}
            Ok(Ok(_)) => out.violation("C14:checkpoint:truncate:decoded", "a truncated checkpoint was decoded", json!({"checkpoint": hex(&img), "len": l})),
        }
    }
    // boundary values in every integer field (header: version, flags, key_count, timestamp,
    // last_segment_id, header crc; data length; footer: data crc, data size, footer crc) and
    // constant runs at every field boundary
    {
        let fields: Vec<(usize, usize, &str)> = vec![(4, 1, "header"), (5, 1, "header"), (8, 8, "header"), (16, 8, "header"), (24, 8, "header"), (44, 4, "header-crc"), (48, 4, "data-length"), (n - 16, 4, "footer"), (n - 12, 8, "footer-size"), (n - 4, 4, "footer")];
        let bounds: Vec<usize> = vec![0, 4, 6, 8, 16, 24, 32, 44, 48, 52, n - 16, n - 12, n - 4, n];
        let mut check = |out: &mut Out, op: String, b: &[u8], what: &str| {
            let r = read_checkpoint(b);
            out.op(op.clone(), show(&r));
            out.count(&format!("damage:checkpoint:{}", what));
            match &r {
                Err(_) => out.violation(&format!("C14:checkpoint:panic:{}", what), "reading a damaged checkpoint panicked", json!({"checkpoint": hex(&img), "damage": op})),
                Ok(Err(_)) => {}
                Ok(Ok(st)) => {
                    if show_state(st) != orig {
                        out.violation(&format!("C14:checkpoint:{}:decoded-different", what), "a damaged checkpoint decoded into different data", json!({"checkpoint": hex(&img), "damage": op}));
                    }
                }
            }
        };
        for (pos, width, what) in fields {
            let remaining = (n - pos) as u64;
            let extra = [remaining, remaining.saturating_sub(4), remaining.saturating_sub(20), (n - 68) as u64 + 1, ((n - 68) as u64).saturating_sub(1), (1u64 << 32) - 52, (1u64 << 32) - 68];
            for v in boundary_values(width, &extra) {
                let w = le_bytes(v, width);
                if img[pos..pos + width] == w[..] {
                    continue;
                }
                check(out, format!("cw {} {}", pos, hex(&w)), &overwrite(&img, pos, &w), &format!("boundary-value:{}", what));
            }
        }
        for p in bounds {
            for run in constant_runs() {
                if p < n && (thorough || run[0] != 0x55) {
                    check(out, format!("cw {} {}", p, hex(&run)), &overwrite(&img, p, &run), "constant-run");
                }
                if run.len() >= 16 {
                    let mut b = img[..p].to_vec();
                    b.extend_from_slice(&run);
                    check(out, format!("cta {} {}", p, hex(&run)), &b, "cut+constant-tail");
                }
            }
        }
    }
    for (p, v) in m.subs {
        let mut b = img.clone();
        b[p] = v;
        let r = read_checkpoint(&b);
        out.op(format!("cx {} {}", p, v), show(&r));
        let region = if p < 6 { "header-covered" } else if p < 8 { "header-padding" } else if p < 32 { "header-covered" } else if p < 44 { "header-reserved" } else if p < 48 { "header-crc" } else if p < 52 { "data-length" } else if p >= n - 16 { "footer" } else { "data" };
        out.count(&format!("damage:checkpoint:{}", region));
        match &r {
            Err(_) => out.violation("C14:checkpoint:corrupt:panic", "reading a corrupted checkpoint panicked", json!({"pos": p, "val": v, "state": orig})),
            Ok(Err(_)) => {}
            Ok(Ok(s)) => {
                if show_state(s) != orig {
                    out.violation(&format!("C14:checkpoint:corrupt:{}:decoded-different", region), "a corrupted checkpoint decoded into different data", json!({"checkpoint": hex(&img), "pos": p, "val": v}));
                } else {
                    out.count(&format!("harmless:checkpoint:{}", region));
                }
            }
        }
    }
    // trailing bytes after the footer
    for t in [vec![0u8], vec![0xFF; 16], big_payload(rng, 5)] {
        let mut b = img.clone();
        b.extend_from_slice(&t);
        let r = read_checkpoint(&b);
        out.op(format!("ca {}", hex(&t)), show(&r));
        out.count("damage:checkpoint:trailing");
        if show(&r) == "ok diff" || r.is_err() {
            out.violation("C14:checkpoint:trailing:decoded-different", "trailing bytes changed the decoded checkpoint", json!({"tail": hex(&t)}));
        }
    }
}


/// the checkpoint MANAGER path (what a node runs): `CheckpointManager::create_checkpoint` puts the image
/// into an object store, `load_checkpoint` = get + open + validate + load.  The stored object is compared
/// with the model's writer (`C` op) and reading it — pristine, cut, one byte replaced — with the model's
/// reader, for both `CheckpointConfig::default()` (compression_enabled: the feature is off) and `test()`.
/// EVERY ENTRY POINT THAT DECODES A STORED OBJECT: a segment (and a checkpoint) is placed in an object store under a
/// saved manifest, damaged there (bit flips over the whole object, densest in the record / data area; truncations),
/// and read back through every public recovery entry point — `RecoveryManager::recover`,
/// `recover_with_progress` (the server's start-up path) and `recover_with_wal` — and through
/// `StreamingIntegration`-free direct readers above.  ORACLE: an entry point returns an error or exactly what it
/// returns for the undamaged store; never other data, never a panic; and on the undamaged store all entry points agree.
fn recovery_entry_points_case(ds: &[ReplicationDelta], rng: &mut Rng, out: &mut Out) {
    use redis_sim::streaming::wal_store::InMemoryWalStore;
    use redis_sim::streaming::{CheckpointInfo, InMemoryObjectStore, Manifest, ManifestManager, ObjectStore, RecoveryManager, SegmentInfo, WalRotator};
    const P: &str = "p";
    let rid = 1u64;
    let rt = tokio::runtime::Builder::new_current_thread().enable_time().build().unwrap();
    let store = InMemoryObjectStore::new();
    let mm = ManifestManager::new(store.clone(), P);
    let mut man = Manifest::new(rid);
    // optionally a checkpoint holding the first delta, then one segment with the rest (or with everything)
    let with_chk = ds.len() >= 2 && rng.chance(1, 2);
    let chk_key = format!("{}/checkpoints/chk-{:016}.chk", P, 7);
    if with_chk {
        let state: HashMap<String, ReplicatedValue> = [(ds[0].key.clone(), ds[0].value.clone())].into_iter().collect();
        let img = CheckpointWriter::new(Compression::None).write(state, 7, 0).unwrap();
        rt.block_on(store.put(&chk_key, &img)).unwrap();
        man.compact_segments(CheckpointInfo { key: chk_key.clone(), timestamp_ms: 7, key_count: 1, last_segment_id: 0 });
    }
    let seg_ds: &[ReplicationDelta] = if with_chk { &ds[1..] } else { ds };
    let id = man.allocate_segment_id();
    let seg_key = format!("{}/segments/segment-{:08}.seg", P, id);
    let mut w = SegmentWriter::new(Compression::None);
    for d in seg_ds {
        w.write_delta(d).unwrap();
    }
    let seg = w.finish().unwrap();
    rt.block_on(store.put(&seg_key, &seg)).unwrap();
    let lo = seg_ds.iter().map(|d| d.value.timestamp.time).min().unwrap_or(0);
    let hi = seg_ds.iter().map(|d| d.value.timestamp.time).max().unwrap_or(0);
    man.add_segment(SegmentInfo { id, key: seg_key.clone(), record_count: seg_ds.len() as u32, size_bytes: seg.len() as u64, min_timestamp: lo, max_timestamp: hi });
    rt.block_on(mm.save(&man)).unwrap();
    let wal = WalRotator::new(InMemoryWalStore::new(), 1 << 20).unwrap();
    let eps: [&str; 3] = ["recover", "recover_with_progress", "recover_with_wal"];
    let run_ep = |ep: &str| -> String {
        let rm = RecoveryManager::new(store.clone(), P, rid);
        let r = catch_unwind(AssertUnwindSafe(|| match ep {
            "recover" => rt.block_on(rm.recover()),
            "recover_with_progress" => rt.block_on(rm.recover_with_progress(|_| {})),
            _ => rt.block_on(rm.recover_with_wal(&wal)),
        }));
        match r {
            Err(_) => "crash".into(),
            Ok(r) => crate::c11::show_recovered(&r),
        }
    };
    let pristine: Vec<String> = eps.iter().map(|ep| run_ep(ep)).collect();
    out.count("recovery-entry-points:case");
    if !pristine[0].starts_with("ok") || pristine.iter().any(|p| *p != pristine[0]) {
        out.violation("C14:recovery-entry-points:disagree-on-undamaged-store", "the recovery entry points do not all return the stored deltas from an undamaged store", json!({"recover": pristine[0], "recover_with_progress": pristine[1], "recover_with_wal": pristine[2]}));
        return;
    }
    let objects: Vec<(&str, &String, Vec<u8>)> = if with_chk { vec![("segment", &seg_key, seg.clone()), ("checkpoint", &chk_key, rt.block_on(store.get(&chk_key)).unwrap())] } else { vec![("segment", &seg_key, seg.clone())] };
    for (what, key, img) in &objects {
        let n = img.len();
        let mut muts: Vec<(usize, u8)> = Vec::new();
        for _ in 0..20 {
            // record / data area (between the header and the footer) gets most of the flips
            let p = if rng.chance(3, 4) && n > 80 { 48 + rng.below((n - 72) as u64) as usize } else { rng.below(n as u64) as usize };
            muts.push((p, img[p] ^ (1 << rng.below(8))));
        }
        for (p, v) in muts {
            let mut b = img.clone();
            b[p] = v;
            rt.block_on(store.put(key, &b)).unwrap();
            for (i, ep) in eps.iter().enumerate() {
                let r = run_ep(ep);
                out.count(&format!("damage:stored-{}:bitflip:via-{}", what, ep));
                if r == "crash" {
                    out.violation(&format!("C14:panic:stored-{}:{}", what, ep), "a recovery entry point panicked on a damaged stored object", json!({"object": hex(img), "pos": p, "val": v, "entry_point": ep}));
                } else if r.starts_with("ok") && r != pristine[i] {
                    out.violation(
                        &format!("C14:stored-damage-decoded:{}:{}", what, ep),
                        &format!("{} returned OTHER data from a store whose {} object has one flipped bit (position {}, {} -> {}) instead of an error", ep, what, p, img[p], v),
                        json!({"entry_point": ep, "object": what, "image": hex(img), "pos": p, "old": img[p], "new": v, "undamaged": pristine[i].chars().take(400).collect::<String>(), "returned": r.chars().take(400).collect::<String>()}),
                    );
                }
            }
        }
        for _ in 0..4 {
            let l = rng.below(n as u64) as usize;
            rt.block_on(store.put(key, &img[..l])).unwrap();
            for ep in eps.iter() {
                let r = run_ep(ep);
                out.count(&format!("damage:stored-{}:truncate:via-{}", what, ep));
                if !r.starts_with("err") {
                    out.violation(&format!("C14:stored-truncation-decoded:{}:{}", what, ep), "a recovery entry point did not reject a truncated stored object", json!({"entry_point": ep, "object": what, "len": l, "of": n, "returned": r.chars().take(300).collect::<String>()}));
                }
            }
        }
        rt.block_on(store.put(key, img)).unwrap();
    }
}

/// LENGTH-WIDTH BOUNDARIES (capacity thresholds nobody configured): a payload just beyond 2^16 and just beyond
/// 2^24 bytes through every stored encoding (WAL entry, segment, checkpoint) — judged directly (the model is not
/// given 16 MiB op lines): the round trip must return the value, bit-identical
fn wide_payload_roundtrips(out: &mut Out) {
    for len in [(1usize << 16) + 1, (1usize << 24) + 1] {
        let v = MRv { crdt: MCrdt::Lww(MLww { v: Some((0..len).map(|i| (i % 251) as u8).collect()), t: 5, r: 1, tomb: false }), vc: None, exp: None, t: 5, r: 1, rf: None }.to_real();
        let d = ReplicationDelta::new(format!("wide{}", len), v, ReplicaId::new(1));
        let want = bincode::serialize(&d).unwrap();
        out.count(&format!("wide-payload:{}", len));
        // WAL entry
        let ok = catch_unwind(AssertUnwindSafe(|| {
            let e = WalEntry::from_delta(&d, 5).unwrap();
            let enc = e.encode();
            match WalEntry::decode(&enc) {
                Some((e2, n)) => n == enc.len() && e2.timestamp == 5 && e2.to_delta().map(|d2| bincode::serialize(&d2).unwrap() == want).unwrap_or(false),
                None => false,
            }
        }));
        if !matches!(ok, Ok(true)) {
            out.violation("C14:roundtrip:wal-entry:wide-payload", &format!("a delta with a {}-byte value did not survive from_delta/encode/decode/to_delta", len), json!({"value_len": len, "payload_len": want.len()}));
        }
        // segment
        let ok = catch_unwind(AssertUnwindSafe(|| {
            let mut w = SegmentWriter::new(Compression::None);
            w.write_delta(&d).unwrap();
            let img = w.finish().unwrap();
            let r = SegmentReader::open(&img).and_then(|r| { r.validate()?; r.read_all() });
            matches!(r, Ok(ref v) if v.len() == 1 && bincode::serialize(&v[0]).unwrap() == want)
        }));
        if !matches!(ok, Ok(true)) {
            out.violation("C14:roundtrip:segment:wide-payload", &format!("a delta with a {}-byte value did not survive a segment", len), json!({"value_len": len}));
        }
        // checkpoint
        let ok = catch_unwind(AssertUnwindSafe(|| {
            let state: HashMap<String, ReplicatedValue> = [(d.key.clone(), d.value.clone())].into_iter().collect();
            let img = CheckpointWriter::new(Compression::None).write(state, 1, 0).unwrap();
            let r = CheckpointReader::open(&img).and_then(|r| { r.validate()?; r.load() });
            matches!(r, Ok(ref c) if c.state.len() == 1 && show_real(&c.state[&d.key]) == show_real(&d.value))
        }));
        if !matches!(ok, Ok(true)) {
            out.violation("C14:roundtrip:checkpoint:wide-payload", &format!("a state with a {}-byte value did not survive a checkpoint", len), json!({"value_len": len}));
        }
    }
}

fn manager_case(ds: &[ReplicationDelta], rng: &mut Rng, out: &mut Out) {
    use redis_sim::streaming::checkpoint::{CheckpointConfig, CheckpointManager};
    use redis_sim::streaming::{InMemoryObjectStore, ManifestManager, ObjectStore};
    let state: HashMap<String, ReplicatedValue> = ds.iter().map(|d| (d.key.clone(), d.value.clone())).collect();
    let orig = show_state(&state);
    let last = rng.below(50);
    let cfg = if rng.chance(1, 2) { CheckpointConfig::default() } else { CheckpointConfig::test() };
    let rt = tokio::runtime::Builder::new_current_thread().enable_time().build().unwrap();
    let store = InMemoryObjectStore::new();
    let mgr = CheckpointManager::new(std::sync::Arc::new(store.clone()), "p".to_string(), ManifestManager::new(store.clone(), "p"), cfg);
    let res = match rt.block_on(mgr.create_checkpoint(state.clone(), last)) {
        Ok(r) => r,
        Err(e) => {
            out.violation("C14:checkpoint-manager:create-failed", &format!("create_checkpoint failed: {}", e), json!({"state": orig}));
            return;
        }
    };
    let img = rt.block_on(store.get(&res.key)).expect("stored checkpoint");
    let payload = img[52..img.len() - 16].to_vec();
    out.op(format!("C {} {} {} {}", state.len(), res.timestamp_ms, last, hex(&payload)), hex(&img));
    out.op(format!("IC {}", hex(&img)), "ok same".into());
    if res.key_count != state.len() as u64 || res.size_bytes != img.len() as u64 || res.last_segment_id != last {
        out.violation("C14:checkpoint-manager:result-fields", "CheckpointResult disagrees with what was stored", json!({"state": orig}));
    }
    out.count("checkpoint-manager:case");
    let load = |b: &[u8]| -> String {
        rt.block_on(store.put(&res.key, b)).expect("put");
        match catch_unwind(AssertUnwindSafe(|| rt.block_on(mgr.load_checkpoint(&res.key)))) {
            Err(_) => "crash".into(),
            Ok(Err(e)) => format!("err {}", chk_err(&e)),
            Ok(Ok(d)) => if show_state(&d.state) == orig { "ok same".into() } else { "ok diff".into() },
        }
    };
    let r = load(&img);
    if r != "ok same" {
        out.violation("C14:roundtrip:checkpoint-manager", "a state did not survive create_checkpoint / load_checkpoint", json!({"state": orig, "got": r}));
    }
    let n = img.len();
    for _ in 0..12 {
        let l = rng.below(n as u64) as usize;
        let r = load(&img[..l]);
        out.op(format!("ct {}", l), r.clone());
        out.count("damage:checkpoint-manager:truncate");
        if !r.starts_with("err") {
            out.violation("C14:checkpoint-manager:truncate:not-an-error", "load_checkpoint did not reject a truncated object", json!({"checkpoint": hex(&img), "len": l, "got": r}));
        }
        let p = rng.below(n as u64) as usize;
        let v = img[p] ^ (1 << rng.below(8));
        let mut b = img.clone();
        b[p] = v;
        let r = load(&b);
        out.op(format!("cx {} {}", p, v), r.clone());
        out.count("damage:checkpoint-manager:bitflip");
        if r == "crash" || r == "ok diff" {
            out.violation("C14:checkpoint-manager:corrupt:decoded-different", "load_checkpoint decoded a corrupted object into different data (or panicked)", json!({"checkpoint": hex(&img), "pos": p, "val": v, "got": r}));
        }
    }
    // a missing object is an error, not a panic
    if !matches!(catch_unwind(AssertUnwindSafe(|| rt.block_on(mgr.load_checkpoint("p/checkpoints/none.chk")))), Ok(Err(_))) {
        out.violation("C14:checkpoint-manager:missing-object", "load_checkpoint of a missing object is not an error", json!({}));
    }
}

/// WAL entry images: every position of the 16-byte entry header and sampled payload positions
fn wal_entry_damage(d: &ReplicationDelta, rng: &mut Rng, out: &mut Out, thorough: bool, fixed: bool) {
    let e = WalEntry::from_delta(d, 5).unwrap();
    let img = e.encode();
    // boundary values in the three header fields and constant runs at every field boundary
    let mut images: Vec<(Vec<u8>, String)> = Vec::new();
    for (pos, width, what) in [(0usize, 4usize, "len"), (4, 8, "timestamp"), (12, 4, "crc")] {
        let remaining = img.len() as u64;
        let extra = [remaining - 16, remaining - 15, remaining - 17, remaining, (1u64 << 32) - 16, (1u64 << 32) - 17];
        for v in boundary_values(width, &extra) {
            let w = le_bytes(v, width);
            if img[pos..pos + width] != w[..] {
                images.push((overwrite(&img, pos, &w), format!("boundary-value:{}", what)));
            }
        }
    }
    for p in [0usize, 4, 12, 16] {
        for run in constant_runs() {
            images.push((overwrite(&img, p, &run), "constant-run".into()));
            let mut b = img[..p].to_vec();
            b.extend_from_slice(&run);
            images.push((b, "cut+constant-tail".into()));
        }
    }
    for (b, what) in images {
        let r = catch_unwind(AssertUnwindSafe(|| WalEntry::decode(&b)));
        let imp = match &r {
            Err(_) => "crash".to_string(),
            Ok(None) => "none".into(),
            Ok(Some((e2, n))) => format!("{} {} {} {}", e2.timestamp, e2.checksum, hex(&e2.data), n),
        };
        out.op(format!("wd {}", hex(&b)), imp);
        out.count(&format!("damage:wal-entry:{}", what));
        match r {
            Err(_) => out.violation(&format!("C14:wal-entry:panic:{}", what), "WalEntry::decode panicked", json!({"entry": hex(&b), "pristine": hex(&img)})),
            Ok(None) => {}
            Ok(Some((e2, _))) => {
                if e2.data != e.data || e2.timestamp != e.timestamp {
                    out.violation(&format!("C14:wal-entry:{}:decoded-different", what), "a damaged WAL entry decoded into different data", json!({"entry": hex(&b), "pristine": hex(&img)}));
                }
            }
        }
    }
    let mut subs: Vec<(usize, u8)> = Vec::new();
    if fixed {
        subs.push((5, 1)); // second stamp byte 0 -> 1: stamp 5 -> 261
    }
    for p in 0..img.len() {
        if thorough {
            for b in 0..8 {
                subs.push((p, img[p] ^ (1 << b)));
            }
        } else if p < 16 || rng.chance(1, 8) {
            subs.push((p, img[p] ^ (1 << rng.below(8))));
        }
    }
    for (p, v) in subs {
        let mut b = img.clone();
        b[p] = v;
        let r = catch_unwind(AssertUnwindSafe(|| WalEntry::decode(&b)));
        let imp = match &r {
            Err(_) => "crash".to_string(),
            Ok(None) => "none".into(),
            Ok(Some((e2, n))) => format!("{} {} {} {}", e2.timestamp, e2.checksum, hex(&e2.data), n),
        };
        out.op(format!("wd {}", hex(&b)), imp);
        let region = if p < 4 { "len" } else if p < 12 { "timestamp" } else if p < 16 { "crc" } else { "payload" };
        out.count(&format!("damage:wal-entry:{}", region));
        match r {
            Err(_) => out.violation("C14:wal-entry:panic:byte", "WalEntry::decode panicked", json!({"entry": hex(&b)})),
            Ok(None) => {}
            Ok(Some((e2, _))) => {
                if e2.data != e.data {
                    out.violation("C14:wal-entry:payload:decoded-different", "a corrupted WAL entry decoded into a different payload", json!({"entry": hex(&img), "pos": p, "val": v}));
                } else if e2.timestamp != e.timestamp {
                    out.violation("C14:wal-entry:timestamp-not-covered", &format!("a corrupted WAL entry decoded with stamp {} instead of {}", e2.timestamp, e.timestamp), json!({"entry": hex(&img), "pos": p, "val": v, "delta": show_delta(d)}));
                }
            }
        }
    }
}

/// corpus witness for the truncation finding: two deltas such that CRC-32 of the first record =
/// the serialised length of the second, whose key carries the footer magic at bytes 8..12
fn embedded_footer_witness() -> Vec<ReplicationDelta> {
    use redis_sim::redis::SDS;
    use redis_sim::replication::lattice::LamportClock;
    let mk = |key: &str, val: Vec<u8>| {
        ReplicationDelta::new(
            key.to_string(),
            ReplicatedValue::with_value(SDS::new(val), LamportClock { time: 1, replica_id: ReplicaId::new(1) }),
            ReplicaId::new(1),
        )
    };
    let base = bincode::serialize(&mk("AAAAAAAAGESR", vec![])).unwrap().len() as u32;
    let mut i: u32 = 0;
    loop {
        let d1 = mk("k", i.to_le_bytes().to_vec());
        let b1 = bincode::serialize(&d1).unwrap();
        let mut rec = (b1.len() as u32).to_le_bytes().to_vec();
        rec.extend_from_slice(&b1);
        let c = crc32fast::hash(&rec);
        if c >= base && c < base + 4_000 {
            let d2 = mk("AAAAAAAAGESR", vec![b'x'; (c - base) as usize]);
            assert_eq!(bincode::serialize(&d2).unwrap().len() as u32, c);
            return vec![d1, d2];
        }
        i += 1;
    }
}

pub fn run(a: &Args) {
    let mut out = Out::new(&a.out);
    let mut rng = Rng::new(a.seed);
    let thorough = a.tier == "thorough";
    let load_checked = probe_load_checked();
    out.op(
        format!("V {} {} {}", crate::cfg::CODE_WAL_FORMAT, crate::cfg::CODE_SEGMENT_STRICT_COUNT as u8, load_checked as u8),
        format!("format {} strict {} load-checked {}", crate::cfg::CODE_WAL_FORMAT, crate::cfg::CODE_SEGMENT_STRICT_COUNT as u8, load_checked as u8),
    );
    out.count(if load_checked { "variant:checkpoint-load:bounds-checked" } else { "variant:checkpoint-load:unchecked(panics on a short image)" });
    crate::walcov::report(&mut out, "C14");
    {
        // on-disk constants: the crate's public ones and the private ones scanned from the source
        // against the sizes the model's readers / writers use (a written image of known content)
        use redis_sim::streaming::segment::{FOOTER_MAGIC, SEGMENT_MAGIC, SEGMENT_VERSION};
        let c = format!("seg-magic {} foot-magic {} seg-version {} seg-header {} seg-footer {} chk-magic {} chk-version {} chk-header {}",
            hex(&SEGMENT_MAGIC), hex(&FOOTER_MAGIC), SEGMENT_VERSION, crate::walcov::SRC_SEGMENT_HEADER_SIZE, crate::walcov::SRC_SEGMENT_FOOTER_SIZE,
            hex(crate::walcov::SRC_CHECKPOINT_MAGIC.as_bytes()), crate::walcov::SRC_CHECKPOINT_VERSION, crate::walcov::SRC_CHECKPOINT_HEADER_SIZE);
        out.op("FMT".into(), c);
    }
    // repaired defect (fix: 7df179c; the corpus case must PASS now — the oracle is unconditional): the checkpoint of the EMPTY state (76 bytes) cut
    // right after its 48-byte header, inside the length field and inside the data section — open() accepts
    // each, load() must not panic
    {
        let img = CheckpointWriter::new(Compression::None).write(HashMap::new(), 1, 1).unwrap();
        for l in [48usize, 50, 52, 59] {
            let r = load_only(&img[..l]);
            out.count(&format!("corpus:load-without-validate:cut-{}:{}", l, match &r { Err(_) => "panic", Ok(Err(_)) => "error", Ok(Ok(_)) => "decoded" }));
            if r.is_err() {
                out.violation(LOAD_PANIC_SIG, &format!("CheckpointReader::open succeeded on the empty-state checkpoint cut to {} of {} bytes and load() panicked instead of returning an error", l, img.len()), json!({"checkpoint": hex(&img), "truncate_to": l}));
            }
        }
    }
    bincode_fixed(&mut out);
    // fixed corpus first (both were defects, repaired by `fix:` commits: they must PASS now)
    {
        let w = embedded_footer_witness();
        let before = out.oracle.len();
        segment_case(&w, &mut rng, &mut out, false, "corpus:embedded-footer");
        wal_entry_damage(&w[0], &mut rng, &mut out, false, true);
        out.count(if out.oracle.len() == before { "corpus:embedded-footer+stamp-flip:pass" } else { "corpus:embedded-footer+stamp-flip:FAIL" });
    }
    // non-UTF-8 payloads ([0xff], a SETBIT-style bitmap, a hash field with invalid UTF-8) through every
    // encoding, first
    {
        let mk = |key: &str, v: Vec<u8>| {
            let m = MRv { crdt: MCrdt::Lww(MLww { v: Some(v), t: 2, r: 1, tomb: false }), vc: None, exp: None, t: 2, r: 1, rf: None };
            ReplicationDelta::new(key.into(), m.to_real(), ReplicaId::new(1))
        };
        let mut h = std::collections::BTreeMap::new();
        h.insert("f".to_string(), MLww { v: Some(vec![0xC3, 0x28, 0xFF]), t: 3, r: 1, tomb: false });
        let hash = ReplicationDelta::new("h".into(), MRv { crdt: MCrdt::H(h), vc: None, exp: None, t: 3, r: 1, rf: None }.to_real(), ReplicaId::new(1));
        let ds = vec![mk("ff", vec![0xFF]), mk("bitmap", vec![0x80, 0x01, 0xFE, 0x00, 0xFF]), hash];
        roundtrips(&ds, &mut rng, &mut out);
        bincode_tie(&ds, &mut rng, &mut out, true);
        segment_case(&ds, &mut rng, &mut out, false, "non-utf8-payloads");
        checkpoint_case(&ds, &mut rng, &mut out, false);
    }
    // a 1 MiB value and a 300-field hash: round trips on the Rust side only (no model op: the
    // line protocol would carry megabytes of hex)
    {
        let big = MRv { crdt: MCrdt::Lww(MLww { v: Some(big_payload(&mut rng, 1 << 20)), t: 3, r: 2, tomb: false }), vc: None, exp: None, t: 3, r: 2, rf: None }.to_real();
        let d = ReplicationDelta::new("big".into(), big, ReplicaId::new(2));
        let e = WalEntry::from_delta(&d, 3).unwrap();
        let ok_wal = WalEntry::decode(&e.encode()).and_then(|(e2, _)| e2.to_delta().ok()).map(|d2| show_delta(&d2) == show_delta(&d)).unwrap_or(false);
        let mut w = SegmentWriter::new(Compression::None);
        w.write_delta(&d).unwrap();
        let ok_seg = matches!(read_segment(&w.finish().unwrap()), Ok(Ok(v)) if v.len() == 1 && show_delta(&v[0]) == show_delta(&d));
        let mut st = HashMap::new();
        st.insert(d.key.clone(), d.value.clone());
        let ok_chk = matches!(read_checkpoint(&CheckpointWriter::new(Compression::None).write(st.clone(), 1, 1).unwrap()), Ok(Ok(s)) if show_state(&s) == show_state(&st));
        let ok_gossip = GossipMessage::deserialize(&GossipMessage::new_delta_batch(ReplicaId::new(1), vec![d.clone()], 1).serialize().unwrap())
            .ok()
            .and_then(|m| m.into_deltas())
            .map(|v| v.len() == 1 && show_delta(&v[0]) == show_delta(&d))
            .unwrap_or(false);
        out.count_n("roundtrip:1MiB-value", 4);
        if !(ok_wal && ok_seg && ok_chk && ok_gossip) {
            out.violation("C14:roundtrip:1MiB", "a 1 MiB value did not survive an encoding", json!({"wal": ok_wal, "segment": ok_seg, "checkpoint": ok_chk, "gossip": ok_gossip}));
        }
    }
    // empty batch: refused by the writer
    {
        let r = SegmentWriter::new(Compression::None).finish();
        out.op("S 0 ".into(), match r { Err(SegmentError::Empty) => "none".into(), Err(e) => format!("err {}", seg_err(&e)), Ok(b) => hex(&b) });
    }
    wide_payload_roundtrips(&mut out);
    for case_no in 0..a.n {
        let n = match rng.below(6) {
            0 => 1,
            1 => 2,
            _ => rng.range(1, 6),
        } as usize;
        let ds = gen_deltas(&mut rng, &mut out, n);
        roundtrips(&ds, &mut rng, &mut out);
        bincode_tie(&ds, &mut rng, &mut out, case_no % 16 == 0);
        segment_case(&ds, &mut rng, &mut out, thorough, "generated");
        checkpoint_case(&ds, &mut rng, &mut out, thorough);
        if rng.chance(1, 3) {
            wal_entry_damage(&ds[0], &mut rng, &mut out, thorough, false);
        }
        if case_no % 4 == 0 {
            manager_case(&ds, &mut rng, &mut out);
        }
        if case_no % 3 == 0 {
            recovery_entry_points_case(&ds, &mut rng, &mut out);
        }
    }
    out.finish("case = one batch of real ReplicationDeltas (every CRDT kind: values from random_value / reachable replicas / CRDT API, many-field hashes, binary/empty/1000-byte strings, tombstones, vector clocks, expiry, u64::MAX stamps; unicode/NUL/empty keys) encoded as WAL entries, one segment, one checkpoint and five gossip messages; every (sampled when > 400 bytes; thorough: every) truncation length and header/footer position x {bit flip, 0x00, 0xFF} plus sampled body positions; distinct by canonical text of the batch; non-trivial iff >= 2 deltas");
}
